"""C16 -- FSS equals the sliding-window definition and aggregates by components."""
import itertools
import math
from fractions import Fraction

import numpy as np
import xarray as xr

import core
import gens
from core import enc_arr, enc_bool, enc_dimspec, enc_list, enc_num, enc_nums, enc_str

ID = "C16"
LEVEL = "proof"
LEVEL_TEXT = ("Coq theorems for every field shape, window and padding mode: the summed-area-table model of fss_numpy.py (double cumulative "
              "sums, zero row/column, tl/br index meshes with their clips) equals direct window counting without padding and, with zero "
              "padding, counts the windows with top-left corner in [-floor(w/2), n-floor(w/2)] of the zero-extended field -- which is the "
              "documented padding for even windows and for w=1 and provably is not for odd windows >= 3 (known finding); range, symmetry, "
              "identical-fields, zero denominator, NaN-as-non-event and aggregation-by-components are theorems of the same model. The model "
              "is tied to the code by running the extracted model and the public functions on every shape <= 5x5 x every window x both "
              "paddings and on multi-field arrays. Proof is the right level: the index arithmetic is where off-by-one errors hide and a "
              "proof covers every shape/window, not a sample.")
LEVEL_NOTE = ("the scalar tail (zero denominator, clamp) of compute_fss and _aggregate_fss_decomposed is regenerated from source (sites C16.single, C16.agg) and proved equal to the model's fss_of_comps; trusted: the hand-written code-faithful model of the summed-area table (validated by the exhaustive correspondence run), extraction, harness, numpy "
              "integer/float arithmetic on counts (exact for these sizes); xr.apply_ufunc broadcasting is modelled as an inner join on identical labels")
TECHNIQUE = "Coq proof about a code-faithful summed-area-table model + exhaustive extracted-model correspondence"
SITES = ["C16.single", "C16.agg"]
RULE = ("single fields: every shape HxW <= bound (5x5 thorough, 4x4 quick) x every window 1..H x 1..W x both paddings x k random binary "
        "fields (event density drawn from {0.2,0.5,0.8}, occasionally all-zero / all-one / identical pairs), value fields on the grid k/2 "
        "(also integer-dtype and mixed integer/float fields with fractional thresholds) "
        "with NaN cells, thresholds on the grid and the four numpy comparison operators; multi-field arrays: 0-2 extra dims on fcst/obs "
        "(random overlap, broadcast, labels of shared extra dims stored in independently shuffled order; spatial labels of obs and/or fcst stored reversed or permuted "
        "in a third of the cases and in most lone 2-D pairs, each lone 2-D call repeated with a length-1 extra dim), random reduce/preserve spelling, both "
        "paddings; fss_2d_binary on bool and 0/1 float fields; large neighbourhoods: fields 12..40, 64..128 and 240..300 cells a side with widespread events "
        "(dry strips, density 0.8-0.97, all-event, identical, shifted blobs; sparse control), windows mostly >= 90% of the side, both paddings, four operators, "
        "float/int32/int64 storage, through all three entry points, decided by exact int64/Python-integer window counting; optional arguments: in every "
        "stream each optional argument whose intended value is the documented default is left out or written out at random (threshold_operator "
        "left out / None / np.greater, zero_padding, compute_method, dask in {forbidden, allowed, parallelized} on numpy data, reduce/preserve None, "
        "check_boolean), and per run 2 (fss_2d, single field) + 1 (fss_2d_binary) stacks of whole-number fields with cells equal to the threshold get "
        "the full product of those spellings x nine reduce/preserve requests x both spatial_dims orders; +-inf cells and thresholds, unsigned "
        "storage, 0/1 fields stored as uint8/int8; a backend other than NUMPY. A case is "
        "distinct by (function, fields, threshold, operator, window, padding, request) and non-trivial when some field contains an event")
ASSUMPTIONS = ["event counts are integers <= 9e4 and the sums of their squares stay below 2^53: binary64 evaluates the component means and the final ratio to within 1e-9 of the exact rational"]
TRUSTED = ["xr.apply_ufunc(vectorize=True) over the non-spatial dims is modelled as a loop over the broadcast (inner-joined) index space",
           "fields larger than 20x20 (padded) / 64x64 (128x128 thorough, unpadded) are not sent through the extracted model (too slow: 35 s for one 256x256 field): "
           "their oracle is harness code (c16.py::fast_sums, int64 prefix sums + Python integers), cross-checked in every run against direct counting on small "
           "fields and against the extracted model on the medium ones"]

# counters every complete run (quick or thorough, any seed) must have incremented: one per predicate family / input class
EXPECT_COUNTS = [
    "single:agree", "single:known", "single:err", "geometry", "input_unchanged",
    "op:gt", "op:ge", "op:lt", "op:le", "with_nan", "with_inf", "threshold:infinite", "dtype:int/int", "dtype:int/float", "dtype:uint",
    "tie:single:operator=omitted", "tie:single:operator=None", "tie:single:operator=explicit",
    "tie:multi:operator=omitted", "tie:multi:operator=None", "tie:multi:operator=explicit",
    "spelling:threshold_operator=omitted", "spelling:threshold_operator=None", "spelling:zero_padding=omitted",
    "spelling:compute_method=explicit", "spelling:dask=forbidden", "spelling:dask=allowed", "spelling:dask=parallelized",
    "spelling:reduce_dims=explicit", "spelling:preserve_dims=explicit", "spelling:check_boolean=omitted",
    "options:fss_2d", "options:fss_2d_binary", "options:fss_2d_single_field", "options:tie_changes_every_score",
    "options:threshold_operator=omitted", "options:threshold_operator=None", "options:zero_padding=omitted", "options:check_boolean=omitted",
    "malformed:shape", "malformed:wbig", "malformed:wzero", "malformed:wneg", "malformed:badop", "malformed:compute_method",
    "multi:agree", "multi:err", "multi:known", "multi:spatial_labels_in_another_order", "multi:spatial_extent_differs", "multi:window_too_big",
    "multi:with_inf", "multi:dtype:uint", "multi:extra_dims=0", "multi:extra_dims=2", "multi:out_ndim=0", "multi:out_ndim=1",
    "lone_2d:vs_length1_dim", "lone_2d:spatial_labels_in_another_order",
    "binary:agree", "binary:err", "binary:vs_thresholding", "binary:non_boolean_refused", "binary:storage=bool", "binary:storage=float64", "binary:storage=uint8",
    "aggregate:by_components", "aggregate:differs_from_mean_of_scores",
    "dense:medium:", "dense:mid:", "dense:large:", "dense:window_count>46340", "dense:oracle_vs_direct_counting", "dense:oracle_vs_model",
    "dense:xarray_fields=",
]

FINDING = "fss-zero-padding-odd-window"
OPS = ["gt", "ge", "lt", "le"]


def np_op(name):
    return {"gt": np.greater, "ge": np.greater_equal, "lt": np.less, "le": np.less_equal}[name]


def enc_rows(a):
    return enc_list([enc_nums(row) for row in np.asarray(a, dtype=float)])


# ------------------------------------------------------------------------------------------
# how the optional arguments of a public call are written (round 4)
# ------------------------------------------------------------------------------------------
# An optional argument whose intended value is the documented default can be written in several ways by a caller: left out, or given
# explicitly (threshold_operator also as None).  All of them must mean the documented default: `>` for the operator, no padding,
# the numpy backend, dask="forbidden" (which has no effect on numpy-backed data, like "allowed" / "parallelized"), no reduce/preserve
# request, check_boolean=True.  The spelling is part of the replayable case.
DASK_SPELLINGS = ["omitted", "omitted", "omitted", "forbidden", "allowed", "parallelized"]
OLD_SPELLING = {"threshold_operator": "explicit", "zero_padding": "explicit"}      # replay files written before round 4


def rand_spelling(rng, fn, op="gt", pad=False, rd=None, pd=None, check=True):
    sp = {"zero_padding": "explicit" if pad else rng.choice(["omitted", "explicit"]),
          "compute_method": rng.choice(["omitted", "omitted", "explicit"])}
    if fn != "fss_2d_binary":
        sp["threshold_operator"] = rng.choice(["omitted", "None", "explicit"]) if op == "gt" else "explicit"
    else:
        sp["check_boolean"] = rng.choice(["omitted", "explicit"]) if check else "explicit"
    if fn != "fss_2d_single_field":
        sp["dask"] = rng.choice(DASK_SPELLINGS)
        sp["reduce_dims"] = "explicit" if rd is not None else rng.choice(["omitted", "omitted", "explicit"])
        sp["preserve_dims"] = "explicit" if pd is not None else rng.choice(["omitted", "omitted", "explicit"])
    return sp


def spelled_kwargs(sp, op="gt", pad=False, rd=None, pd=None, check=True):
    """the optional keyword arguments of one call, written as `sp` says; an argument may only be left out (or None) when the intended
    value is the documented default"""
    from scores.fast.fss.typing import FssComputeMethod
    kw = {}
    s = sp.get("threshold_operator")
    if s == "explicit":
        kw["threshold_operator"] = np_op(op)
    elif s is not None:
        assert op == "gt", "only the default operator can be left out"
        if s == "None":
            kw["threshold_operator"] = None
    if sp.get("zero_padding", "explicit") == "explicit":
        kw["zero_padding"] = pad
    else:
        assert not pad
    if sp.get("compute_method", "omitted") == "explicit":
        kw["compute_method"] = FssComputeMethod.NUMPY
    if sp.get("dask", "omitted") != "omitted":
        kw["dask"] = sp["dask"]
    if rd is not None or sp.get("reduce_dims", "omitted") == "explicit":
        kw["reduce_dims"] = rd
    if pd is not None or sp.get("preserve_dims", "omitted") == "explicit":
        kw["preserve_dims"] = pd
    if "check_boolean" in sp:
        if sp["check_boolean"] == "explicit":
            kw["check_boolean"] = check
        else:
            assert check
    return kw


def count_spelling(ctx, sp):
    for k, v in sp.items():
        ctx.count("spelling:%s=%s" % (k, v))


def parse_th(x):
    """threshold of a stored case (a rational, or +-inf)"""
    if isinstance(x, str) and x.lstrip("+-") in ("inf", "Infinity"):
        return float(x.replace("Infinity", "inf"))
    if isinstance(x, float) and math.isinf(x):
        return x
    return Fraction(x)


def odd3(w):
    return w % 2 == 1 and w >= 3


def in_finding(pad, wh, ww):
    return bool(pad) and (odd3(wh) or odd3(ww))


def num_or_err(t):
    return t if core.is_err(t) else core.dec_num(t)


def judge_scalar(ctx, what, desc, impl, sat, spec, pad, wh, ww):
    """impl: call_impl result (scalar); sat/spec: model values (Fraction or 'err:..').  Implements the known-finding rule."""
    st, val = impl
    if core.is_err(spec) or st == "err":
        ok = (st == "err" and core.is_err(spec) and val == spec)
        if not ok and st == "err" and not core.is_err(spec):
            ctx.violation(what + " raises on a valid input", desc, spec, str(val)[:200])
        elif not ok:
            ctx.tie_fail(what + ": error behaviour differs", desc, str(val)[:200], f"sat={sat} spec={spec}")
        return "err"
    if core.close(val, spec):
        return "agree"
    if in_finding(pad, wh, ww) and not core.is_err(sat) and core.close(val, sat):
        ctx.violation(what + " differs from the sliding-window definition (zero padding, odd window)", desc, spec, float(val), finding_key=FINDING)
        return "known"
    ctx.violation(what + " differs from the sliding-window definition", desc, spec, float(val))
    return "violation"


def judge_array(ctx, what, desc, impl, sat_t, spec_t, pad, wh, ww):
    ok_spec, why = core.compare_result(impl, spec_t)
    if ok_spec:
        return "agree" if impl[0] == "ok" else "err"
    if impl[0] == "err" and not core.is_err(spec_t):
        ctx.violation(what + " raises on a valid input", desc, str(spec_t)[:300], str(impl[1])[:200])
        return "err"
    if impl[0] == "err" or core.is_err(spec_t):
        ctx.tie_fail(what + ": error behaviour differs: " + why, desc, str(impl[1])[:200], str(spec_t)[:200])
        return "err"
    ok_sat, _ = core.compare_result(impl, sat_t)
    if in_finding(pad, wh, ww) and ok_sat:
        ctx.violation(what + " differs from the sliding-window definition (zero padding, odd window)", desc, str(spec_t)[:300],
                      gens.da_repr(impl[1]), finding_key=FINDING)
        return "known"
    ctx.violation(what + " differs from the sliding-window definition: " + why, desc, str(spec_t)[:300], gens.da_repr(impl[1]))
    return "violation"


def no_model(ctx):
    return getattr(ctx, "no_model", False)


def py_fss(f, o, th, op, wh, ww, pad, code):
    t = py_sums(f, o, th, op, wh, ww, pad, code)
    if isinstance(t, str):
        return t
    sf, so, sd = t
    return Fraction(0) if sf + so == 0 else 1 - Fraction(sd, sf + so)


def py_sums(f, o, th, op, wh, ww, pad, code):
    """the sliding-window definition evaluated directly in exact Python rationals (code=True: the window positions the recorded
    finding uses, top-left corners -floor(w/2)..n-floor(w/2)); used only when the extracted model cannot be built (run_without_model)"""
    f, o = np.asarray(f), np.asarray(o)
    if f.shape != o.shape or f.ndim != 2:
        return "err:ValueError"
    H, W = f.shape
    if wh > H or ww > W or wh < 1 or ww < 1:
        return "err:ValueError"
    cmp = {"gt": lambda v, t: v > t, "ge": lambda v, t: v >= t, "lt": lambda v, t: v < t, "le": lambda v, t: v <= t}[op]
    th_inf = isinstance(th, float) and math.isinf(th)

    def event(x):
        if isinstance(x, float) and math.isnan(x):
            return 0
        if th_inf or (isinstance(x, float) and math.isinf(x)):
            return int(cmp(float(x), float(th)))          # an infinite cell or threshold: the order of the extended reals
        return int(cmp(Fraction(x), th))

    def binar(a):
        return [[event(x) for x in row] for row in a.tolist()]
    bf, bo = binar(f), binar(o)
    hh, hw = (wh // 2, ww // 2) if pad else (0, 0)
    nr = (H + 1 if code else H + 2 * hh - wh + 1) if pad else H - wh + 1
    nc = (W + 1 if code else W + 2 * hw - ww + 1) if pad else W - ww + 1

    def win(b, r, c):
        return sum(b[i][j] for i in range(max(r - hh, 0), min(r - hh + wh, H)) for j in range(max(c - hw, 0), min(c - hw + ww, W)))
    sf = so = sd = 0
    for r in range(nr):
        for c in range(nc):
            a, b = win(bf, r, c), win(bo, r, c)
            sf, so, sd = sf + a * a, so + b * b, sd + (a - b) ** 2
    return sf, so, sd


def fast_sums(bf, bo, wh, ww, pad, code, want_max=False):
    """the three sums of py_sums for 0/1 integer fields of any size: the window counts are differences of an int64 prefix-sum table of
    the zero-extended plane (counts <= H*W < 2^31, squares < 2^63), the three totals are accumulated in Python integers.  Independent of
    the implementation's table layout, index meshes and clips; cross-checked in every run against py_sums (direct counting) on small
    fields and against the extracted model on medium ones (large_fields)."""
    bf, bo = np.asarray(bf, dtype=np.int64), np.asarray(bo, dtype=np.int64)
    if bf.shape != bo.shape or bf.ndim != 2:
        return "err:ValueError"
    H, W = bf.shape
    if wh > H or ww > W or wh < 1 or ww < 1:
        return "err:ValueError"
    hh, hw = (wh // 2, ww // 2) if pad else (0, 0)
    nr = (H + 1 if code else H + 2 * hh - wh + 1) if pad else H - wh + 1
    nc = (W + 1 if code else W + 2 * hw - ww + 1) if pad else W - ww + 1

    def counts(b):
        ext = np.zeros((hh + H + wh, hw + W + ww), dtype=np.int64)      # hh/hw zero cells before the field, enough after it
        ext[hh:hh + H, hw:hw + W] = b
        P = np.zeros((ext.shape[0] + 1, ext.shape[1] + 1), dtype=np.int64)
        P[1:, 1:] = ext.cumsum(0).cumsum(1)
        # window with top-left corner (r, c) of the extended plane, r < nr, c < nc
        return P[wh:wh + nr, ww:ww + nc] - P[0:nr, ww:ww + nc] - P[wh:wh + nr, 0:nc] + P[0:nr, 0:nc]

    def total(a):
        return sum(int(x) for x in (a * a).sum(axis=1))
    a, b = counts(bf), counts(bo)
    if want_max:
        return int(max(a.max(), b.max()))
    return total(a), total(b), total(a - b)


def fss_of_sums(t):
    if isinstance(t, str):
        return t
    sf, so, sd = t
    return Fraction(0) if sf + so == 0 else 1 - Fraction(sd, sf + so)


def events_of(a, th, op):
    """0/1 event field (NaN compares false); thresholds are dyadic, so float(th) is exact"""
    with np.errstate(invalid="ignore"):
        return np_op(op)(np.asarray(a), float(th)).astype(np.int64)


def snapshot(*arrays):
    return [a.copy(deep=True) if isinstance(a, xr.DataArray) else np.array(a, copy=True) for a in arrays]


def inputs_unchanged(ctx, what, desc, arrays, before):
    """a call must not write into the arrays it is given"""
    ctx.count("input_unchanged")
    for name, a, b in zip(("fcst", "obs"), arrays, before):
        av, bv = (a.values, b.values) if isinstance(a, xr.DataArray) else (np.asarray(a), b)
        if av.dtype != bv.dtype or av.shape != bv.shape or not np.array_equal(av, bv, equal_nan=av.dtype.kind == "f"):
            ctx.violation(what + " modifies the %s array it is given" % name, desc, bv.tolist(), av.tolist())


def has_tie(f, o, th):
    """some cell of fcst or obs is exactly equal to the threshold (an event for >= / <=, not for > / <)"""
    with np.errstate(invalid="ignore"):
        return bool((np.asarray(f) == float(th)).any() or (np.asarray(o) == float(th)).any())


def model_single(ctx, f, o, th, op, wh, ww, pad):
    if no_model(ctx):
        return py_fss(f, o, th, op, wh, ww, pad, True), py_fss(f, o, th, op, wh, ww, pad, False)
    m = ctx.model("c16_single", enc_list([enc_rows(f), enc_rows(o), enc_num(th), enc_str(op), str(wh), str(ww), enc_bool(pad)]))
    return num_or_err(m[0]), num_or_err(m[1])


def single_case(ctx, S, f, o, th, op, wh, ww, pad, sample=False, spelling=None):
    sp = spelling if spelling is not None else rand_spelling(ctx.rng, "fss_2d_single_field", op, pad)
    kw = dict(event_threshold=float(th), window_size=(wh, ww), **spelled_kwargs(sp, op, pad))
    count_spelling(ctx, sp)
    before = snapshot(f, o)
    impl = core.call_impl(S.spatial.fss_2d_single_field, f, o, **kw)
    sat, spec = model_single(ctx, before[0], before[1], th, op, wh, ww, pad)
    desc = {"fn": "fss_2d_single_field", "fcst": np.asarray(f).tolist(), "obs": np.asarray(o).tolist(),
            "fcst_dtype": str(np.asarray(f).dtype), "obs_dtype": str(np.asarray(o).dtype), "event_threshold": th,
            "operator": op, "window_size": [wh, ww], "zero_padding": pad, "spelling": sp}
    with np.errstate(invalid="ignore"):
        events = bool(np_op(op)(f, float(th)).any() or np_op(op)(o, float(th)).any()) if impl[0] == "ok" else False
    ctx.case(desc, events)
    if sample:
        ctx.sample(desc)
    inputs_unchanged(ctx, "fss_2d_single_field", desc, (f, o), before)
    if impl[0] == "ok" and has_tie(f, o, th):
        ctx.count("tie:single:operator=" + sp.get("threshold_operator", "explicit"))
    verdict = judge_scalar(ctx, "fss_2d_single_field", desc, impl, sat, spec, pad, wh, ww)
    ctx.count("single:" + verdict)
    # outside the finding's condition the code-faithful model and the specification agree by theorem; inside, the code equals the
    # code-faithful model or (after a repair) the specification
    if verdict == "agree" and not core.is_err(sat) and not in_finding(pad, wh, ww) and sat != spec:
        ctx.tie_fail("model: fss_sat differs from fss_def outside the odd-window padding case", desc, None, [sat, spec])
    return impl, sat, spec


def rand_binary(rng, H, W):
    p = rng.choice([0.2, 0.5, 0.5, 0.8])
    return np.array([[1.0 if rng.random() < p else 0.0 for _ in range(W)] for _ in range(H)])


def rand_pair(rng, H, W):
    f = rand_binary(rng, H, W)
    r = rng.random()
    if r < 0.08:
        o = f.copy()
    elif r < 0.12:
        o = np.zeros((H, W))
    elif r < 0.15:
        f = np.zeros((H, W))
        o = np.zeros((H, W))
    elif r < 0.18:
        o = np.ones((H, W))
    else:
        o = rand_binary(rng, H, W)
    return f, o


def rand_values(rng, H, W, nan_p, inf_p=0.0):
    def cell():
        if rng.random() < nan_p:
            return float("nan")
        if inf_p and rng.random() < inf_p:
            return rng.choice([float("inf"), float("-inf")])
        return rng.randint(-4, 4) / 2.0
    return np.array([[cell() for _ in range(W)] for _ in range(H)])


def known_reproduction(ctx, S):
    """deterministic reproduction of finding 6: 1x3 fields, 1x3 window, zero padding"""
    f = np.array([[0.0, 0.0, 1.0]])
    o = np.array([[1.0, 0.0, 0.0]])
    single_case(ctx, S, f, o, Fraction(1, 2), "gt", 1, 3, True, sample=True)
    f = np.array([[0.0, 1.0, 0.0], [0.0, 0.0, 0.0], [1.0, 0.0, 1.0]])
    o = np.array([[0.0, 0.0, 0.0], [0.0, 1.0, 0.0], [0.0, 0.0, 1.0]])
    single_case(ctx, S, f, o, Fraction(1, 2), "gt", 3, 3, True)


def exhaustive_single(ctx, S, bound, per):
    rng = ctx.rng
    complete = True
    for H, W in itertools.product(range(1, bound + 1), repeat=2):
        for wh in range(1, H + 1):
            for ww in range(1, W + 1):
                for pad in (False, True):
                    for k in range(per):
                        if not ctx.time_left():
                            return False
                        f, o = rand_pair(rng, H, W)
                        single_case(ctx, S, f, o, Fraction(1, 2), "gt", wh, ww, pad, sample=(H == 3 and W == 4 and wh == 2 and ww == 3 and k == 0))
                    ctx.count("geometry")
    return complete


def tiny_all_fields(ctx, S, cells):
    """every pair of binary fields on shapes with at most `cells` cells x every window x both paddings (a complete enumeration)"""
    for H, W in itertools.product(range(1, cells + 1), repeat=2):
        if H * W > cells:
            continue
        for wh in range(1, H + 1):
            for ww in range(1, W + 1):
                for pad in (False, True):
                    for fb in itertools.product((0.0, 1.0), repeat=H * W):
                        for ob in itertools.product((0.0, 1.0), repeat=H * W):
                            if not ctx.time_left():
                                return False
                            single_case(ctx, S, np.array(fb).reshape(H, W), np.array(ob).reshape(H, W), Fraction(1, 2), "gt", wh, ww, pad)
    return True


def thresholds_and_nan(ctx, S, n):
    rng = ctx.rng
    for i in range(n):
        if not ctx.time_left():
            return
        H, W = rng.randint(1, 5), rng.randint(1, 5)
        nan_p = rng.choice([0.0, 0.15, 0.3])
        # infinite cells are ordinary data: +inf exceeds every finite threshold, -inf none (only NaN is "no data", a non-event)
        inf_p = rng.choice([0.0, 0.0, 0.15])
        f, o = rand_values(rng, H, W, nan_p, inf_p), rand_values(rng, H, W, nan_p, inf_p)
        th = Fraction(rng.randint(-4, 4), 2)
        if rng.random() < 0.04:
            th = rng.choice([float("inf"), float("-inf")])       # an infinite threshold: `>= inf` holds for +inf cells only, ...
            ctx.count("threshold:infinite")
        op = rng.choice(OPS)
        dmode = rng.random()
        if dmode < 0.4:
            # integer-dtype forecast (obs integer or float on the finer grid k/4) with a fractional threshold: the comparison must be
            # made against the threshold as given, not against one converted to the data's dtype; unsigned storage is as good as
            # signed (the fields are only compared with the threshold and counted)
            nan_p = inf_p = 0.0
            dt = rng.choice([np.int64, np.int32, np.uint8, np.uint16])
            lo = 0 if dt in (np.uint8, np.uint16) else -3
            if lo == 0:
                ctx.count("dtype:uint")
            f = np.array([[rng.randint(lo, 3) for _ in range(W)] for _ in range(H)], dtype=dt)
            if dmode < 0.2:
                o = np.array([[rng.randint(-3, 3) for _ in range(W)] for _ in range(H)], dtype=np.int64)
                ctx.count("dtype:int/int")
            else:
                o = np.array([[rng.randint(-12, 12) / 4.0 for _ in range(W)] for _ in range(H)])
                if rng.random() < 0.5:
                    f, o = o, f
                ctx.count("dtype:int/float")
            th = Fraction(2 * rng.randint(-3, 2) + 1, 2) if rng.random() < 0.7 else Fraction(rng.randint(-10, 10), 4)
        wh, ww = rng.randint(1, H), rng.randint(1, W)
        pad = rng.random() < 0.5
        impl, sat, spec = single_case(ctx, S, f, o, th, op, wh, ww, pad, sample=(i == 0))
        ctx.count("op:" + op)
        if nan_p:
            ctx.count("with_nan")
        if inf_p and (np.isinf(np.asarray(f, dtype=float)).any() or np.isinf(np.asarray(o, dtype=float)).any()):
            ctx.count("with_inf")
        # NaN cells are non-events: replacing them by a value that is not an event changes nothing
        if impl[0] == "ok" and not isinstance(th, float) and (np.isnan(f).any() or np.isnan(o).any()):
            non_event = float(th) - 1 if op in ("gt", "ge") else float(th) + 1
            f2, o2 = np.where(np.isnan(f), non_event, f), np.where(np.isnan(o), non_event, o)
            impl2 = core.call_impl(S.spatial.fss_2d_single_field, f2, o2, event_threshold=float(th), window_size=(wh, ww), zero_padding=pad,
                                   threshold_operator=np_op(op))
            if impl2[0] != "ok" or not core.close(impl2[1], Fraction(float(impl[1]))):
                ctx.violation("NaN cell is not treated as a non-event", {"fcst": f.tolist(), "obs": o.tolist(), "event_threshold": th, "operator": op,
                                                                          "window_size": [wh, ww], "zero_padding": pad}, float(impl[1]), str(impl2[1]))
        # symmetry in forecast and observation
        if impl[0] == "ok":
            impl3 = core.call_impl(S.spatial.fss_2d_single_field, o, f, event_threshold=float(th), window_size=(wh, ww), zero_padding=pad,
                                   threshold_operator=np_op(op))
            if impl3[0] != "ok" or abs(float(impl3[1]) - float(impl[1])) > 1e-9:
                ctx.violation("FSS is not symmetric in forecast and observation", {"fcst": f.tolist(), "obs": o.tolist(), "event_threshold": th,
                                                                                    "operator": op, "window_size": [wh, ww], "zero_padding": pad},
                              float(impl[1]), str(impl3[1]))
            if not (0.0 <= float(impl[1]) <= 1.0):
                ctx.violation("FSS outside [0,1]", {"fcst": f.tolist(), "obs": o.tolist()}, "[0,1]", float(impl[1]))


MALFORMED_KINDS = ["shape", "wbig", "wzero", "wneg", "badop", "compute_method"]


def malformed_single(ctx, S, n):
    rng = ctx.rng
    for idx in range(n):
        H, W = rng.randint(1, 4), rng.randint(1, 4)
        f = rand_binary(rng, H, W)
        kind = MALFORMED_KINDS[idx % len(MALFORMED_KINDS)]           # every kind in every run
        o = rand_binary(rng, H, W)
        wh, ww = rng.randint(1, H), rng.randint(1, W)
        if kind == "compute_method":
            # a backend other than NUMPY ("currently only supports NUMPY"): the call raises -- or, should the backend exist one day,
            # returns the score of the definition; never some other number
            from scores.fast.fss.typing import FssComputeMethod
            cm = rng.choice([FssComputeMethod.NUMBA, FssComputeMethod.INVALID])
            pad = rng.random() < 0.5
            which = rng.choice(["fss_2d_single_field", "fss_2d", "fss_2d_binary"])
            if which == "fss_2d_single_field":
                impl = core.call_impl(S.spatial.fss_2d_single_field, f, o, event_threshold=0.5, window_size=(wh, ww), zero_padding=pad, compute_method=cm)
            else:
                da_f, da_o = xr.DataArray(f, dims=["x", "y"]), xr.DataArray(o, dims=["x", "y"])
                if which == "fss_2d":
                    impl = core.call_impl(S.spatial.fss_2d, da_f, da_o, event_threshold=0.5, window_size=(wh, ww), spatial_dims=("x", "y"),
                                          zero_padding=pad, compute_method=cm)
                else:
                    impl = core.call_impl(S.spatial.fss_2d_binary, da_f > 0.5, da_o > 0.5, window_size=(wh, ww), spatial_dims=("x", "y"),
                                          zero_padding=pad, compute_method=cm)
            desc = {"fn": which, "fcst": f.tolist(), "obs": o.tolist(), "window_size": [wh, ww], "zero_padding": pad, "compute_method": str(cm)}
            ctx.case(desc, False)
            if impl[0] == "ok":
                judge_scalar(ctx, which + " with a backend other than NUMPY", desc, ("ok", float(impl[1])),
                             py_fss(f, o, Fraction(1, 2), "gt", wh, ww, pad, True), py_fss(f, o, Fraction(1, 2), "gt", wh, ww, pad, False), pad, wh, ww)
            ctx.count("malformed:compute_method")
            continue
        if kind == "shape":
            o = rand_binary(rng, H + rng.choice([0, 1]), W + 1)
        elif kind == "wbig":
            if rng.random() < 0.5:
                wh = H + 1
            else:
                ww = W + rng.randint(1, 2)
        elif kind == "wzero":
            if rng.random() < 0.5:
                wh = 0
            else:
                ww = 0
        elif kind == "wneg":
            wh = -rng.randint(1, 2)
        elif no_model(ctx):
            continue
        else:
            # an operator outside utils.NumpyThresholdOperator.valid_ops
            pad = rng.random() < 0.5
            impl = core.call_impl(S.spatial.fss_2d_single_field, f, o, event_threshold=0.5, window_size=(wh, ww), zero_padding=pad,
                                  threshold_operator=rng.choice([np.equal, np.not_equal, max]))
            m = ctx.model("c16_single", enc_list([enc_rows(f), enc_rows(o), enc_num(Fraction(1, 2)), enc_str("eq"), str(wh), str(ww), enc_bool(pad)]))
            ctx.case(("badop", f.tolist(), o.tolist(), wh, ww, pad), False)
            if not (impl[0] == "err" and impl[1] == m[0] == m[1]):
                ctx.tie_fail("unsupported threshold operator", {"fcst": f.tolist(), "window_size": [wh, ww]}, str(impl[1])[:100], str(m))
            ctx.count("malformed:badop")
            continue
        single_case(ctx, S, f, o, Fraction(1, 2), "gt", wh, ww, rng.random() < 0.5)
        ctx.count("malformed:" + kind)


def shuffle_spatial(rng, da):
    for d in ("x", "y"):
        n = da.sizes[d]
        if n > 1 and rng.random() < 0.7:
            idx = list(range(n))[::-1] if rng.random() < 0.5 else rng.sample(range(n), n)
            da = da.isel({d: idx})
    return da


def spatial_order_differs(fcst, obs):
    return any(d in fcst.coords and d in obs.coords and fcst.sizes[d] == obs.sizes[d] and fcst[d].values.tolist() != obs[d].values.tolist()
               for d in ("x", "y") if d in fcst.dims and d in obs.dims)


def model_view(fcst, obs):
    """what the model is given: fss_2d pairs the cells of fcst and obs by coordinate label and runs the windows over the forecast's
    stored order of the spatial dims (window adjacency is positional), while core.enc_arr hands every dim over in sorted-label order.
    When both arrays carry the same set of spatial labels, obs is selected at the forecast's labels and both get the positional labels
    0..n-1; otherwise (a missing dim, different extents: error paths) the arrays are passed on unchanged."""
    for d in ("x", "y"):
        if d not in fcst.dims or d not in obs.dims or d not in fcst.coords or d not in obs.coords:
            return fcst, obs
        if sorted(fcst[d].values.tolist()) != sorted(obs[d].values.tolist()):
            return fcst, obs
    obs = obs.sel({d: fcst[d].values for d in ("x", "y")})
    pos = {d: np.arange(fcst.sizes[d]) for d in ("x", "y")}
    return fcst.assign_coords(pos), obs.assign_coords(pos)


def lone_vs_stacked(ctx, fn, what, desc, fcst, obs, impl, kw):
    """a lone 2-D field is scored exactly like the same field inside an array with a length-1 extra dimension (aggregation over one
    field is the field's own score); needs no model"""
    if not (fcst.ndim == 2 and obs.ndim == 2 and impl[0] == "ok" and impl[1].ndim == 0):
        return
    kw = {k: v for k, v in kw.items() if k not in ("reduce_dims", "preserve_dims")}
    who = ctx.rng.choice(["both", "both", "fcst", "obs"])
    f1 = fcst.expand_dims("time") if who in ("both", "fcst") else fcst
    o1 = obs.expand_dims("time") if who in ("both", "obs") else obs
    st = core.call_impl(fn, f1, o1, **kw)
    ctx.count("lone_2d:vs_length1_dim")
    if spatial_order_differs(fcst, obs):
        ctx.count("lone_2d:spatial_labels_in_another_order")
    if st[0] != "ok" or st[1].size != 1 or abs(float(st[1].squeeze()) - float(impl[1])) > 1e-12:
        ctx.violation(what + ": a lone 2-D field scores differently from the same field with a length-1 extra dimension",
                      dict(desc, length1_dim_on=who), str(st[1].values.tolist()) if st[0] == "ok" else st[1], float(impl[1]))


def gen_multi(ctx, binary=False):
    rng = ctx.rng
    H, W = rng.randint(1, 4), rng.randint(1, 4)
    extra = {d: rng.randint(1, 3) for d in rng.sample(["t", "m", "k"], rng.choice([0, 1, 1, 2, 2, 3]))}
    sizes = dict(extra, x=H, y=W)
    fd = [d for d in extra if rng.random() < 0.8]
    od = [d for d in extra if rng.random() < 0.7]
    vals = [0.0, 1.0] if binary else None

    def mk(dims):
        dims = list(dims) + ["x", "y"]
        rng.shuffle(dims)
        nan_p = 0.0 if binary else rng.choice([0.0, 0.0, 0.15])
        # extra dims: labels stored in an independently shuffled order per array (fss_2d aligns them by label);
        # spatial dims: ascending labels (window adjacency is positional)
        if binary:
            da = gens.rand_da(rng, sizes, dims=dims, shuffle=True, values=vals)
        else:
            da = gens.rand_da(rng, sizes, dims=dims, shuffle=True, den=2, bound=2, nan_p=nan_p)
        return da.sortby("x").sortby("y")
    fcst, obs = mk(fd), mk(od)
    if not binary and rng.random() < 0.25:
        # integer-dtype fields (thresholds are fractional in half of the cases); unsigned storage (amounts shifted to 0..4) in a third
        unsigned = rng.random() < 0.33
        if not bool(np.isnan(fcst.values).any()):
            fcst = (np.floor(fcst) + 2).astype(rng.choice([np.uint8, np.uint16])) if unsigned else np.floor(fcst).astype(np.int64)
        if rng.random() < 0.5 and not bool(np.isnan(obs.values).any()):
            obs = (np.floor(obs) + 2).astype(np.uint8) if unsigned else np.floor(obs).astype(np.int64)
    elif not binary and rng.random() < 0.15:
        # infinite cells are data like any other (+inf beyond every finite threshold, -inf below): only NaN is a non-event by nature
        for da in (fcst, obs):
            for _ in range(rng.randint(0, 2)):
                if da.size:
                    da.values.flat[rng.randrange(da.size)] = rng.choice([float("inf"), float("-inf")])
    if rng.random() < 0.1 and set(fcst.dims) == set(obs.dims):
        obs = fcst.transpose(*obs.dims).copy()
        for d in obs.dims:
            if d not in ("x", "y") and obs.sizes[d] > 1:
                obs = obs.isel({d: list(range(obs.sizes[d]))[::-1]})
    # spatial labels stored in another order in obs than in fcst (a grid stored north-to-south against one stored south-to-north, or any
    # permutation): cells are paired by label, the windows run over the forecast's stored order.  More often for lone 2-D fields.
    if rng.random() < (0.6 if fcst.ndim == 2 and obs.ndim == 2 else 0.3):
        obs = shuffle_spatial(rng, obs)
        if rng.random() < 0.4:
            fcst = shuffle_spatial(rng, fcst)
    wh, ww = rng.randint(1, H), rng.randint(1, W)
    pad = rng.random() < 0.5
    alld = sorted(set(fcst.dims) | set(obs.dims))
    rd, pd = gens.rand_dimspec(rng, alld, allow_bad=True)
    return fcst, obs, wh, ww, pad, rd, pd


def multi_cases(ctx, S, n):
    rng = ctx.rng
    for i in range(n):
        if not ctx.time_left():
            return
        fcst, obs, wh, ww, pad, rd, pd = gen_multi(ctx)
        th = Fraction(rng.randint(-2, 2), 2)
        op = rng.choice(OPS)
        sp = ("x", "y") if rng.random() < 0.7 else ("y", "x")
        wh, ww = rng.randint(1, fcst.sizes[sp[0]]), rng.randint(1, fcst.sizes[sp[1]])   # window follows the order of spatial_dims
        r = rng.random()
        if r < 0.04:
            sp = ("x", "zz")
        elif r < 0.07:
            wh = fcst.sizes[sp[0]] + 1 if sp[0] in fcst.sizes else wh
        elif r < 0.10 and obs.sizes["x"] > 1:
            obs = obs.isel(x=slice(0, obs.sizes["x"] - 1))      # spatial extents differ
            ctx.count("multi:spatial_extent_differs")
        spl = rand_spelling(rng, "fss_2d", op, pad, rd, pd)
        kw = dict(event_threshold=float(th), window_size=(wh, ww), spatial_dims=sp, **spelled_kwargs(spl, op, pad, rd, pd))
        count_spelling(ctx, spl)
        # window sizes follow the order of spatial_dims
        H, W = fcst.sizes.get(sp[0], 1), fcst.sizes.get(sp[1], 1)
        if wh > H or ww > W:
            ctx.count("multi:window_too_big")
        before = snapshot(fcst, obs)
        impl = core.call_impl(S.spatial.fss_2d, fcst, obs, **kw)
        inputs_unchanged(ctx, "fss_2d", {"fn": "fss_2d", "fcst": gens.da_repr(before[0]), "obs": gens.da_repr(before[1]), "window_size": [wh, ww],
                                         "zero_padding": pad}, (fcst, obs), before)
        fcst, obs = before
        mf, mo = model_view(fcst, obs)
        m = ctx.model("c16_fss2d", enc_list([enc_arr(mf), enc_arr(mo), enc_num(th), enc_str(op), str(wh), str(ww),
                                             enc_list([enc_str(s) for s in sp]), enc_bool(pad), enc_dimspec(rd), enc_dimspec(pd)]))
        if spatial_order_differs(fcst, obs):
            ctx.count("multi:spatial_labels_in_another_order")
        desc = {"fn": "fss_2d", "fcst": gens.da_repr(fcst), "obs": gens.da_repr(obs), "fcst_dtype": str(fcst.dtype), "obs_dtype": str(obs.dtype),
                "event_threshold": th, "operator": op, "window_size": [wh, ww],
                "spatial_dims": list(sp), "zero_padding": pad, "reduce_dims": rd, "preserve_dims": pd, "spelling": spl}
        ctx.case(desc, impl[0] == "ok")
        if i < 2:
            ctx.sample(desc)
        v = judge_array(ctx, "fss_2d", desc, impl, m[0], m[1], pad, wh, ww)
        ctx.count("multi:" + v)
        if impl[0] == "ok" and has_tie(fcst.values, obs.values, th):
            ctx.count("tie:multi:operator=" + spl["threshold_operator"])
        if fcst.dtype.kind == "u" or obs.dtype.kind == "u":
            ctx.count("multi:dtype:uint")
        if (fcst.dtype.kind == "f" and np.isinf(fcst.values).any()) or (obs.dtype.kind == "f" and np.isinf(obs.values).any()):
            ctx.count("multi:with_inf")
        lone_vs_stacked(ctx, S.spatial.fss_2d, "fss_2d", desc, fcst, obs, impl, kw)
        ctx.count("multi:extra_dims=%d" % (len(set(fcst.dims) | set(obs.dims)) - 2))
        if impl[0] == "ok":
            ctx.count("multi:out_ndim=%d" % impl[1].ndim)


def binary_cases(ctx, S, n):
    rng = ctx.rng
    for i in range(n):
        if not ctx.time_left():
            return
        fcst, obs, wh, ww, pad, rd, pd = gen_multi(ctx, binary=True)
        as_bool = rng.random() < 0.6
        check = True if as_bool else (rng.random() < 0.2)
        # non-boolean storage of a 0/1 field: float, or (a third) an unsigned / small signed integer type
        store = "bool" if as_bool else rng.choice(["float64", "float64", "uint8", "int8"])
        fb, ob = fcst.astype(store), obs.astype(store)
        spl = rand_spelling(rng, "fss_2d_binary", "gt", pad, rd, pd, check)
        kw = dict(window_size=(wh, ww), spatial_dims=("x", "y"), **spelled_kwargs(spl, "gt", pad, rd, pd, check))
        count_spelling(ctx, spl)
        ctx.count("binary:storage=" + store)
        before = snapshot(fb, ob)
        impl = core.call_impl(S.spatial.fss_2d_binary, fb, ob, **kw)
        inputs_unchanged(ctx, "fss_2d_binary", {"fn": "fss_2d_binary", "fcst": gens.da_repr(fcst), "obs": gens.da_repr(obs), "storage": store,
                                                "window_size": [wh, ww], "zero_padding": pad}, (fb, ob), before)
        fb, ob = before
        mf, mo = model_view(fcst, obs)
        m = None if no_model(ctx) else ctx.model("c16_binary", enc_list([enc_arr(mf), enc_arr(mo), enc_bool(as_bool), enc_bool(check), str(wh), str(ww),
                                                                       enc_list([enc_str("x"), enc_str("y")]), enc_bool(pad), enc_dimspec(rd), enc_dimspec(pd)]))
        desc = {"fn": "fss_2d_binary", "fcst": gens.da_repr(fcst), "obs": gens.da_repr(obs), "bool_dtype": as_bool, "storage": store,
                "check_boolean": check, "window_size": [wh, ww], "zero_padding": pad, "reduce_dims": rd, "preserve_dims": pd, "spelling": spl}
        ctx.case(desc, impl[0] == "ok")
        if check and not as_bool:
            # the boolean check is on (written out or by default): a field that is not of boolean type is refused, not scored
            ctx.count("binary:non_boolean_refused")
            if impl[0] == "ok":
                ctx.violation("fss_2d_binary scores a non-boolean field although check_boolean is on (check_boolean %s)"
                              % ("left out" if spl["check_boolean"] == "omitted" else "True"), desc, "FieldTypeError", gens.da_repr(impl[1]))
                continue
        if m is not None:
            v = judge_array(ctx, "fss_2d_binary", desc, impl, m[0], m[1], pad, wh, ww)
            ctx.count("binary:" + v)
        lone_vs_stacked(ctx, S.spatial.fss_2d_binary, "fss_2d_binary", desc, fb, ob, impl, kw)
        # the binary entry point agrees with thresholding the same 0/1 field at 0.5
        if impl[0] == "ok":
            kw2 = {k: v_ for k, v_ in kw.items() if k != "check_boolean"}
            impl2 = core.call_impl(S.spatial.fss_2d, fcst, obs, event_threshold=0.5, **kw2)
            ctx.count("binary:vs_thresholding")
            same = impl2[0] == "ok" and impl2[1].dims == impl[1].dims and np.allclose(np.asarray(impl2[1].values, dtype=float),
                                                                                        np.asarray(impl[1].values, dtype=float), atol=1e-9)
            if not same:
                ctx.violation("fss_2d_binary differs from fss_2d on the thresholded field", desc, gens.da_repr(impl2[1]) if impl2[0] == "ok" else impl2[1],
                              gens.da_repr(impl[1]))


def aggregation_cases(ctx, S, n):
    """aggregate over fields = FSS of the mean components, which is not the mean of per-field scores"""
    rng = ctx.rng
    differs = 0
    for i in range(n):
        if not ctx.time_left():
            return
        T, H, W = rng.randint(2, 4), rng.randint(2, 4), rng.randint(2, 4)
        f = xr.DataArray(np.array([rand_binary(rng, H, W) for _ in range(T)]), dims=["t", "x", "y"])
        o = xr.DataArray(np.array([rand_binary(rng, H, W) for _ in range(T)]), dims=["t", "x", "y"])
        if rng.random() < 0.4:
            (f if rng.random() < 0.5 else o).values[rng.randrange(T)] = 0.0      # one field without any event on one side
        wh, ww = rng.randint(1, H), rng.randint(1, W)
        pad = rng.random() < 0.3
        kw = dict(event_threshold=0.5, window_size=(wh, ww), spatial_dims=("x", "y"), zero_padding=pad)
        agg = core.call_impl(S.spatial.fss_2d, f, o, reduce_dims=["t"], **kw)
        from scores.fast.fss.fss_backends import get_compute_backend
        from scores.fast.fss.typing import FssComputeMethod
        from scores.utils import NumpyThresholdOperator
        comps = []
        for t in range(T):
            be = get_compute_backend(FssComputeMethod.NUMPY)(f.values[t], o.values[t], event_threshold=0.5, window_size=(wh, ww), zero_padding=pad,
                                                             threshold_operator=NumpyThresholdOperator(np.greater))
            c = be.compute_fss_decomposed()
            comps.append([Fraction(float(c[k])) for k in range(3)])
        if no_model(ctx):
            # independent of the backend: the three sums of every field by direct counting, added up over the fields
            def py_agg(code):
                tot = [sum(x) for x in zip(*[py_sums(f.values[t], o.values[t], Fraction(1, 2), "gt", wh, ww, pad, code) for t in range(T)])]
                return Fraction(0) if tot[0] + tot[1] == 0 else 1 - Fraction(tot[2], tot[0] + tot[1])
            m = py_agg(False)
            if in_finding(pad, wh, ww) and agg[0] == "ok" and not core.close(float(agg[1]), m) and core.close(float(agg[1]), py_agg(True)):
                ctx.violation("multi-field FSS differs from the sliding-window definition (zero padding, odd window)", {"fn": "fss_2d(reduce t)"}, m,
                              float(agg[1]), finding_key=FINDING)
                continue
        else:
            m = core.dec_num(ctx.model("c16_aggregate", enc_list([enc_list([enc_list([enc_num(x) for x in c]) for c in comps])])))
        desc = {"fn": "fss_2d(reduce t)", "fcst": f.values.tolist(), "obs": o.values.tolist(), "window_size": [wh, ww], "zero_padding": pad}
        ctx.case(desc)
        ctx.count("aggregate:by_components")
        if agg[0] != "ok" or not core.close(float(agg[1]), m):
            ctx.violation("multi-field FSS is not formed from the means of the three component sums", desc, m, str(agg[1]))
        per = core.call_impl(S.spatial.fss_2d, f, o, preserve_dims=["t"], **kw)
        if per[0] == "ok" and agg[0] == "ok" and abs(float(per[1].mean()) - float(agg[1])) > 1e-6:
            differs += 1
    ctx.count("aggregate:differs_from_mean_of_scores", differs)


def multi_relations(ctx, S, n):
    """fss_2d with every extra dimension preserved equals fss_2d_single_field on each label-aligned 2-D slice (needs no model)"""
    rng = ctx.rng
    for _ in range(n):
        if not ctx.time_left():
            return
        fcst, obs, wh, ww, pad, rd, pd = gen_multi(ctx)
        th, op = Fraction(rng.randint(-2, 2), 2), rng.choice(OPS)
        # cells are paired by label; along the spatial dims the forecast's stored order is the order the windows run over
        fa, oa = xr.broadcast(*xr.align(fcst, obs.sel(x=fcst["x"].values, y=fcst["y"].values), join="inner"))
        extra = [d for d in fa.dims if d not in ("x", "y")]
        fa, oa = fa.transpose(*extra, "x", "y"), oa.transpose(*extra, "x", "y")
        kw = dict(event_threshold=float(th), window_size=(wh, ww), zero_padding=pad, threshold_operator=np_op(op))
        spl = rand_spelling(rng, "fss_2d", op, pad, None, extra)
        kw2 = dict(event_threshold=float(th), window_size=(wh, ww), spatial_dims=("x", "y"), **spelled_kwargs(spl, op, pad, None, extra))
        count_spelling(ctx, spl)
        impl = core.call_impl(S.spatial.fss_2d, fcst, obs, **kw2)
        desc = {"fn": "fss_2d", "fcst": gens.da_repr(fcst), "obs": gens.da_repr(obs), "fcst_dtype": str(fcst.dtype), "obs_dtype": str(obs.dtype),
                "event_threshold": th, "operator": op, "window_size": [wh, ww], "spatial_dims": ["x", "y"], "zero_padding": pad,
                "reduce_dims": None, "preserve_dims": extra, "spelling": spl}
        ctx.case(desc, impl[0] == "ok")
        if impl[0] != "ok":
            ctx.violation("fss_2d raises on a valid input", desc, "values", impl[1])
            continue
        lone_vs_stacked(ctx, S.spatial.fss_2d, "fss_2d", desc, fcst, obs, impl, kw2)
        res = impl[1].transpose(*extra)
        for idx in itertools.product(*[range(fa.sizes[d]) for d in extra]):
            sel = dict(zip(extra, idx))
            one = core.call_impl(S.spatial.fss_2d_single_field, fa.isel(sel).values, oa.isel(sel).values, **kw)
            lab = {d: fa[d].values[i] for d, i in sel.items()}
            got = float(res.sel(lab)) if extra else float(res)
            if one[0] != "ok" or abs(float(one[1]) - got) > 1e-9:
                ctx.violation("fss_2d with all extra dims preserved differs from fss_2d_single_field on the slice", dict(desc, slice=str(lab)),
                              str(one[1]), got)
        ctx.count("multi:per_slice_relation")


# ------------------------------------------------------------------------------------------
# every optional argument left out and written out (round 4)
# ------------------------------------------------------------------------------------------
REQUESTS = [("omitted", {}, False), ("reduce_dims=None", {"reduce_dims": None}, False), ("preserve_dims=None", {"preserve_dims": None}, False),
            ("reduce_dims=['t']", {"reduce_dims": ["t"]}, False), ("reduce_dims='t'", {"reduce_dims": "t"}, False),
            ("reduce_dims='all'", {"reduce_dims": "all"}, False), ("preserve_dims=['t']", {"preserve_dims": ["t"]}, True),
            ("preserve_dims='t'", {"preserve_dims": "t"}, True), ("preserve_dims='all'", {"preserve_dims": "all"}, True)]
OPERATOR_SPELLINGS = ["omitted", "None", "explicit"]
PADDING_SPELLINGS = ["omitted", "False", "True"]


def stack_expected(fs, os_, th, op, wh, ww, pad):
    """exact scores of T stacked field pairs by direct window counting: ((aggregate, per field) with the window positions the recorded
    finding uses, (aggregate, per field) by the definition)"""
    out = []
    for code in (True, False):
        sums = [py_sums(f, o, th, op, wh, ww, pad, code) for f, o in zip(fs, os_)]
        tot = tuple(sum(x) for x in zip(*sums))
        out.append((fss_of_sums(tot), [fss_of_sums(t) for t in sums]))
    return out


def tie_stack(rng, T):
    """T stacked pairs of fields of whole-number amounts 0..3 and a threshold that is one of the amounts: fcst and obs both have cells
    exactly equal to the threshold, and counting those cells as events (`>=`) would change the aggregate and every per-field score in
    both padding modes -- so a call that means anything but `>` by a left-out operator cannot agree with the definition"""
    while True:
        H, W = rng.randint(2, 4), rng.randint(2, 4)
        wh, ww = rng.randint(1, H), rng.randint(1, W)
        th = Fraction(rng.choice([0, 1, 1, 2]))
        fs = [np.array([[float(rng.randint(0, 3)) for _ in range(W)] for _ in range(H)]) for _ in range(T)]
        os_ = [np.array([[float(rng.randint(0, 3)) for _ in range(W)] for _ in range(H)]) for _ in range(T)]
        if not all((f == float(th)).any() and (o == float(th)).any() for f, o in zip(fs, os_)):
            continue
        ok = True
        for pad in (False, True):
            gt, ge = stack_expected(fs, os_, th, "gt", wh, ww, pad), stack_expected(fs, os_, th, "ge", wh, ww, pad)
            for code in (0, 1):
                ok = ok and gt[code][0] != ge[code][0] and all(a != b for a, b in zip(gt[code][1], ge[code][1]))
        if ok and (H, W) != (wh, ww):
            return H, W, wh, ww, th, fs, os_


def judge_stack(ctx, what, desc, impl, preserved, exp, pad, wh, ww):
    """impl: call_impl result of an xarray entry point on the stacked fields; exp = stack_expected(...)"""
    (asat, psat), (aspec, pspec) = exp
    if impl[0] != "ok":
        ctx.violation(what + " raises on a valid input", desc, str(pspec if preserved else aspec), str(impl[1])[:200])
        return
    res = impl[1]
    want_dims = ("t",) if preserved else ()
    if tuple(res.dims) != want_dims:
        ctx.violation(what + ": dimensions of the result", desc, list(want_dims), list(res.dims))
        return
    vals = [float(v) for v in np.atleast_1d(res.values)]
    sats, specs = (psat, pspec) if preserved else ([asat], [aspec])
    for k, (v, sa, spc) in enumerate(zip(vals, sats, specs)):
        judge_scalar(ctx, what, dict(desc, field=k) if preserved else desc, ("ok", v), sa, spc, pad, wh, ww)


def written_call(ctx, S, c, exp=None):
    """one call of fss_2d / fss_2d_binary on stacked fields (dims t, x, y) with its optional arguments written as c["written"] says,
    judged against direct window counting of `value > event_threshold` events (exp: the cached stack_expected per padding mode)"""
    from scores.fast.fss.typing import FssComputeMethod
    wr = c["written"]
    th = parse_th(c["event_threshold"])
    da_f, da_o = gens.da_from_repr(c["fcst"]), gens.da_from_repr(c["obs"])
    sdims, win = tuple(c["spatial_dims"]), tuple(int(w) for w in c["window_size"])
    wh, ww = win if sdims == ("x", "y") else win[::-1]
    pad = {"omitted": False, "False": False, "True": True}[wr["zero_padding"]]
    rname, rkw, preserved = [r for r in REQUESTS if r[0] == wr["request"]][0]
    if exp is None:
        fs, os_ = da_f.transpose("t", "x", "y").values, da_o.transpose("t", "x", "y").values
        exp = {pad: stack_expected(list(fs), list(os_), th, "gt", wh, ww, pad)}
    kw = dict(window_size=win, spatial_dims=sdims, **rkw)
    if wr["zero_padding"] != "omitted":
        kw["zero_padding"] = pad
    if wr["compute_method"] != "omitted":
        kw["compute_method"] = FssComputeMethod.NUMPY
    if wr["dask"] != "omitted":
        kw["dask"] = wr["dask"]
    if c["fn"] == "fss_2d":
        if wr["threshold_operator"] != "omitted":
            kw["threshold_operator"] = None if wr["threshold_operator"] == "None" else np.greater
        impl = core.call_impl(S.spatial.fss_2d, da_f, da_o, event_threshold=float(th), **kw)
    else:
        if wr["check_boolean"] != "omitted":
            kw["check_boolean"] = wr["check_boolean"] == "True"
        dt = {"bool": bool, "float 0/1": float, "uint8 0/1": np.uint8}[c["storage"]]
        impl = core.call_impl(S.spatial.fss_2d_binary, (da_f > float(th)).astype(dt), (da_o > float(th)).astype(dt), **kw)
    ctx.case(c, True)
    judge_stack(ctx, c["fn"] + " (optional arguments as written)", c, impl, preserved, exp[pad], pad, wh, ww)
    ctx.count("options:" + c["fn"])
    for k, v in wr.items():
        if k != "request":
            ctx.count("options:%s=%s" % (k, v))
    ctx.count("options:request:" + rname)


def option_matrix(ctx, S, n2d, nbin):
    """deterministic part of the optional-argument coverage: on stacked fields with ties at the threshold the full product of
    (operator left out / None / np.greater) x (zero_padding left out / False / True) x (compute_method left out / NUMPY) x (dask left out /
    given) x (nine ways of writing the reduce / preserve request) x (spatial_dims in either order, window following it) for fss_2d,
    the corresponding product for fss_2d_binary (check_boolean left out / True / False; bool, 0/1 float and 0/1 uint8 storage), and
    operator x padding x compute_method for fss_2d_single_field on every field of the stack; all against direct window counting"""
    rng = ctx.rng
    for i in range(max(n2d, nbin)):
        if not ctx.time_left():
            return
        T = rng.choice([2, 2, 3])
        H, W, wh, ww, th, fs, os_ = tie_stack(rng, T)
        coords = {"t": list(range(T)), "x": list(range(H)), "y": list(range(W))}
        da_f = xr.DataArray(np.stack(fs), dims=["t", "x", "y"], coords=coords)
        da_o = xr.DataArray(np.stack(os_), dims=["t", "x", "y"], coords=coords)
        if rng.random() < 0.5:
            da_o = da_o.transpose("y", "t", "x")                    # stored dimension order is irrelevant
        exp = {pad: stack_expected(fs, os_, th, "gt", wh, ww, pad) for pad in (False, True)}
        base = {"fcst": gens.da_repr(da_f), "obs": gens.da_repr(da_o), "event_threshold": th, "operator": "gt",
                "note": "optional-argument matrix: every fcst and obs field has cells equal to the threshold; fss_2d_binary is given "
                        "fcst > event_threshold, obs > event_threshold in the named storage"}
        dask_given = rng.choice(["forbidden", "allowed", "parallelized"])
        orders = [(("x", "y"), (wh, ww)), (("y", "x"), (ww, wh))]
        if i < n2d:
            for (ops, pads, cm, dk, req, (sdims, win)) in itertools.product(
                    OPERATOR_SPELLINGS, PADDING_SPELLINGS, ("omitted", "explicit"), ("omitted", dask_given), REQUESTS, orders):
                written_call(ctx, S, dict(base, fn="fss_2d", window_size=list(win), spatial_dims=list(sdims), written={
                    "threshold_operator": ops, "zero_padding": pads, "compute_method": cm, "dask": dk, "request": req[0]}), exp)
            # single fields: operator x padding x compute_method on every field of the stack
            for k in range(T):
                for ops, pads, cm in itertools.product(OPERATOR_SPELLINGS, PADDING_SPELLINGS, ("omitted", "explicit")):
                    spl = {"threshold_operator": ops, "zero_padding": "omitted" if pads == "omitted" else "explicit", "compute_method": cm}
                    single_case(ctx, S, fs[k], os_[k], th, "gt", wh, ww, pads == "True", spelling=spl)
                    ctx.count("options:fss_2d_single_field")
        if i < nbin:
            for storage, checks in (("bool", ("omitted", "True", "False")), ("float 0/1", ("False",)), ("uint8 0/1", ("False",))):
                for (chk, pads, cm, dk, req, (sdims, win)) in itertools.product(
                        checks, PADDING_SPELLINGS, ("omitted", "explicit"), ("omitted", dask_given), REQUESTS, orders):
                    written_call(ctx, S, dict(base, fn="fss_2d_binary", storage=storage, window_size=list(win), spatial_dims=list(sdims), written={
                        "check_boolean": chk, "zero_padding": pads, "compute_method": cm, "dask": dk, "request": req[0]}), exp)
        ctx.count("options:tie_changes_every_score")


# ------------------------------------------------------------------------------------------
# large neighbourhoods: medium .. large fields with widespread events (window counts up to ~9e4, squared counts beyond 2^31)
# ------------------------------------------------------------------------------------------
SIZE_CLASSES = {"medium": (12, 40), "mid": (64, 128), "large": (240, 300)}
DENSE_KINDS = ["strips", "strips", "dense", "dense", "full", "identical", "blob", "sparse"]


def dense_masks(nrng, H, W, kind):
    def strips(m):
        for _ in range(int(nrng.integers(1, 3))):
            k = int(nrng.integers(1, min(H, W) // 16 + 2))
            side = int(nrng.integers(0, 4))
            if side == 0:
                m[:k, :] = False
            elif side == 1:
                m[-k:, :] = False
            elif side == 2:
                m[:, :k] = False
            else:
                m[:, -k:] = False
        return m

    def blob():
        m = np.zeros((H, W), dtype=bool)
        r0, r1 = int(nrng.integers(0, H // 8 + 1)), H - int(nrng.integers(0, H // 8 + 1))
        c0, c1 = int(nrng.integers(0, W // 8 + 1)), W - int(nrng.integers(0, W // 8 + 1))
        m[r0:r1, c0:c1] = True
        return m
    if kind == "strips":
        return strips(np.ones((H, W), dtype=bool)), strips(np.ones((H, W), dtype=bool))
    if kind == "dense":
        p = float(nrng.choice([0.8, 0.9, 0.97]))
        return nrng.random((H, W)) < p, nrng.random((H, W)) < p
    if kind == "full":
        return np.ones((H, W), dtype=bool), nrng.random((H, W)) < 0.9
    if kind == "identical":
        f = strips(nrng.random((H, W)) < 0.95)
        return f, f.copy()
    if kind == "blob":
        return blob(), blob()
    return nrng.random((H, W)) < 0.03, nrng.random((H, W)) < 0.03          # sparse: a control


def make_dense_pair(gen, k=0):
    """the k-th field pair of a generated case, rebuilt from its parameters alone (this is what a replay file stores): values on the
    half-integer grid around the threshold (ties `value == threshold` included, an event only for >= / <=), a few NaN cells in float
    fields, or integer storage with a threshold k+1/2"""
    nrng = np.random.default_rng([int(gen["np_seed"]), k])
    H, W, op, th = int(gen["H"]), int(gen["W"]), gen["op"], Fraction(gen["th"])
    mf, mo = dense_masks(nrng, H, W, gen["kind"] if k == 0 else "dense")
    sgn = 1.0 if op in ("gt", "ge") else -1.0
    incl = op in ("ge", "le")
    out = []
    for m, dt in ((mf, gen["dtypes"][0]), (mo, gen["dtypes"][1])):
        if "int" in dt:
            # threshold k+1/2: integers on either side
            v = np.where(m, float(th) + sgn * (nrng.integers(0, 3, size=m.shape) + 0.5), float(th) - sgn * (nrng.integers(0, 3, size=m.shape) + 0.5))
            out.append(v.astype(dt))
        else:
            v = np.where(m, float(th) + sgn * nrng.integers(0 if incl else 1, 4, size=m.shape) / 2.0,
                         float(th) - sgn * nrng.integers(1 if incl else 0, 4, size=m.shape) / 2.0)
            if gen.get("nan"):
                v = np.where(nrng.random(m.shape) < 0.01, np.nan, v)
            out.append(v)
    if gen["kind"] == "identical" and k == 0:
        out[1] = out[0].copy()
    return out[0], out[1]


def rand_dense_gen(rng, size_class, kind=None, pad=None, wide=False):
    lo, hi = SIZE_CLASSES[size_class]
    H, W = rng.randint(lo, hi), rng.randint(lo, hi)

    def win(n):
        # mostly windows covering most of the field (that is where the counts get large), sometimes the full field or any window
        r = rng.random()
        if wide or r < 0.7:
            return rng.randint(n - n // 10, n)
        if r < 0.85:
            return n
        return rng.randint(1, n)
    ints = rng.random() < 0.25
    dts = [rng.choice(["int64", "int32"]) if (ints and rng.random() < 0.7) else "float64" for _ in range(2)]
    ints = any("int" in d for d in dts)
    return {"np_seed": rng.getrandbits(48), "size_class": size_class, "H": H, "W": W, "kind": kind or rng.choice(DENSE_KINDS),
            "op": rng.choice(OPS), "th": str(Fraction(2 * rng.randint(-2, 2) + 1, 2) if ints else Fraction(rng.randint(-4, 4), 2)),
            "dtypes": dts, "nan": (not ints) and rng.random() < 0.3, "wh": win(H), "ww": win(W),
            "pad": (rng.random() < 0.5) if pad is None else pad, "fields": rng.choice([0, 1, 1, 2])}


def dense_case(ctx, S, gen, sample=False):
    """one generated large-neighbourhood case: the single-field entry against the sliding-window definition, symmetry, identical fields
    score exactly 1, and the same fields through fss_2d / fss_2d_binary (lone 2-D field or two stacked fields, aggregated)"""
    f, o = make_dense_pair(gen)
    H, W, op, th, wh, ww, pad = int(gen["H"]), int(gen["W"]), gen["op"], Fraction(gen["th"]), int(gen["wh"]), int(gen["ww"]), bool(gen["pad"])
    bf, bo = events_of(f, th, op), events_of(o, th, op)
    sums_code, sums_def = fast_sums(bf, bo, wh, ww, pad, True), fast_sums(bf, bo, wh, ww, pad, False)
    sat, spec = fss_of_sums(sums_code), fss_of_sums(sums_def)
    maxc = fast_sums(bf, bo, wh, ww, pad, False, want_max=True)
    # how the operator / padding are written follows from the generator seed (so that a replay repeats it): the default operator is
    # left out, None or np.greater; a False padding flag is left out half of the time
    k3 = int(gen["np_seed"]) % 3
    spl = {"threshold_operator": ["omitted", "None", "explicit"][k3] if op == "gt" else "explicit",
           "zero_padding": "omitted" if (not pad and (int(gen["np_seed"]) // 3) % 2) else "explicit"}
    kw = dict(event_threshold=float(th), window_size=(wh, ww), **spelled_kwargs(spl, op, pad))
    count_spelling(ctx, spl)
    desc = {"fn": "fss_2d_single_field", "generated": gen, "shape": [H, W], "events_fcst_obs": [int(bf.sum()), int(bo.sum())], "spelling": spl,
            "largest_window_count": maxc, "event_threshold": th, "operator": op, "window_size": [wh, ww], "zero_padding": pad,
            "note": "fields are rebuilt from `generated` by harness/props/c16.py::make_dense_pair"}
    impl = core.call_impl(S.spatial.fss_2d_single_field, f, o, **kw)
    ctx.case(desc, bool(bf.any() or bo.any()))
    if sample:
        ctx.sample(desc)
    verdict = judge_scalar(ctx, "fss_2d_single_field (large neighbourhood)", desc, impl, sat, spec, pad, wh, ww)
    ctx.count("dense:" + gen["size_class"] + ":" + verdict)
    ctx.count("dense:kind=" + gen["kind"])
    for lim, name in ((2 ** 7, "2^7"), (2 ** 15, "2^15"), (46340, "46340 (square > 2^31)")):
        if maxc > lim:
            ctx.count("dense:window_count>" + name)
    # the int64 counting oracle against the extracted (proved) model where the model is fast enough
    if not no_model(ctx) and (H * W <= 400 or (not pad and H * W <= (128 * 128 if ctx.tier == "thorough" else 4096))):
        ms, md = model_single(ctx, f, o, th, op, wh, ww, pad)
        ctx.count("dense:oracle_vs_model")
        if (ms, md) != (sat, spec):
            ctx.tie_fail("oracle: int64 prefix-sum counting differs from the extracted model", desc, [str(sat), str(spec)], [str(ms), str(md)])
    if impl[0] != "ok":
        return
    val = float(impl[1])
    if not 0.0 <= val <= 1.0:
        ctx.violation("FSS outside [0,1]", desc, "[0,1]", val)
    sw = core.call_impl(S.spatial.fss_2d_single_field, o, f, **kw)
    if sw[0] != "ok" or abs(float(sw[1]) - val) > 1e-12:
        ctx.violation("FSS is not symmetric in forecast and observation", desc, val, str(sw[1]))
    for name, a, b in (("fcst", f, bf), ("obs", o, bo)):
        same = core.call_impl(S.spatial.fss_2d_single_field, a, a.copy(), **kw)
        want = 1.0 if b.any() else 0.0
        if same[0] != "ok" or float(same[1]) != want:
            ctx.violation("identical event fields %s score exactly 1" % ("containing an event must" if want else "without any event must score 0, not"),
                          dict(desc, identical_pair_from=name), want, str(same[1]))
    T = int(gen.get("fields", 0))
    if not T:
        return
    # the same fields through the xarray entry points: a lone 2-D field (T == 1, sometimes with a length-1 dim) or T stacked fields
    pairs = [(f, o)] + [make_dense_pair(gen, k) for k in range(1, T)]
    tot_code, tot_def = list(sums_code), list(sums_def)
    for (f2, o2) in pairs[1:]:
        b1, b2 = events_of(f2, th, op), events_of(o2, th, op)
        tot_code = [x + y for x, y in zip(tot_code, fast_sums(b1, b2, wh, ww, pad, True))]
        tot_def = [x + y for x, y in zip(tot_def, fast_sums(b1, b2, wh, ww, pad, False))]
    asat, aspec = fss_of_sums(tuple(tot_code)), fss_of_sums(tuple(tot_def))
    lone = T == 1 and int(gen["np_seed"]) % 2 == 0
    if lone:
        da_f, da_o = xr.DataArray(f, dims=["y", "x"]), xr.DataArray(o, dims=["y", "x"])
    else:
        da_f = xr.DataArray(np.stack([p[0] for p in pairs]), dims=["t", "y", "x"])
        da_o = xr.DataArray(np.stack([p[1] for p in pairs]), dims=["t", "y", "x"])
    d2 = dict(desc, fn="fss_2d", stacked_fields=0 if lone else T, spatial_dims=["y", "x"], reduce_dims="all")
    agg = core.call_impl(S.spatial.fss_2d, da_f, da_o, spatial_dims=("y", "x"), reduce_dims="all", **kw)
    ctx.case(d2, True)
    judge_scalar(ctx, "fss_2d (large neighbourhood)", d2, (agg[0], float(agg[1]) if agg[0] == "ok" else agg[1]), asat, aspec, pad, wh, ww)
    d3 = dict(d2, fn="fss_2d_binary")
    with np.errstate(invalid="ignore"):
        ev_f, ev_o = np_op(op)(da_f, float(th)), np_op(op)(da_o, float(th))
    bin_ = core.call_impl(S.spatial.fss_2d_binary, ev_f, ev_o, window_size=(wh, ww), spatial_dims=("y", "x"), reduce_dims="all",
                          **{k: v for k, v in kw.items() if k == "zero_padding"})
    ctx.case(d3, True)
    judge_scalar(ctx, "fss_2d_binary (large neighbourhood)", d3, (bin_[0], float(bin_[1]) if bin_[0] == "ok" else bin_[1]), asat, aspec, pad, wh, ww)
    ctx.count("dense:xarray_fields=%d" % (0 if lone else T))


def oracle_selfcheck(ctx, n):
    """the int64 prefix-sum oracle against direct counting (py_sums) on small random fields, both paddings, both position rules"""
    rng = ctx.rng
    for _ in range(n):
        H, W = rng.randint(1, 7), rng.randint(1, 7)
        f, o = rand_binary(rng, H, W), rand_binary(rng, H, W)
        wh, ww, pad, code = rng.randint(1, H), rng.randint(1, W), rng.random() < 0.6, rng.random() < 0.5
        a, b = fast_sums(f, o, wh, ww, pad, code), py_sums(f, o, Fraction(1, 2), "gt", wh, ww, pad, code)
        ctx.count("dense:oracle_vs_direct_counting")
        if a != b:
            ctx.tie_fail("oracle: int64 prefix-sum counting differs from direct counting", {"fcst": f.tolist(), "obs": o.tolist(), "window_size": [wh, ww],
                                                                                         "zero_padding": pad, "code_positions": code}, str(a), str(b))


def large_fields(ctx, S, n_medium, n_mid, n_large):
    rng = ctx.rng
    oracle_selfcheck(ctx, 60)
    # two guaranteed large cases (one per padding mode) whose windows hold more than 46340 events, then random ones
    todo = [("large", dict(kind="strips", pad=False, wide=True)), ("large", dict(kind="strips", pad=True, wide=True))]
    todo += [("large", {})] * max(0, n_large - 2) + [("mid", {})] * n_mid + [("medium", {})] * n_medium
    for i, (cls, kw) in enumerate(todo):
        if not ctx.time_left():
            return
        dense_case(ctx, S, rand_dense_gen(rng, cls, **kw), sample=(i == 0))


def run_without_model(ctx):
    """the extracted model is unavailable: the same predicates with the sliding-window definition evaluated directly in exact Python
    rationals, plus the relations between the public entry points"""
    import scores as S
    import scores.spatial  # noqa: F401
    ctx.no_model = True
    thorough = ctx.tier == "thorough"
    known_reproduction(ctx, S)
    tiny_all_fields(ctx, S, 4 if thorough else 3)
    exhaustive_single(ctx, S, 5 if thorough else 4, ctx.n(2, 10))
    option_matrix(ctx, S, ctx.n(2, 10), ctx.n(1, 5))
    thresholds_and_nan(ctx, S, ctx.n(400, 4000))
    malformed_single(ctx, S, ctx.n(30, 200))
    large_fields(ctx, S, ctx.n(24, 300), ctx.n(4, 30), ctx.n(8, 40))
    multi_relations(ctx, S, ctx.n(150, 2000))
    binary_cases(ctx, S, ctx.n(100, 1500))
    aggregation_cases(ctx, S, ctx.n(60, 600))


def replay(ctx, rec):
    import scores as S
    import scores.spatial  # noqa: F401
    v = rec.get("violation") or {}
    c = v.get("case") or {}
    fn = c.get("fn")
    if "generated" in c:
        dense_case(ctx, S, c["generated"])
        return
    if "written" in c:
        written_call(ctx, S, c)
        return
    if fn == "fss_2d_single_field" and "operator" in c:
        f = np.array([[float(x) for x in r] for r in c["fcst"]], dtype=float).astype(c.get("fcst_dtype", "float64"))
        o = np.array([[float(x) for x in r] for r in c["obs"]], dtype=float).astype(c.get("obs_dtype", "float64"))
        wh, ww = c["window_size"]
        # files written before round 4 do not say how the operator was written: try it both ways
        for spl in ([c["spelling"]] if "spelling" in c else [OLD_SPELLING] + ([{"zero_padding": "explicit", "threshold_operator": "omitted"}]
                                                                                 if c["operator"] == "gt" else [])):
            single_case(ctx, S, f, o, parse_th(c["event_threshold"]), c["operator"], int(wh), int(ww), bool(c["zero_padding"]), spelling=spl)
        return
    if fn in ("fss_2d", "fss_2d_binary"):
        fcst, obs = gens.da_from_repr(c["fcst"]), gens.da_from_repr(c["obs"])
        if "int" in c.get("fcst_dtype", ""):
            fcst = fcst.astype(c["fcst_dtype"])
        if "int" in c.get("obs_dtype", ""):
            obs = obs.astype(c["obs_dtype"])
        mf, mo = model_view(fcst, obs)
        wh, ww = c["window_size"]
        pad, rd, pd = bool(c["zero_padding"]), c.get("reduce_dims"), c.get("preserve_dims")
        spl = c.get("spelling", OLD_SPELLING)
        if fn == "fss_2d":
            sp = tuple(c["spatial_dims"])
            th, op = parse_th(c["event_threshold"]), c["operator"]
            kw = dict(window_size=(wh, ww), event_threshold=float(th), spatial_dims=sp, **spelled_kwargs(spl, op, pad, rd, pd))
            impl = core.call_impl(S.spatial.fss_2d, fcst, obs, **kw)
            lone_vs_stacked(ctx, S.spatial.fss_2d, "fss_2d", c, fcst, obs, impl, kw)
            m = ctx.model("c16_fss2d", enc_list([enc_arr(mf), enc_arr(mo), enc_num(th), enc_str(op), str(wh), str(ww),
                                                 enc_list([enc_str(s) for s in sp]), enc_bool(pad), enc_dimspec(rd), enc_dimspec(pd)]))
        else:
            as_bool, check = bool(c["bool_dtype"]), bool(c["check_boolean"])
            store = c.get("storage", "bool" if as_bool else "float64")
            fb, ob = fcst.astype(store), obs.astype(store)
            kw = dict(window_size=(wh, ww), spatial_dims=("x", "y"), **spelled_kwargs(dict(spl, check_boolean=spl.get("check_boolean", "explicit")),
                                                                                     "gt", pad, rd, pd, check))
            kw.pop("threshold_operator", None)
            impl = core.call_impl(S.spatial.fss_2d_binary, fb, ob, **kw)
            lone_vs_stacked(ctx, S.spatial.fss_2d_binary, "fss_2d_binary", c, fb, ob, impl, kw)
            if check and not as_bool and impl[0] == "ok":
                ctx.violation("fss_2d_binary scores a non-boolean field although check_boolean is on", c, "FieldTypeError", gens.da_repr(impl[1]))
                return
            m = ctx.model("c16_binary", enc_list([enc_arr(mf), enc_arr(mo), enc_bool(as_bool), enc_bool(check), str(wh), str(ww),
                                                  enc_list([enc_str("x"), enc_str("y")]), enc_bool(pad), enc_dimspec(rd), enc_dimspec(pd)]))
        ctx.case(c, impl[0] == "ok")
        judge_array(ctx, fn, c, impl, m[0], m[1], pad, wh, ww)
        return
    run(ctx)


def run(ctx):
    import scores as S
    import scores.spatial  # noqa: F401
    thorough = ctx.tier == "thorough"
    known_reproduction(ctx, S)
    cells = 5 if thorough else 3
    done_tiny = tiny_all_fields(ctx, S, cells)
    done = exhaustive_single(ctx, S, 5 if thorough else 4, ctx.n(3, 30))
    ctx.exhaustive = bool(done and done_tiny)
    ctx.note("geometry space (shape x window x padding) enumerated completely up to %s; binary field pairs enumerated completely up to %d cells, "
             "sampled above" % ("5x5" if thorough else "4x4", cells))
    option_matrix(ctx, S, ctx.n(2, 10), ctx.n(1, 5))
    thresholds_and_nan(ctx, S, ctx.n(400, 8000))
    malformed_single(ctx, S, ctx.n(40, 400))
    large_fields(ctx, S, ctx.n(24, 300), ctx.n(4, 30), ctx.n(8, 40))
    multi_cases(ctx, S, ctx.n(400, 10000))
    binary_cases(ctx, S, ctx.n(150, 3000))
    aggregation_cases(ctx, S, ctx.n(60, 1000))
