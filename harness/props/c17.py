"""C17 -- CDF repair tools bracket the input minimally; CRPS adjustment never flatters."""
import itertools
from fractions import Fraction

import numpy as np
import xarray as xr

import core
import gens
from core import enc_bool, enc_list, enc_num, enc_nums, enc_str

ID = "C17"
LEVEL = "proof"
LEVEL_TEXT = ("Coq theorems for every line of CDF values (any length, NaN allowed): the envelopes are non-decreasing, bracket the original, are the least "
              "non-decreasing majorant / greatest non-decreasing minorant and coincide with a non-decreasing input; fill_cdf keeps every given ordinate, "
              "stays in [0,1], blanks a line with too few points and fills as each method prescribes; decreasing_cdfs flags a line exactly when its total "
              "decrease exceeds the tolerance; adjust_fcst_for_crps keeps a line that is fine, otherwise returns the first CRPS-maximal of original/upper/"
              "lower, hence never lowers the CRPS.  The executable model is tied to the code by a correspondence check on every run.")
LEVEL_NOTE = ("trusted: hand model of the numpy/xarray primitives (fmax.accumulate, flip, interpolate_na, ffill/bfill, idxmax, combine_first) validated by "
              "correspondence; extraction; harness; binary64 rounding not modelled (the code's 'to rounding' caveat is covered by the comparison tolerance)")
TECHNIQUE = "Coq proof over an extracted executable model + correspondence check"
SITES = ["C07.piece", "C07.bscore"]
RULE = ("lines of 1-7 ordinates k/8 on increasing half-integer thresholds: non-decreasing, with plateaus, with one or several decreasing runs, with NaN "
        "(scattered or whole line), 0-2 extra dimensions stored in shuffled order with the threshold dimension anywhere; new thresholds inside/outside/"
        "duplicating the grid; 4 fill methods x min_nonnan 0-4; tolerances 0, k/8 and exactly the total decrease; observations on/between/outside "
        "thresholds or NaN; a case is distinct by the hash of function + inputs and non-trivial when the function returns a value")
ASSUMPTIONS = ["thresholds and observations are finite or NaN", "round_values is checked for dyadic precisions whose multiples have at most 7 decimals"]
TRUSTED = ["hand model of np.fmax.accumulate / np.flip / interpolate_na / ffill / bfill / idxmax / combine_first in coq/model/Cdf.v (validated by correspondence)"]

TD = "thr"
NAN = float("nan")
FILLS = ["linear", "step", "forward", "backward"]


def C():
    import scores.processing.cdf as c
    return c


def contiguous(da):
    return xr.DataArray(np.array(da.values, order="C", copy=True), dims=da.dims, coords=da.coords)


def gen_line(rng, n, kind=None, lo=0, hi=8):
    kind = kind or rng.choice(["mono", "mono", "plateau", "dec1", "decmany", "random"])
    ks = [rng.randint(lo, hi) for _ in range(n)]
    if kind in ("mono", "plateau", "dec1", "decmany"):
        ks.sort()
    if kind == "plateau" and n >= 2:
        i = rng.randrange(n - 1)
        ks[i + 1] = ks[i]
    if kind == "dec1" and n >= 2:
        i = rng.randrange(n - 1)
        ks[i], ks[i + 1] = ks[i + 1], ks[i]
    if kind == "decmany":
        for _ in range(rng.randint(1, 3)):
            i, j = rng.randrange(n), rng.randrange(n)
            ks[i], ks[j] = ks[j], ks[i]
    return [k / 8.0 for k in ks]


def gen_array(rng, nan_mode=None, nmin=1, nmax=7, extra=None, lo=0, hi=8):
    n = rng.randint(nmin, nmax)
    ths = sorted(rng.sample(range(0, 21), n))
    names = ["a", "b", "c"]
    rng.shuffle(names)
    sizes = {d: rng.randint(1, 3) for d in names[:rng.choice([0, 1, 1, 2]) if extra is None else extra]}
    dims = list(sizes)
    nan_mode = nan_mode if nan_mode is not None else rng.choice(["none", "none", "scatter", "line"])
    ncase = int(np.prod([sizes[d] for d in dims])) if dims else 1
    lines = []
    for _ in range(ncase):
        ln = gen_line(rng, n, lo=lo, hi=hi)
        if nan_mode == "scatter":
            ln = [NAN if rng.random() < 0.3 else v for v in ln]
        elif nan_mode == "line" and rng.random() < 0.4:
            ln = [NAN] * n
        lines.append(ln)
    coords = {}
    for d in dims:
        lab = list(range(sizes[d]))
        rng.shuffle(lab)
        coords[d] = lab
    vals = np.array(lines, dtype=float).reshape([sizes[d] for d in dims] + [n])
    da = xr.DataArray(vals, dims=dims + [TD], coords={**coords, TD: [t / 2.0 for t in ths]})
    order = dims + [TD]
    rng.shuffle(order)
    return contiguous(da.transpose(*order)), sizes, ths


def labels(sizes):
    dims = sorted(sizes)
    return dims, list(itertools.product(*[range(sizes[d]) for d in dims]))


def lines_of(da, sizes, td=TD):
    dims, labs = labels(sizes)
    out = []
    for lb in labs:
        sel = {d: l for d, l in zip(dims, lb) if d in da.dims}
        x = (da.sel(sel) if sel else da)
        if td in x.dims:
            x = x.sortby(td)
        out.append([float(v) for v in np.asarray(x.values, dtype=float).ravel()])
    return dims, labs, out


def enc_lines(lines):
    return enc_list([enc_nums(l) for l in lines])


def cmp_lines(impl_da, sizes, model_lines, td=TD):
    """implementation array vs model lines (list of list of atoms); -> None or (label, impl line, model line)"""
    dims, labs, got = lines_of(impl_da, sizes, td)
    for lb, g, m in zip(labs, got, model_lines):
        q = core.dec_nums(m)
        if not core.close_list(g, q):
            return dict(zip(dims, lb)), g, [str(x) for x in q]
    return None


# ------------------------------------------------------------------------------------------
def check_envelope(ctx):
    rng = ctx.rng
    da, sizes, ths = gen_array(rng, lo=-2 if rng.random() < 0.2 else 0, hi=10 if rng.random() < 0.2 else 8)
    if rng.random() < 0.3:      # coordinates stored in non-increasing order: the function sorts
        da = contiguous(da.isel({TD: list(rng.sample(range(da.sizes[TD]), da.sizes[TD]))}))
    desc = {"fn": "cdf_envelope", "cdf": gens.da_repr(da)}
    impl = core.call_impl(C().cdf_envelope, da, TD)
    dims, labs, lines = lines_of(da, sizes)
    m = ctx.model("c17_envelope", enc_lines(lines))
    ctx.case(desc)
    ctx.count("envelope")
    if impl[0] != "ok":
        ctx.tie_fail("cdf_envelope raises", desc, impl[1], "value")
        return
    env = impl[1]
    for k, name in enumerate(["original", "upper", "lower"]):
        bad = cmp_lines(env.sel(cdf_type=name), sizes, [t[k] for t in m])
        if bad:
            ctx.tie_fail(f"cdf_envelope '{name}' differs from the model", {**desc, "case": bad[0]}, bad[1], bad[2])
            return
    # property predicates on the implementation: bracket, monotone, fixpoint, NaN kept
    _, _, up = lines_of(env.sel(cdf_type="upper"), sizes)
    _, _, low = lines_of(env.sel(cdf_type="lower"), sizes)
    for lb, o, u, l in zip(labs, lines, up, low):
        nn = [i for i, v in enumerate(o) if not np.isnan(v)]
        ok = all(np.isnan(u[i]) and np.isnan(l[i]) for i in range(len(o)) if i not in nn)
        ok = ok and all(l[i] - 1e-12 <= o[i] <= u[i] + 1e-12 for i in nn)
        ok = ok and all(u[i] <= u[j] + 1e-12 and l[i] <= l[j] + 1e-12 for i, j in zip(nn, nn[1:]))
        # minimality: the running max / reverse running min themselves
        run = -np.inf
        for i in nn:
            run = max(run, o[i])
            ok = ok and abs(u[i] - run) <= 1e-12
        run = np.inf
        for i in reversed(nn):
            run = min(run, o[i])
            ok = ok and abs(l[i] - run) <= 1e-12
        if all(o[i] <= o[j] for i, j in zip(nn, nn[1:])):
            ok = ok and all(abs(u[i] - o[i]) <= 1e-12 and abs(l[i] - o[i]) <= 1e-12 for i in nn)
        if not ok:
            ctx.violation("cdf_envelope does not bracket minimally / is not monotone / changes a non-decreasing CDF", {**desc, "case": dict(zip(dims, lb))},
                          "lower<=original<=upper, running max / reverse running min", {"original": o, "upper": u, "lower": l})
            return


def check_fill(ctx):
    rng = ctx.rng
    da, sizes, ths = gen_array(rng, nan_mode=rng.choice(["scatter", "scatter", "none", "line"]))
    method = rng.choice(FILLS) if rng.random() < 0.95 else "cubic"
    mn = rng.choice([0, 1, 1, 2, 2, 3, 4])
    if rng.random() < 0.08:
        da = da.copy()
        da.values[tuple(rng.randrange(s) for s in da.shape)] = rng.choice([-0.125, 1.25])
    desc = {"fn": "fill_cdf", "cdf": gens.da_repr(da), "method": method, "min_nonnan": mn}
    impl = core.call_impl(C().fill_cdf, da, TD, method, mn)
    dims, labs, lines = lines_of(da, sizes)
    m = ctx.model("c17_fill", enc_list([enc_nums([t / 2.0 for t in ths]), enc_lines(lines), enc_str(method), str(mn)]))
    ctx.case(desc, nontrivial=impl[0] == "ok")
    ctx.count("fill:" + method)
    if core.is_err(m) or impl[0] == "err":
        if not (core.is_err(m) and impl[0] == "err" and impl[1] == m):
            ctx.tie_fail("fill_cdf raises/returns differently from the model", desc, str(impl[1])[:200], str(m)[:200])
        else:
            ctx.count("fill:error_path")
        return
    bad = cmp_lines(impl[1], sizes, m)
    if bad:
        ctx.tie_fail("fill_cdf differs from the model", {**desc, "case": bad[0]}, bad[1], bad[2])
        return
    _, _, got = lines_of(impl[1], sizes)
    for lb, o, g in zip(labs, lines, got):
        cnt = sum(1 for v in o if not np.isnan(v))
        if cnt < mn:
            ok = all(np.isnan(v) for v in g)
            what = "a line with fewer than min_nonnan points is not blanked"
        else:
            ok = all(not np.isnan(v) and -1e-12 <= v <= 1 + 1e-12 for v in g) and all(abs(a - b) <= 1e-12 for a, b in zip(o, g) if not np.isnan(a))
            what = "fill_cdf changes a given ordinate, leaves a NaN or leaves [0,1]"
        if not ok:
            ctx.violation(what, {**desc, "case": dict(zip(dims, lb))}, "see property", {"in": o, "out": g})
            return


def check_add_thresholds(ctx):
    rng = ctx.rng
    da, sizes, ths = gen_array(rng, nan_mode=rng.choice(["none", "scatter", "line"]), nmin=2)
    method = rng.choice(FILLS + ["none"])
    new = [rng.randint(-4, 44) / 4.0 for _ in range(rng.randint(0, 4))]
    if rng.random() < 0.3 and ths:
        new.append(rng.choice(ths) / 2.0)
    if rng.random() < 0.1:
        new.append(NAN)
    mn = rng.choice([1, 2, 2, 3])
    desc = {"fn": "add_thresholds", "cdf": gens.da_repr(da), "new_thresholds": new, "fill_method": method, "min_nonnan": mn}
    impl = core.call_impl(C().add_thresholds, da, TD, new, method, min_nonnan=mn)
    dims, labs, lines = lines_of(da, sizes)
    m = ctx.model("c17_add_thresholds", enc_list([enc_nums([t / 2.0 for t in ths]), enc_lines(lines), enc_nums(new), enc_str(method), str(mn)]))
    ctx.case(desc, nontrivial=impl[0] == "ok")
    ctx.count("add_thresholds:" + method)
    if core.is_err(m) or impl[0] == "err":
        if not (core.is_err(m) and impl[0] == "err" and impl[1] == m):
            ctx.tie_fail("add_thresholds raises/returns differently from the model", desc, str(impl[1])[:200], str(m)[:200])
        return
    grid = [float(x) for x in core.dec_nums(m[0])]
    if [float(x) for x in impl[1][TD].values] != grid:
        ctx.tie_fail("add_thresholds grid differs", desc, impl[1][TD].values.tolist(), grid)
        return
    bad = cmp_lines(impl[1], sizes, m[1])
    if bad:
        ctx.tie_fail("add_thresholds differs from the model", {**desc, "case": bad[0]}, bad[1], bad[2])
        return
    # given ordinates are kept at their thresholds
    if method != "none":
        _, _, got = lines_of(impl[1], sizes)
        for lb, o, g in zip(labs, lines, got):
            if sum(1 for v in o if not np.isnan(v)) >= mn:
                for t, v in zip(ths, o):
                    if not np.isnan(v) and abs(g[grid.index(t / 2.0)] - v) > 1e-12:
                        ctx.violation("add_thresholds changes a given ordinate", {**desc, "case": dict(zip(dims, lb))}, v, g[grid.index(t / 2.0)])
                        return


def check_decreasing(ctx):
    rng = ctx.rng
    da, sizes, ths = gen_array(rng, nan_mode=rng.choice(["none", "none", "line", "scatter"] if rng.random() < 0.3 else ["none", "line"]))
    dims, labs, lines = lines_of(da, sizes)
    decs = [sum(max(0.0, a - b) for a, b in zip(l, l[1:]) if not (np.isnan(a) or np.isnan(b))) for l in lines]
    r = rng.random()
    tol = 0.0 if r < 0.3 else (rng.choice(decs) if r < 0.7 else rng.randint(0, 8) / 8.0)
    if rng.random() < 0.05:
        tol = -0.125
    desc = {"fn": "decreasing_cdfs", "cdf": gens.da_repr(da), "tolerance": tol}
    impl = core.call_impl(C().decreasing_cdfs, da, TD, tol)
    m = ctx.model("c17_decreasing", enc_list([enc_nums([t / 2.0 for t in ths]), enc_lines(lines), enc_num(tol)]))
    ctx.case(desc, nontrivial=impl[0] == "ok")
    ctx.count("decreasing")
    if core.is_err(m) or impl[0] == "err":
        if not (core.is_err(m) and impl[0] == "err" and impl[1] == m):
            ctx.tie_fail("decreasing_cdfs raises/returns differently from the model", desc, str(impl[1])[:200], str(m)[:200])
        return
    for lb, l, d, mb in zip(labs, lines, decs, m):
        sel = dict(zip(dims, lb))
        g = bool(impl[1].sel(sel).values) if sel else bool(impl[1].values)
        if g != (mb == "true"):
            ctx.tie_fail("decreasing_cdfs differs from the model", {**desc, "case": sel}, g, mb)
            return
        if g != (d > tol):
            ctx.violation("decreasing_cdfs does not flag exactly the lines whose total decrease exceeds the tolerance", {**desc, "case": sel, "total_decrease": d}, d > tol, g)
            return


def check_small_tools(ctx):
    rng = ctx.rng
    c = C()
    # propagate_nan
    da, sizes, ths = gen_array(rng, nan_mode=rng.choice(["scatter", "none", "line"]))
    dims, labs, lines = lines_of(da, sizes)
    impl = core.call_impl(c.propagate_nan, da, TD)
    m = ctx.model("c17_propagate", enc_lines(lines))
    ctx.case({"fn": "propagate_nan", "cdf": gens.da_repr(da)})
    ctx.count("propagate_nan")
    bad = cmp_lines(impl[1], sizes, m) if impl[0] == "ok" else ({}, impl[1], "value")
    if bad:
        ctx.tie_fail("propagate_nan differs from the model", {"cdf": gens.da_repr(da), "case": bad[0]}, bad[1], bad[2])
    # observed_cdf
    n = rng.randint(1, 4)
    sizes = {"a": n}
    obs = xr.DataArray([NAN if rng.random() < 0.15 else rng.randint(0, 16) / 4.0 for _ in range(n)], dims=["a"], coords={"a": list(range(n))})
    tv = None if rng.random() < 0.3 else [rng.randint(0, 8) / 2.0 for _ in range(rng.randint(1, 4))]
    inc = True if tv is None else rng.random() < 0.5
    prec = rng.choice([0, 0, 0.5, 1, 0.25])
    desc = {"fn": "observed_cdf", "obs": gens.da_repr(obs), "threshold_values": tv, "include_obs_in_thresholds": inc, "precision": prec}
    impl = core.call_impl(c.observed_cdf, obs, TD, threshold_values=tv, include_obs_in_thresholds=inc, precision=prec)
    ctx.case(desc, nontrivial=impl[0] == "ok")
    ctx.count("observed_cdf")
    ro = core.dec_nums(ctx.model("c17_round", enc_list([enc_nums(obs.values), enc_num(prec), enc_bool(True)])))
    grid = sorted(set([float(x) for x in ro if inc and not isinstance(x, float)] + [float(x) for x in (tv or [])]))
    if not grid or bool(np.isnan(obs.values).all()) and (tv is None):
        if impl[0] != "err":
            ctx.tie_fail("observed_cdf should raise without any threshold", desc, "value", "err:ValueError")
    elif impl[0] != "ok":
        if not bool(np.isnan(obs.values).all()):
            ctx.tie_fail("observed_cdf raises", desc, impl[1], "value")
    else:
        m = ctx.model("c17_observed_cdf", enc_list([enc_list([enc_num(x) for x in ro]), enc_nums(grid)]))
        if [float(x) for x in impl[1][TD].values] != grid:
            ctx.tie_fail("observed_cdf thresholds differ", desc, impl[1][TD].values.tolist(), grid)
        else:
            bad = cmp_lines(impl[1], sizes, m)
            if bad:
                ctx.tie_fail("observed_cdf differs from the model", {**desc, "case": bad[0]}, bad[1], bad[2])
    # round_values
    p = rng.choice([0, 0.5, 0.25, 2, 1, 0.125, -1])
    vals = [NAN if rng.random() < 0.1 else rng.randint(-64, 64) / 16.0 for _ in range(rng.randint(1, 6))]
    impl = core.call_impl(c.round_values, xr.DataArray(vals, dims=["x"]), p)
    m = ctx.model("c17_round", enc_list([enc_nums(vals), enc_num(p), enc_bool(True)]))
    desc = {"fn": "round_values", "values": vals, "rounding_precision": p}
    ctx.case(desc, nontrivial=impl[0] == "ok")
    ctx.count("round_values")
    if core.is_err(m) or impl[0] == "err":
        if not (core.is_err(m) and impl[0] == "err" and impl[1] == m):
            ctx.tie_fail("round_values raises/returns differently from the model", desc, str(impl[1])[:100], str(m)[:100])
    elif not core.close_list([float(v) for v in impl[1].values], core.dec_nums(m)):
        ctx.tie_fail("round_values differs from the model", desc, impl[1].values.tolist(), m)
    elif p > 0:
        for v, g in zip(vals, impl[1].values):
            if not np.isnan(v) and not (abs(g - v) <= p / 2 + 1e-12 and abs(g / p - round(g / p)) <= 1e-9):
                ctx.violation("round_values result is not the nearest multiple of the precision", desc, "multiple of p within p/2", float(g))


def crps_of(fc, obs, sizes, add, ffm, im):
    import scores.probability as P
    kw = dict(threshold_dim=TD, additional_thresholds=add, fcst_fill_method=ffm, integration_method=im)
    dims = sorted(sizes)
    if dims:
        kw["preserve_dims"] = dims
    return core.call_impl(P.crps_cdf, fc, obs, **kw)


def check_adjust(ctx):
    import scores.probability as P
    rng = ctx.rng
    da, sizes, ths = gen_array(rng, nan_mode=rng.choice(["none", "none", "scatter", "line"]), nmin=2, nmax=6)
    odims = {d: sizes[d] for d in sizes if rng.random() < 0.7}
    on = int(np.prod([odims[d] for d in odims])) if odims else 1

    def ov():
        r = rng.random()
        if r < 0.08:
            return NAN
        if r < 0.5:
            return rng.choice(ths) / 2.0
        return rng.randint(2 * ths[0] - 6, 2 * ths[-1] + 6) / 4.0
    od = list(odims)
    rng.shuffle(od)
    obs = xr.DataArray(np.array([ov() for _ in range(on)], dtype=float).reshape([odims[d] for d in od]), dims=od,
                       coords={d: rng.sample(range(odims[d]), odims[d]) for d in od})
    dims, labs, lines = lines_of(da, sizes)
    decs = [sum(max(0.0, a - b) for a, b in zip(l, l[1:]) if not (np.isnan(a) or np.isnan(b))) for l in lines]
    r = rng.random()
    tol = 0.0 if r < 0.5 else (rng.choice(decs) if r < 0.8 else rng.randint(0, 4) / 8.0)
    add = None if rng.random() < 0.6 else [rng.randint(2 * ths[0] - 4, 2 * ths[-1] + 4) / 4.0 for _ in range(rng.randint(1, 3))]
    ffm = rng.choice(FILLS)
    im = rng.choice(["exact", "trapz"])
    desc = {"fn": "adjust_fcst_for_crps", "fcst": gens.da_repr(da), "obs": gens.da_repr(obs), "decreasing_tolerance": tol, "additional_thresholds": add,
            "fcst_fill_method": ffm, "integration_method": im}
    impl = core.call_impl(P.adjust_fcst_for_crps, da, TD, obs, decreasing_tolerance=tol, additional_thresholds=add, fcst_fill_method=ffm, integration_method=im)
    cases = []
    for lb, l in zip(labs, lines):
        sel = {d: v for d, v in zip(dims, lb) if d in obs.dims}
        o = float(obs.sel(sel).values) if sel else float(obs.values)
        cases.append(enc_list([enc_nums(l), enc_num(o)]))
    m = ctx.model("c17_adjust", enc_list([enc_nums([t / 2.0 for t in ths]), enc_list(cases), enc_nums(add or []), enc_str(ffm), enc_str(im), enc_num(tol)]))
    ctx.case(desc, nontrivial=impl[0] == "ok" and any(d > tol for d in decs))
    ctx.count("adjust:" + ("some_decreasing" if any(d > tol for d in decs) else "none_decreasing"))
    if core.is_err(m) or impl[0] == "err":
        if not (core.is_err(m) and impl[0] == "err" and impl[1] == m):
            ctx.tie_fail("adjust_fcst_for_crps raises/returns differently from the model", desc, str(impl[1])[:200], str(m)[:200])
        return
    bad = cmp_lines(impl[1], sizes, m)
    if bad:
        ctx.tie_fail("adjust_fcst_for_crps differs from the model", {**desc, "case": bad[0]}, bad[1], bad[2])
        return
    # never flatters: CRPS(adjusted) >= CRPS(original) per case, same options
    a = crps_of(impl[1], obs, sizes, add, ffm, im)
    b = crps_of(da, obs, sizes, add, ffm, im)
    if a[0] == "ok" and b[0] == "ok":
        ctx.count("adjust:never_flatters_checked")
        for lb in labs:
            sel = dict(zip(dims, lb))
            x = float(a[1]["total"].sel(sel).values) if sel else float(a[1]["total"].values)
            y = float(b[1]["total"].sel(sel).values) if sel else float(b[1]["total"].values)
            if not (np.isnan(y) or x >= y - 1e-12):
                ctx.violation("adjust_fcst_for_crps lowers the CRPS of a forecast case", {**desc, "case": sel}, f">= {y}", x)
                return
    # unchanged when nothing decreases beyond tolerance
    if not any(d > tol for d in decs):
        pn = core.call_impl(C().propagate_nan, da, TD)
        if pn[0] == "ok" and cmp_lines(impl[1], sizes, [[enc_num(v) for v in l] for l in lines_of(pn[1], sizes)[2]]):
            ctx.violation("adjust_fcst_for_crps changes a forecast that does not decrease beyond the tolerance", desc, "unchanged", gens.da_repr(impl[1]))


def run(ctx):
    n = ctx.n(90, 1500)
    for i in range(n):
        if not ctx.time_left():
            ctx.note(f"time budget reached after {i} rounds")
            break
        check_envelope(ctx)
        check_fill(ctx)
        check_add_thresholds(ctx)
        check_decreasing(ctx)
        check_small_tools(ctx)
        check_adjust(ctx)
        check_adjust(ctx)
    for k, s in enumerate(ctx.samples):
        pass
