"""C17 -- CDF repair tools bracket the input minimally; CRPS adjustment never flatters."""
import itertools
from fractions import Fraction

import numpy as np
import xarray as xr

import core
import gens
from core import enc_bool, enc_list, enc_num, enc_nums, enc_str

ID = "C17"
LEVEL = "proof"
LEVEL_TEXT = ("Coq theorems for every line of CDF values (any length, NaN allowed): the envelopes are non-decreasing, bracket the original, are the least "
              "non-decreasing majorant / greatest non-decreasing minorant and coincide with a non-decreasing input; fill_cdf keeps every given ordinate, "
              "stays in [0,1], blanks a line with too few points and fills as each method prescribes; decreasing_cdfs flags a line exactly when its total "
              "decrease exceeds the tolerance; adjust_fcst_for_crps keeps a line that is fine, otherwise returns the first CRPS-maximal of original/upper/"
              "lower, hence never lowers the CRPS.  The executable model is tied to the code by a correspondence check on every run.")
LEVEL_NOTE = ("trusted: hand model of the numpy/xarray primitives (fmax.accumulate, flip, interpolate_na, ffill/bfill, idxmax, combine_first) validated by "
              "correspondence; extraction; harness; binary64 rounding not modelled (the code's 'to rounding' caveat is covered by the comparison tolerance)")
TECHNIQUE = "Coq proof over an extracted executable model + correspondence check"
SITES = ["C07.piece", "C07.bscore", "C17.fwd"]
RULE = ("lines of 1-7 ordinates k/8 on increasing half-integer thresholds: non-decreasing, with plateaus, with one or several decreasing runs, with NaN "
        "(scattered, whole line, or placed so that every decrease sits across a NaN gap and no neighbouring pair decreases anywhere in the array; each "
        "such line also as an array of its own), 0-2 extra dimensions stored in shuffled order with the threshold dimension anywhere; new thresholds inside/outside/"
        "duplicating the grid; 4 fill methods x min_nonnan 0-4; tolerances 0, k/8 and exactly the total decrease; observations on/between/outside "
        "thresholds or NaN (+-inf for observed_cdf / round_values); thresholds moved to base + scale * x (1e6, 101325 at 1/16, ...) in 30 % of the fill / "
        "add_thresholds / adjust calls; observations lacking a forecast dimension in 30 % of the adjust calls; Datasets of 2-3 variables with different "
        "NaN positions for propagate_nan; optional arguments (min_nonnan, threshold_values / include_obs_in_thresholds / precision, final_round_decpl, piece_weight, "
        "the four options of adjust_fcst_for_crps) omitted in 25-35 % of the calls against the call with the documented defaults written out; add_thresholds over every line "
        "of length 1-4 over {NaN,0,1/2,1} x 5 methods x min_nonnan 1-3; a case is distinct by the hash of function + inputs and non-trivial when the function returns a value")
ASSUMPTIONS = ["thresholds are finite; observations passed to adjust_fcst_for_crps are finite or NaN (an infinite one is only checked through the relation "
               "'treated as a missing observation', finding adjust-infinite-observation repaired in /repo by dfedbb7); observed_cdf and round_values are checked with +-inf too",
               "round_values is checked for dyadic precisions whose multiples have at most 7 decimals"]
TRUSTED = ["hand model of np.fmax.accumulate / np.flip / interpolate_na / ffill / bfill / idxmax / combine_first in coq/model/Cdf.v (validated by correspondence)"]

# counters every complete run must have incremented (core.run_check reports the ones that did not): one per predicate family / input class
EXPECT_COUNTS = ["envelope", "envelope:line_alone", "envelope:decrease_across_nan_gap_only", "envelope:neighbouring_and_across_nan_gap",
                 "envelope:neighbouring_decrease", "envelope:no_decrease", "probe:envelope_decrease_across_nan_gap",
                 "fill:linear", "fill:step", "fill:forward", "fill:backward", "fill:cubic", "fill:error_path", "fill:thresholds_far_from_zero",
                 "add_thresholds:linear", "add_thresholds:step", "add_thresholds:forward", "add_thresholds:backward", "add_thresholds:none",
                 "add_thresholds:error_path", "add_thresholds:thresholds_far_from_zero",
                 "decreasing", "decreasing:error_path", "probe:decreasing_boundary",
                 "propagate_nan", "propagate_nan:dataset", "observed_cdf", "observed_cdf:include_obs:precision", "observed_cdf:include_obs:no_rounding",
                 "observed_cdf:given_thresholds_only:precision", "observed_cdf:given_thresholds_only:no_rounding", "observed_cdf:infinite_obs",
                 "observed_cdf:error_path", "observed_cdf:integer_storage", "probe:observed_cdf_options", "probe:all_nan_array", "round_values", "round_values:infinite", "round_values:error_path", "probe:precision_zero",
                 "adjust:some_decreasing", "adjust:none_decreasing", "adjust:chosen_original", "adjust:chosen_upper", "adjust:chosen_lower",
                 "adjust:never_flatters_checked", "adjust:tie_corpus", "adjust:error_path", "adjust:obs_lacks_fcst_dim", "adjust:thresholds_far_from_zero",
                 "adjust:inf_obs_as_missing", "adjust:tolerated_dip_next_to_flagged", "probe:adjust_tolerated_next_to_flagged", "probe:adjust_boundary", "probe:adjust_dense_additional_thresholds", "probe:adjust_obs_lacks_fcst_dim",
                 "sweep_lines",
                 "add_thresholds:min_nonnan_1", "add_thresholds:min_nonnan_1:line_with_one_known_point", "integrate", "integrate:piece_weight",
                 "round_values:final_round_decpl_other", "round_values:seven_decimals", "probe:defaults",
                 "defaults:add_thresholds:min_nonnan", "defaults:round_values:final_round_decpl", "defaults:integrate_square_piecewise_linear:piece_weight",
                 "defaults:observed_cdf:threshold_values", "defaults:observed_cdf:include_obs_in_thresholds", "defaults:observed_cdf:precision",
                 "defaults:adjust_fcst_for_crps:decreasing_tolerance", "defaults:adjust_fcst_for_crps:additional_thresholds",
                 "defaults:adjust_fcst_for_crps:fcst_fill_method", "defaults:adjust_fcst_for_crps:integration_method"]

TD = "thr"
NAN = float("nan")
INF = float("inf")
FILLS = ["linear", "step", "forward", "backward"]
# (base, scale): thresholds x (half-integers near zero) become base + scale * x -- far from zero relative to their spacing
AFFINE = [(1e6, 2.0), (1e6, 1.0), (-2e6, 4.0), (101325.0, 0.125), (273.0, 0.03125), (0.0, 2.0 ** -10)]


def pick_tr(rng, p=0.3):
    return rng.choice(AFFINE) if rng.random() < p else None


def mv(x, tr):
    """a threshold-like value (given near zero) moved by the transform"""
    return x if tr is None else float(tr[0] + tr[1] * x)


def thr_values(ths, tr=None):
    """the actual thresholds of a generated array: half units, moved by the transform"""
    return [mv(t / 2.0, tr) for t in ths]


def moved(da, ths, tr):
    return da if tr is None else da.assign_coords({TD: [mv(float(x), tr) for x in da[TD].values]})


def C():
    import scores.processing.cdf as c
    return c


def contiguous(da):
    return xr.DataArray(np.array(da.values, order="C", copy=True), dims=da.dims, coords=da.coords)


def gen_line(rng, n, kind=None, lo=0, hi=8):
    kind = kind or rng.choice(["mono", "mono", "plateau", "dec1", "decmany", "random"])
    ks = [rng.randint(lo, hi) for _ in range(n)]
    if kind in ("mono", "plateau", "dec1", "decmany"):
        ks.sort()
    if kind == "plateau" and n >= 2:
        i = rng.randrange(n - 1)
        ks[i + 1] = ks[i]
    if kind == "dec1" and n >= 2:
        i = rng.randrange(n - 1)
        ks[i], ks[i + 1] = ks[i + 1], ks[i]
    if kind == "decmany":
        for _ in range(rng.randint(1, 3)):
            i, j = rng.randrange(n), rng.randrange(n)
            ks[i], ks[j] = ks[j], ks[i]
    return [k / 8.0 for k in ks]


def adjacent_decrease(l):
    return any(not (np.isnan(a) or np.isnan(b)) and a > b for a, b in zip(l, l[1:]))


def hidden_decrease(l):
    """the known ordinates decrease somewhere, but never between two neighbouring positions: every decrease sits across a NaN gap"""
    kn = [v for v in l if not np.isnan(v)]
    return not adjacent_decrease(l) and any(a > b for a, b in zip(kn, kn[1:]))


def gap_line(rng, n, lo=0, hi=8):
    """a line in which no two NEIGHBOURING known ordinates decrease, while the known ordinates (usually) do decrease across one or more
    NaN gaps (also leading / trailing NaN): a test of the shape `diff < 0` sees nothing there, the running maximum / reverse running
    minimum must still act"""
    if n >= 3 and rng.random() < 0.6:
        # non-decreasing blocks separated by gaps of 1-2 NaN, a later block (usually) starting below the end of the one before
        ln, level = [NAN] * rng.choice([0, 0, 0, 1, 2]), None
        while len(ln) < n:
            blk = sorted(rng.randint(lo, hi) for _ in range(rng.randint(1, 3)))
            if level is not None and blk[0] >= level and level > lo and rng.random() < 0.8:
                shift = blk[0] - rng.randint(lo, level - 1)
                blk = [max(lo, k - shift) for k in blk]
            level = blk[-1]
            ln += [k / 8.0 for k in blk] + [NAN] * rng.randint(1, 2)
        return ln[:n]
    ln = gen_line(rng, n, kind=rng.choice(["random", "decmany", "dec1"]), lo=lo, hi=hi)
    for i in range(n - 1):      # blank one end of every neighbouring decreasing pair (blanking creates no new neighbours)
        if not (np.isnan(ln[i]) or np.isnan(ln[i + 1])) and ln[i] > ln[i + 1]:
            ln[i + rng.randint(0, 1)] = NAN
    return ln


def gen_array(rng, nan_mode=None, nmin=1, nmax=7, extra=None, lo=0, hi=8):
    n = rng.randint(nmin, nmax)
    ths = sorted(rng.sample(range(0, 21), n))
    names = ["a", "b", "c"]
    rng.shuffle(names)
    sizes = {d: rng.randint(1, 3) for d in names[:rng.choice([0, 1, 1, 2]) if extra is None else extra]}
    dims = list(sizes)
    nan_mode = nan_mode if nan_mode is not None else rng.choice(["none", "none", "scatter", "line"])
    ncase = int(np.prod([sizes[d] for d in dims])) if dims else 1
    lines = []
    for _ in range(ncase):
        ln = gen_line(rng, n, lo=lo, hi=hi)
        if nan_mode == "gap" or (nan_mode == "gapmix" and rng.random() < 0.6):
            ln = gap_line(rng, n, lo=lo, hi=hi)         # "gap": no neighbouring decrease anywhere in the array; "gapmix": next to ordinary lines
        elif nan_mode == "scatter" or (nan_mode == "gapmix" and rng.random() < 0.5):
            ln = [NAN if rng.random() < 0.3 else v for v in ln]
        elif nan_mode == "line" and rng.random() < 0.4:
            ln = [NAN] * n
        lines.append(ln)
    coords = {}
    for d in dims:
        lab = list(range(sizes[d]))
        rng.shuffle(lab)
        coords[d] = lab
    vals = np.array(lines, dtype=float).reshape([sizes[d] for d in dims] + [n])
    da = xr.DataArray(vals, dims=dims + [TD], coords={**coords, TD: [t / 2.0 for t in ths]})
    order = dims + [TD]
    rng.shuffle(order)
    return contiguous(da.transpose(*order)), sizes, ths


def labels(sizes):
    dims = sorted(sizes)
    return dims, list(itertools.product(*[range(sizes[d]) for d in dims]))


def lines_of(da, sizes, td=TD):
    dims, labs = labels(sizes)
    out = []
    for lb in labs:
        sel = {d: l for d, l in zip(dims, lb) if d in da.dims}
        x = (da.sel(sel) if sel else da)
        if td in x.dims:
            x = x.sortby(td)
        out.append([float(v) for v in np.asarray(x.values, dtype=float).ravel()])
    return dims, labs, out


def enc_lines(lines):
    return enc_list([enc_nums(l) for l in lines])


def cmp_lines(impl_da, sizes, model_lines, td=TD):
    """implementation array vs model lines (list of list of atoms); -> None or (label, impl line, model line)"""
    if core.is_err(model_lines):      # the model entry is missing / raises: a tie failure, not a crash of the check
        return {}, "a value", model_lines
    dims, labs, got = lines_of(impl_da, sizes, td)
    for lb, g, m in zip(labs, got, model_lines):
        q = core.dec_nums(m)
        if not core.close_list(g, q):
            return dict(zip(dims, lb)), g, [str(x) for x in q]
    return None


# ------------------------------------------------------------------------------------------
# plain-Python statements of what each tool is documented to do (property predicates; exact rationals)
# ------------------------------------------------------------------------------------------
def F(x):
    return None if (isinstance(x, float) and np.isnan(x)) else Fraction(x)


class NoModel:
    """stands for a model answer when the check runs without the extracted model: every tie comparison is skipped"""


def mcall(ctx, entry, arg):
    return NoModel if getattr(ctx, "no_model", False) else ctx.model(entry, arg)


def oracle_fill(xs, ys, method, mn):
    """the named method's prescription: linear = interpolate between the nearest given points, extend the first / last segment, clip to
    [0,1]; step = last given value, 0 before the first; forward = last given value, first given value before it; backward = mirror"""
    n = len(xs)
    idx = [i for i, v in enumerate(ys) if v is not None]
    if len(idx) < mn:
        return [None] * n
    out = list(ys)
    for i in range(n):
        if ys[i] is not None:
            continue
        left = [j for j in idx if j < i]
        right = [j for j in idx if j > i]
        if method == "linear":
            if left and right:
                a, b = left[-1], right[0]
            elif left:
                a, b = left[-2], left[-1]
            else:
                a, b = right[0], right[1]
            out[i] = ys[a] + (ys[b] - ys[a]) * (xs[i] - xs[a]) / (xs[b] - xs[a])
        elif method == "step":
            out[i] = ys[left[-1]] if left else Fraction(0)
        elif method == "forward":
            out[i] = ys[left[-1]] if left else ys[right[0]]
        elif method == "backward":
            out[i] = ys[right[0]] if right else ys[left[-1]]
    if method == "linear":
        out = [min(max(v, Fraction(0)), Fraction(1)) for v in out]
    return out


def same_line(got, want, tol=1e-9):
    return len(got) == len(want) and all((np.isnan(g) if w is None else (not np.isnan(g) and abs(g - float(w)) <= tol)) for g, w in zip(got, want))


# ------------------------------------------------------------------------------------------
# defaults: the documented default of every optional argument of the tools (signature + docstring of the pinned tree).  A call that omits
# an argument must equal the call that writes the documented default out; the result then goes through the plain statements below with
# the default value, so a default changed in a signature (or a keyword no longer forwarded) is seen with a failing input.
DOC = {"add_thresholds": dict(min_nonnan=2),
       "observed_cdf": dict(threshold_values=None, include_obs_in_thresholds=True, precision=0),
       "round_values": dict(final_round_decpl=7),
       "integrate_square_piecewise_linear": dict(piece_weight=None),
       "adjust_fcst_for_crps": dict(decreasing_tolerance=0, additional_thresholds=None, fcst_fill_method="linear", integration_method="exact")}


def omit_some(rng, fname, p=0.35):
    """the optional arguments a generated call leaves out: none in most calls; otherwise one, all, or a random subset"""
    if rng.random() >= p:
        return set()
    names = list(DOC[fname])
    r = rng.random()
    if r < 0.35:
        return {rng.choice(names)}
    if r < 0.55:
        return set(names)
    return {n for n in names if rng.random() < 0.5} or {rng.choice(names)}


def same_result(a, b):
    if a[0] != b[0]:
        return False
    return a[1] == b[1] if a[0] == "err" else bool(a[1].equals(b[1]))


def call_omitting(ctx, fn, fname, args, full, om, desc):
    """the call with every optional argument written out (`full`: omitted ones already at their documented default) and, when some are
    omitted, the call that leaves them out: both must give the same result.  -> the result of the call as the user wrote it"""
    explicit = core.call_impl(fn, *args, **full)
    if not om:
        return explicit
    omitted = core.call_impl(fn, *args, **{k: v for k, v in full.items() if k not in om})
    ctx.count("defaults:" + fname)
    for k in om:
        ctx.count("defaults:" + fname + ":" + k)
    if not same_result(explicit, omitted):
        ctx.violation(f"{fname} called without {sorted(om)} differs from the call that writes the documented defaults "
                      f"({ {k: DOC[fname][k] for k in sorted(om)} }) out", {**desc, "omitted_arguments": sorted(om)},
                      explicit[1] if explicit[0] == "err" else np.asarray(explicit[1].values).tolist(),
                      omitted[1] if omitted[0] == "err" else np.asarray(omitted[1].values).tolist())
    return omitted


# ------------------------------------------------------------------------------------------
ENV_CONTRACT = "lower<=original<=upper, upper = running max, lower = reverse running min (both over the known points, NaN ignored), NaN kept"


def envelope_line_ok(o, o2, u, l):
    """the documented contract of cdf_envelope on one line o (threshold order): NaN kept, bracket, monotone over the known points, minimal
    (= running max / reverse running min ignoring NaN), fixpoint on a non-decreasing line"""
    nn = [i for i, v in enumerate(o) if not np.isnan(v)]
    ok = len(u) == len(o) and len(l) == len(o) and same_line(o2, [F(v) for v in o])
    ok = ok and all(np.isnan(u[i]) and np.isnan(l[i]) for i in range(len(o)) if i not in nn)
    ok = ok and all(not np.isnan(u[i]) and not np.isnan(l[i]) and l[i] - 1e-12 <= o[i] <= u[i] + 1e-12 for i in nn)
    ok = ok and all(u[i] <= u[j] + 1e-12 and l[i] <= l[j] + 1e-12 for i, j in zip(nn, nn[1:]))
    if not ok:
        return False
    run = -np.inf
    for i in nn:
        run = max(run, o[i])
        ok = ok and abs(u[i] - run) <= 1e-12
    run = np.inf
    for i in reversed(nn):
        run = min(run, o[i])
        ok = ok and abs(l[i] - run) <= 1e-12
    if all(o[i] <= o[j] for i, j in zip(nn, nn[1:])):
        ok = ok and all(abs(u[i] - o[i]) <= 1e-12 and abs(l[i] - o[i]) <= 1e-12 for i in nn)
    return ok


def envelope_alone(ctx, o, xs, desc, case):
    """the same line as an array of its own: the envelope of a CDF does not depend on which other CDFs share the array (a whole-array
    shortcut such as 'nothing decreases anywhere' / 'no NaN anywhere' is decided by this line only)"""
    one = xr.DataArray(np.array(o, dtype=float), dims=[TD], coords={TD: xs})
    r = core.call_impl(C().cdf_envelope, one, TD)
    ctx.count("envelope:line_alone")
    if r[0] != "ok":
        ctx.violation("cdf_envelope raises on one line of the array taken alone", {"fn": "cdf_envelope", "cdf": gens.da_repr(one), "taken_from": desc, "case": case}, "a value", r[1])
        return False
    o2, u, l = ([float(v) for v in r[1].sel(cdf_type=k).sortby(TD).values] for k in ("original", "upper", "lower"))
    if not envelope_line_ok(o, o2, u, l):
        ctx.violation("cdf_envelope does not bracket minimally / is not monotone / changes a non-decreasing CDF / moves a NaN (one line as an array of its own)",
                      {"fn": "cdf_envelope", "cdf": gens.da_repr(one), "taken_from_case": case}, ENV_CONTRACT, {"original": o2, "upper": u, "lower": l})
        return False
    return True


def check_envelope(ctx, da=None, sizes=None, alone=None):
    rng = ctx.rng
    if da is None:
        # "gap" / "gapmix": decreases that sit across NaN gaps only (no neighbouring pair decreases anywhere in the array) / next to ordinary lines
        mode = rng.choice(["none", "none", "scatter", "line", "gap", "gap", "gapmix"])
        da, sizes, ths = gen_array(rng, nan_mode=mode, nmin=3 if mode in ("gap", "gapmix") else 1,
                                   lo=-2 if rng.random() < 0.2 else 0, hi=10 if rng.random() < 0.2 else 8)
        if rng.random() < 0.3:      # coordinates stored in non-increasing order: the function sorts
            da = contiguous(da.isel({TD: list(rng.sample(range(da.sizes[TD]), da.sizes[TD]))}))
    desc = {"fn": "cdf_envelope", "cdf": gens.da_repr(da)}
    impl = core.call_impl(C().cdf_envelope, da, TD)
    dims, labs, lines = lines_of(da, sizes)
    m = mcall(ctx, "c17_envelope", enc_lines(lines))
    ctx.case(desc)
    ctx.count("envelope")
    # which class of array this is: a decrease between neighbours somewhere / decreases across NaN gaps only / none at all
    adj, hid = any(adjacent_decrease(l) for l in lines), any(hidden_decrease(l) for l in lines)
    ctx.count("envelope:" + ("neighbouring_and_across_nan_gap" if adj and hid else "neighbouring_decrease" if adj else
                             "decrease_across_nan_gap_only" if hid else "no_decrease"))
    if impl[0] != "ok":
        ctx.violation("cdf_envelope raises", desc, "a value", impl[1])
        return
    env = impl[1]
    # property predicates on the implementation: NaN kept, bracket, monotone, minimal (= running max / reverse running min), fixpoint
    _, _, orig = lines_of(env.sel(cdf_type="original"), sizes)
    _, _, up = lines_of(env.sel(cdf_type="upper"), sizes)
    _, _, low = lines_of(env.sel(cdf_type="lower"), sizes)
    for lb, o, o2, u, l in zip(labs, lines, orig, up, low):
        if not envelope_line_ok(o, o2, u, l):
            ctx.violation("cdf_envelope does not bracket minimally / is not monotone / changes a non-decreasing CDF / moves a NaN", {**desc, "case": dict(zip(dims, lb))},
                          ENV_CONTRACT, {"original": o2, "upper": u, "lower": l})
            break
    # every line that has a NaN or a decrease, as an array of its own (all lines when asked to; at most 12 otherwise)
    if len(lines) > 1 or da.ndim > 1 or alone:
        xs = sorted(float(t) for t in da[TD].values)
        pick = [k for k, o in enumerate(lines) if alone or any(np.isnan(v) for v in o) or adjacent_decrease(o)]
        for k in (pick if alone or len(pick) <= 12 else rng.sample(pick, 12)):
            if not envelope_alone(ctx, lines[k], xs, gens.da_repr(da) if len(lines) <= 12 else "(array of %d lines)" % len(lines), dict(zip(dims, labs[k]))):
                break
    if m is not NoModel and core.is_err(m):
        ctx.tie_fail("cdf_envelope returns a value where the model raises", desc, "value", m)
        return
    for k, name in enumerate(["original", "upper", "lower"] if m is not NoModel else []):
        bad = cmp_lines(env.sel(cdf_type=name), sizes, [t[k] for t in m])
        if bad:
            ctx.tie_fail(f"cdf_envelope '{name}' differs from the model", {**desc, "case": bad[0]}, bad[1], bad[2])
            break


def check_fill(ctx, da=None, sizes=None, ths=None, method=None, mn=None, tr=None):
    rng = ctx.rng
    if da is None:
        da, sizes, ths = gen_array(rng, nan_mode=rng.choice(["scatter", "scatter", "none", "line"]))
        method = rng.choice(FILLS) if rng.random() < 0.95 else "cubic"
        mn = rng.choice([0, 1, 1, 2, 2, 3, 4])
        if rng.random() < 0.08:
            da = da.copy()
            da.values[tuple(rng.randrange(s) for s in da.shape)] = rng.choice([-0.125, 1.25])
        tr = pick_tr(rng)
    da = moved(da, ths, tr)
    txs = thr_values(ths, tr)
    if tr is not None:
        ctx.count("fill:thresholds_far_from_zero")
    desc = {"fn": "fill_cdf", "cdf": gens.da_repr(da), "method": method, "min_nonnan": mn}
    impl = core.call_impl(C().fill_cdf, da, TD, method, mn)
    dims, labs, lines = lines_of(da, sizes)
    m = mcall(ctx, "c17_fill", enc_list([enc_nums(txs), enc_lines(lines), enc_str(method), str(mn)]))
    ctx.case(desc, nontrivial=impl[0] == "ok")
    if da.sizes[TD] >= 3 and len(ctx.samples) >= 3:
        ctx.sample(desc, limit=5)
    ctx.count("fill:" + method)
    should_raise = (method not in FILLS) or any((not np.isnan(v)) and not (0 <= v <= 1) for l in lines for v in l) or \
        (mn < 2 if method == "linear" else mn < 1)
    if impl[0] == "err" or should_raise:
        if not (impl[0] == "err" and should_raise and impl[1] == "err:ValueError"):
            ctx.violation("fill_cdf raises / does not raise ValueError exactly for: unknown method, ordinate outside [0,1], min_nonnan below the method's minimum",
                          desc, "err:ValueError" if should_raise else "a value", impl[1] if impl[0] == "err" else "a value")
        else:
            ctx.count("fill:error_path")
        if m is not NoModel and not (core.is_err(m) and impl[0] == "err" and impl[1] == m):
            ctx.tie_fail("fill_cdf raises/returns differently from the model", desc, str(impl[1])[:200], str(m)[:200])
        return
    _, _, got = lines_of(impl[1], sizes)
    xs = [Fraction(x) for x in txs]
    for lb, o, g in zip(labs, lines, got):
        want = oracle_fill(xs, [F(v) for v in o], method, mn)
        if not same_line(g, want):
            cnt = sum(1 for v in o if not np.isnan(v))
            what = ("a line with fewer than min_nonnan points is not blanked" if cnt < mn else
                    f"fill_cdf('{method}') does not keep the given ordinates and fill the others as the method prescribes within [0,1]")
            ctx.violation(what, {**desc, "case": dict(zip(dims, lb))}, [None if w is None else str(w) for w in want], g)
            break
    if m is NoModel:
        return
    if core.is_err(m):
        ctx.tie_fail("fill_cdf returns a value where the model raises", desc, "value", m)
        return
    bad = cmp_lines(impl[1], sizes, m)
    if bad:
        ctx.tie_fail("fill_cdf differs from the model", {**desc, "case": bad[0]}, bad[1], bad[2])


def check_add_thresholds(ctx, given=None):
    rng = ctx.rng
    om = set()
    if given is not None:
        da, sizes, ths, new, method, mn = given[:6]
        om = {"min_nonnan"} if len(given) > 6 and given[6] else set()
        tr = None
    else:
        da, sizes, ths = gen_array(rng, nan_mode=rng.choice(["none", "scatter", "line"]), nmin=2)
        method = rng.choice(FILLS + ["none"])
        new = [rng.randint(-4, 44) / 4.0 for _ in range(rng.randint(0, 4))]
        if rng.random() < 0.3 and ths:
            new.append(rng.choice(ths) / 2.0)
        if rng.random() < 0.15:      # far outside the given thresholds (linear: extended first / last segment, clipped)
            new.append(rng.choice([-1, 1]) * float(2 ** rng.randint(6, 20)))
        tr = pick_tr(rng)
        new = [mv(x, tr) for x in new]
        if rng.random() < 0.1:
            new.append(NAN)
        mn = rng.choice([1, 2, 2, 3])
        om = omit_some(rng, "add_thresholds", p=0.25)
    if om:
        mn = 2                       # min_nonnan left out: the documented default
    da = moved(da, ths, tr)
    txs = thr_values(ths, tr)
    desc = {"fn": "add_thresholds", "cdf": gens.da_repr(da), "new_thresholds": new, "fill_method": method, "min_nonnan": mn}
    impl = call_omitting(ctx, C().add_thresholds, "add_thresholds", (da, TD, new, method), dict(min_nonnan=mn), om, desc)
    if mn == 1 and method in ("step", "forward", "backward"):
        ctx.count("add_thresholds:min_nonnan_1")
        if any(sum(1 for v in l if not np.isnan(v)) == 1 for l in lines_of(da, sizes)[2]):
            ctx.count("add_thresholds:min_nonnan_1:line_with_one_known_point")
    dims, labs, lines = lines_of(da, sizes)
    m = mcall(ctx, "c17_add_thresholds", enc_list([enc_nums(txs), enc_lines(lines), enc_nums(new), enc_str(method), str(mn)]))
    ctx.case(desc, nontrivial=impl[0] == "ok")
    ctx.count("add_thresholds:" + method)
    if tr is not None:
        ctx.count("add_thresholds:thresholds_far_from_zero")
    should_raise = method != "none" and (mn < 2 and method == "linear")
    if impl[0] == "err":
        if not should_raise:
            ctx.violation("add_thresholds raises on a valid input", desc, "a value", impl[1])
        else:
            ctx.count("add_thresholds:error_path")
        if m is not NoModel and not (core.is_err(m) and impl[1] == m):
            ctx.tie_fail("add_thresholds raises where the model returns", desc, str(impl[1])[:200], str(m)[:200])
        return
    # predicate: thresholds = sorted union; given ordinates stay at their thresholds; new ones are filled as the method prescribes
    grid_want = sorted(set(txs + [x for x in new if not np.isnan(x)]))
    grid_got = [float(x) for x in impl[1][TD].values]
    if grid_got != grid_want:
        ctx.violation("add_thresholds: thresholds are not the sorted union of old and new (NaN dropped)", desc, grid_want, grid_got)
    else:
        _, _, got = lines_of(impl[1], sizes)
        xs = [Fraction(g) for g in grid_want]
        for lb, o, g in zip(labs, lines, got):
            given = {x: F(v) for x, v in zip(txs, o)}
            re = [given.get(x) for x in grid_want]
            want = re if method == "none" else oracle_fill(xs, re, method, mn)
            if not same_line(g, want):
                ctx.violation(f"add_thresholds('{method}') does not keep the given ordinates / fill the new thresholds as prescribed",
                              {**desc, "case": dict(zip(dims, lb))}, [None if w is None else str(w) for w in want], g)
                break
    if m is NoModel:
        return
    if core.is_err(m):
        ctx.tie_fail("add_thresholds returns a value where the model raises", desc, "value", m)
        return
    grid = [float(x) for x in core.dec_nums(m[0])]
    if grid_got != grid:
        ctx.tie_fail("add_thresholds grid differs", desc, grid_got, grid)
        return
    bad = cmp_lines(impl[1], sizes, m[1])
    if bad:
        ctx.tie_fail("add_thresholds differs from the model", {**desc, "case": bad[0]}, bad[1], bad[2])


def check_decreasing(ctx, da=None, sizes=None, ths=None, tol=None):
    rng = ctx.rng
    if da is None:
        da, sizes, ths = gen_array(rng, nan_mode=rng.choice(["none", "none", "line", "scatter"] if rng.random() < 0.3 else ["none", "line"]))
    dims, labs, lines = lines_of(da, sizes)
    decs = [sum((Fraction(a) - Fraction(b) for a, b in zip(l, l[1:]) if not (np.isnan(a) or np.isnan(b)) and a > b), Fraction(0)) for l in lines]
    if tol is None:
        r = rng.random()
        tol = 0.0 if r < 0.3 else (float(rng.choice(decs)) if r < 0.7 else rng.randint(0, 8) / 8.0)
        if rng.random() < 0.05:
            tol = -0.125
    desc = {"fn": "decreasing_cdfs", "cdf": gens.da_repr(da), "tolerance": tol}
    impl = core.call_impl(C().decreasing_cdfs, da, TD, tol)
    m = mcall(ctx, "c17_decreasing", enc_list([enc_nums([t / 2.0 for t in ths]), enc_lines(lines), enc_num(tol)]))
    ctx.case(desc, nontrivial=impl[0] == "ok")
    ctx.count("decreasing")
    mixed = any(any(np.isnan(v) for v in l) and not all(np.isnan(v) for v in l) for l in lines)
    should_raise = tol < 0 or mixed
    if impl[0] == "err" or should_raise:
        if not (impl[0] == "err" and should_raise and impl[1] == "err:ValueError"):
            ctx.violation("decreasing_cdfs raises / does not raise ValueError exactly for a negative tolerance or a partly-NaN CDF", desc,
                          "err:ValueError" if should_raise else "a value", impl[1] if impl[0] == "err" else "a value")
        else:
            ctx.count("decreasing:error_path")
        if m is not NoModel and not (core.is_err(m) and impl[0] == "err" and impl[1] == m):
            ctx.tie_fail("decreasing_cdfs raises/returns differently from the model", desc, str(impl[1])[:200], str(m)[:200])
        return
    flags = []
    for lb, d in zip(labs, decs):
        sel = dict(zip(dims, lb))
        g = bool(impl[1].sel(sel).values) if sel else bool(impl[1].values)
        flags.append(g)
        if g != (d > Fraction(tol)):
            ctx.violation("decreasing_cdfs does not flag exactly the lines whose total decrease exceeds the tolerance", {**desc, "case": sel, "total_decrease": str(d)},
                          d > Fraction(tol), g)
            break
    if m is NoModel:
        return
    if core.is_err(m):
        ctx.tie_fail("decreasing_cdfs returns a value where the model raises", desc, "value", m)
        return
    for lb, g, mb in zip(labs, flags, m):
        if g != (mb == "true"):
            ctx.tie_fail("decreasing_cdfs differs from the model", {**desc, "case": dict(zip(dims, lb))}, g, mb)
            break


def check_small_tools(ctx):
    rng = ctx.rng
    c = C()
    # ---- propagate_nan
    da, sizes, ths = gen_array(rng, nan_mode=rng.choice(["scatter", "none", "line"]))
    dims, labs, lines = lines_of(da, sizes)
    impl = core.call_impl(c.propagate_nan, da, TD)
    m = mcall(ctx, "c17_propagate", enc_lines(lines))
    desc = {"fn": "propagate_nan", "cdf": gens.da_repr(da)}
    ctx.case(desc)
    ctx.count("propagate_nan")
    if impl[0] != "ok":
        ctx.violation("propagate_nan raises", desc, "a value", impl[1])
    else:
        _, _, got = lines_of(impl[1], sizes)
        for lb, o, g in zip(labs, lines, got):
            want = [None] * len(o) if any(np.isnan(v) for v in o) else [F(v) for v in o]
            if not same_line(g, want):
                ctx.violation("propagate_nan: a line with a NaN is not entirely NaN, or a NaN-free line is changed", {**desc, "case": dict(zip(dims, lb))}, want, g)
                break
        bad = cmp_lines(impl[1], sizes, m) if m is not NoModel else None
        if bad:
            ctx.tie_fail("propagate_nan differs from the model", {**desc, "case": bad[0]}, bad[1], bad[2])
    check_propagate_dataset(ctx, da, sizes)
    check_observed(ctx)
    check_round(ctx)


DS_KEY = "propagate-nan-dataset"


def check_propagate_dataset(ctx, da, sizes):
    """propagate_nan is declared for XarrayLike: on a Dataset with several variables whose NaN positions differ, every variable must come
    back as it does alone as a DataArray (a NaN mask built across variables would couple them)"""
    rng = ctx.rng
    names = ["u", "v", "w"][:rng.randint(2, 3)]
    vs = {}
    for k, n in enumerate(names):
        x = da.copy(data=np.array(da.values, copy=True))
        if k:      # other values and other NaN positions on the same labels
            vals = np.array([rng.randint(0, 8) / 8.0 for _ in range(x.size)], dtype=float).reshape(x.shape)
            hole = np.array([rng.random() < rng.choice([0.0, 0.1, 0.3]) for _ in range(x.size)]).reshape(x.shape)
            x = x.copy(data=np.where(hole, NAN, vals))
        vs[n] = x
    ds = xr.Dataset(vs)
    desc = {"fn": "propagate_nan", "cdf": {n: gens.da_repr(v) for n, v in vs.items()}, "input_type": "Dataset"}
    impl = core.call_impl(C().propagate_nan, ds, TD)
    ctx.case(desc)
    ctx.count("propagate_nan:dataset")
    if impl[0] != "ok":
        ctx.violation("propagate_nan raises on a Dataset (its signature declares XarrayLike)", desc, "a Dataset", impl[1], finding_key=DS_KEY)
        return
    for n in names:
        alone = core.call_impl(C().propagate_nan, vs[n], TD)
        _, labs, want = lines_of(alone[1], sizes)
        _, _, got = lines_of(impl[1][n], sizes) if n in impl[1] else (None, None, None)
        if got is None or any(not same_line(g, [F(v) for v in w_]) for g, w_ in zip(got, want)):
            ctx.violation("propagate_nan on a Dataset: a variable does not come back as it does alone as a DataArray (NaN positions of another "
                          "variable leak into it)", {**desc, "variable": n}, want, got, finding_key=DS_KEY)
            return


EPS = [4e-8, -4e-8, 1 / 3 * 1e-6, 0.123456789e-2]     # more than 7 decimals


def check_observed(ctx, obs_vals=None, tv=None, inc=None, prec=None, dtype=None, omit=None):
    rng = ctx.rng
    c = C()
    if obs_vals is None and rng.random() < 0.15:      # whole-number observations stored as (unsigned) integers
        prec = rng.choice([0, 0, 2, 0.5])
        obs_vals = [float(rng.randint(0, 6)) for _ in range(rng.randint(1, 4))]
        tv = None if rng.random() < 0.3 else [rng.randint(0, 12) / 2.0 for _ in range(rng.randint(1, 4))]
        inc = True if tv is None else rng.random() < 0.5
        dtype = rng.choice([np.uint8, np.uint16, np.int32, np.int64])
    if obs_vals is None:
        n = rng.randint(1, 4)
        prec = rng.choice([0, 0, 0.5, 1, 0.25])
        fine = prec == 0 and rng.random() < 0.5      # without rounding the observations may be any float
        obs_vals = [NAN if rng.random() < 0.15 else rng.randint(0, 16) / 4.0 + (rng.choice(EPS) if fine else 0.0) for _ in range(n)]
        if rng.random() < 0.2:      # an infinite observation is below / above every finite threshold (and is a threshold itself when included)
            obs_vals[rng.randrange(n)] = rng.choice([INF, -INF])
        tv = None if rng.random() < 0.3 else [rng.randint(0, 8) / 2.0 + (rng.choice(EPS + [0.0]) if fine else 0.0) for _ in range(rng.randint(1, 4))]
        inc = True if tv is None else rng.random() < 0.5
    om = set(omit) if omit is not None else omit_some(rng, "observed_cdf")
    tv, inc, prec = (None if "threshold_values" in om else tv), (True if "include_obs_in_thresholds" in om else inc), (0 if "precision" in om else prec)
    if tv is None and not inc:      # nothing to build thresholds from: keep the call meaningful
        inc, om = True, om | {"include_obs_in_thresholds"}
    n = len(obs_vals)
    sizes = {"a": n}
    obs = xr.DataArray(obs_vals, dims=["a"], coords={"a": list(range(n))})
    if dtype is not None:
        obs = obs.astype(dtype)
        ctx.count("observed_cdf:integer_storage")
    desc = {"fn": "observed_cdf", "obs_dtype": str(obs.dtype), "obs": gens.da_repr(obs), "threshold_values": tv, "include_obs_in_thresholds": inc, "precision": prec}
    impl = call_omitting(ctx, c.observed_cdf, "observed_cdf", (obs, TD), dict(threshold_values=tv, include_obs_in_thresholds=inc, precision=prec), om, desc)
    ctx.case(desc, nontrivial=impl[0] == "ok")
    ctx.count("observed_cdf")
    ctx.count("observed_cdf:" + ("include_obs" if inc else "given_thresholds_only") + (":precision" if prec > 0 else ":no_rounding"))
    if any(np.isinf(x) for x in obs_vals):
        ctx.count("observed_cdf:infinite_obs")

    def rnd(x):      # nearest multiple of prec, ties to even (numpy)
        if prec == 0 or np.isnan(x) or np.isinf(x):
            return x
        q = Fraction(x) / Fraction(prec)
        fl = q.numerator // q.denominator
        r = q - fl
        k = fl if r < Fraction(1, 2) else (fl + 1 if r > Fraction(1, 2) else (fl if fl % 2 == 0 else fl + 1))
        return float(k * Fraction(prec))
    ro = [rnd(float(x)) for x in obs_vals]
    grid = sorted(set([x for x in ro if inc and not np.isnan(x)] + [float(x) for x in (tv or [])]))
    all_nan = all(np.isnan(x) for x in obs_vals)
    if all_nan and tv is None:
        if impl[0] != "err":
            ctx.violation("observed_cdf must raise when there is neither a non-NaN observation nor a threshold value", desc, "err:ValueError", "a value")
        else:
            ctx.count("observed_cdf:error_path")
    elif impl[0] != "ok":
        if grid:
            ctx.violation("observed_cdf raises on a valid input", desc, "a value", impl[1])
    else:
        if [float(x) for x in impl[1][TD].values] != grid:
            ctx.violation("observed_cdf: thresholds are not the sorted union of (rounded) observations and supplied values", desc, grid, impl[1][TD].values.tolist())
        else:
            _, labs, got = lines_of(impl[1], sizes)
            for lb, o, g in zip(labs, ro, got):
                want = [None] * len(grid) if np.isnan(o) else [Fraction(1 if t >= o else 0) for t in grid]
                if not same_line(g, want):
                    ctx.violation("observed_cdf is not 1{threshold >= observation} (NaN for a NaN observation)", {**desc, "case": {"a": lb[0]}}, [None if w is None else int(w) for w in want], g)
                    break
            if any(np.isinf(t) for t in grid):      # the model's grid is rational: an infinite threshold is decided by the plain statement above only
                ctx.count("observed_cdf:infinite_threshold_not_tied")
                return
            m = mcall(ctx, "c17_observed_cdf", enc_list([enc_nums(ro), enc_nums(grid)]))
            bad = cmp_lines(impl[1], sizes, m) if m is not NoModel else None
            if bad:
                ctx.tie_fail("observed_cdf differs from the model", {**desc, "case": bad[0]}, bad[1], bad[2])


def check_round(ctx, vals=None, p=None):
    rng = ctx.rng
    c = C()
    if vals is None:
        p = rng.choice([0, 0, 0.5, 0.25, 2, 1, 0.125, -1])
        fine = p == 0 and rng.random() < 0.7
        vals = [NAN if rng.random() < 0.1 else rng.randint(-64, 64) / 16.0 + (rng.choice(EPS) if fine else 0.0) for _ in range(rng.randint(1, 6))]
        if p > 0 and rng.random() < 0.3:      # a precision whose multiples need all 7 final decimals (k/128); values next to, not on, a multiple
            p = 2.0 ** -7
            vals = [rng.randint(-256, 256) / 128.0 + rng.choice([0.001, -0.002, 0.0, 0.003]) for _ in vals]
            ctx.count("round_values:seven_decimals")
        if rng.random() < 0.25:
            vals[rng.randrange(len(vals))] = rng.choice([INF, -INF])
    desc = {"fn": "round_values", "values": vals, "rounding_precision": p}
    # final_round_decpl left out (documented default 7) and written out
    impl = call_omitting(ctx, c.round_values, "round_values", (xr.DataArray(vals, dims=["x"]), p), dict(final_round_decpl=7), {"final_round_decpl"}, desc)
    m = mcall(ctx, "c17_round", enc_list([enc_nums(vals), enc_num(p), enc_bool(True)]))
    if impl[0] == "ok" and p > 0:
        # another number of final decimals: the nearest multiple (exact here: dyadic precision, at most 7 decimals) rounded to that many decimals
        d = rng.choice([0, 1, 2, 3])
        other = core.call_impl(c.round_values, xr.DataArray(vals, dims=["x"]), p, final_round_decpl=d)
        ctx.count("round_values:final_round_decpl_other")
        want = np.round(np.asarray(impl[1].values, dtype=float), d)
        if other[0] != "ok" or not np.array_equal(np.asarray(other[1].values, dtype=float), want, equal_nan=True):
            ctx.violation("round_values(final_round_decpl=d) is not the nearest multiple of the precision rounded to d decimals", {**desc, "final_round_decpl": d},
                          want.tolist(), other[1] if other[0] == "err" else np.asarray(other[1].values).tolist())
    ctx.case(desc, nontrivial=impl[0] == "ok")
    ctx.count("round_values")
    if any(np.isinf(v) for v in vals):
        ctx.count("round_values:infinite")
    if impl[0] == "err" or p < 0:
        if not (impl[0] == "err" and p < 0):
            ctx.violation("round_values raises / does not raise exactly for a negative precision", desc, "err" if p < 0 else "value", impl[0])
        else:
            ctx.count("round_values:error_path")
    else:
        for v, g in zip(vals, impl[1].values):
            if np.isnan(v):
                good = np.isnan(g)
            elif p == 0 or np.isinf(v):
                good = g == v
            else:
                good = abs(g - v) <= p / 2 + 1e-12 and abs(g / p - round(g / p)) <= 1e-9
            if not good:
                ctx.violation("round_values result is not the nearest multiple of the precision (0 = unchanged)", desc, "multiple of p within p/2", float(g))
                break
    if m is NoModel:
        pass
    elif core.is_err(m) or impl[0] == "err":
        if not (core.is_err(m) and impl[0] == "err" and impl[1] == m):
            ctx.tie_fail("round_values raises/returns differently from the model", desc, str(impl[1])[:100], str(m)[:100])
    elif not core.close_list([float(v) for v in impl[1].values], core.dec_nums(m)):
        ctx.tie_fail("round_values differs from the model", desc, impl[1].values.tolist(), m)


def check_integrate(ctx, da=None, sizes=None, ths=None, pw=None, omit=None):
    """integrate_square_piecewise_linear: the sum over the pieces between neighbouring thresholds whose two ordinates are known of
    (x1-x0)(a^2+ab+b^2)/3, times piece_weight at the piece's right end when given (a piece with a NaN weight is skipped); NaN without any
    such piece.  piece_weight left out = piece_weight=None written out."""
    rng = ctx.rng
    if da is None:
        da, sizes, ths = gen_array(rng, nan_mode=rng.choice(["none", "scatter", "line"]))
        om = omit_some(rng, "integrate_square_piecewise_linear", p=0.4)
        if not om and rng.random() < 0.6:
            pw = xr.DataArray([NAN if rng.random() < 0.1 else rng.randint(0, 4) / 4.0 for _ in ths], dims=[TD], coords={TD: [t / 2.0 for t in ths]})
    else:
        om = set(omit or ())
    desc = {"fn": "integrate_square_piecewise_linear", "function_values": gens.da_repr(da), "piece_weight": None if pw is None else gens.da_repr(pw)}
    impl = call_omitting(ctx, C().integrate_square_piecewise_linear, "integrate_square_piecewise_linear", (da, TD), dict(piece_weight=pw), om, desc)
    ctx.case(desc, nontrivial=impl[0] == "ok")
    ctx.count("integrate")
    if pw is not None:
        ctx.count("integrate:piece_weight")
    if impl[0] != "ok":
        ctx.violation("integrate_square_piecewise_linear raises", desc, "a value", impl[1])
        return
    dims, labs, lines = lines_of(da, sizes)
    xs = [Fraction(t) / 2 for t in sorted(ths)]
    ws = None if pw is None else [F(float(v)) for v in pw.sortby(TD).values]
    for lb, l in zip(labs, lines):
        sel = dict(zip(dims, lb))
        tot, any_piece = Fraction(0), False
        for i in range(1, len(l)):
            a, b = F(l[i - 1]), F(l[i])
            if a is None or b is None or (ws is not None and ws[i] is None):
                continue
            any_piece = True
            tot += (xs[i] - xs[i - 1]) * (a * a + a * b + b * b) / 3 * (1 if ws is None else ws[i])
        g = float(impl[1].sel(sel).values) if sel else float(impl[1].values)
        if not (np.isnan(g) if not any_piece else (not np.isnan(g) and abs(g - float(tot)) <= 1e-9)):
            ctx.violation("integrate_square_piecewise_linear is not the (piece-weighted) integral of the squared piecewise-linear function over the "
                          "pieces with known end values", {**desc, "case": sel}, str(tot) if any_piece else "nan", g)
            break


def crps_of(fc, obs, sizes, add, ffm, im, extra=()):
    import scores.probability as P
    kw = dict(threshold_dim=TD, additional_thresholds=add, fcst_fill_method=ffm, integration_method=im)
    dims = sorted(sizes) + list(extra)
    if dims:
        kw["preserve_dims"] = dims
    return core.call_impl(P.crps_cdf, fc, obs, **kw)


def check_adjust(ctx, given=None):
    import scores.probability as P
    rng = ctx.rng
    if given is not None:
        return _check_adjust(ctx, *given)
    lack = rng.random() < 0.3      # the observation lacks a forecast dimension: several CDFs are verified against one observation
    da, sizes, ths = gen_array(rng, nan_mode=rng.choice(["none", "none", "scatter", "line"]), nmin=2, nmax=6, extra=rng.choice([1, 2, 2]) if lack else None)
    odims = {d: sizes[d] for d in sizes if rng.random() < 0.7}
    big = [d for d in sizes if sizes[d] >= 2]
    if lack and big and all(d in odims for d in big):
        odims.pop(rng.choice(big))
    on = int(np.prod([odims[d] for d in odims])) if odims else 1

    def ov():
        r = rng.random()
        if r < 0.08:
            return NAN
        if r < 0.5:
            return rng.choice(ths) / 2.0
        return rng.randint(2 * ths[0] - 6, 2 * ths[-1] + 6) / 4.0
    od = list(odims)
    rng.shuffle(od)
    obs = xr.DataArray(np.array([ov() for _ in range(on)], dtype=float).reshape([odims[d] for d in od]), dims=od,
                       coords={d: rng.sample(range(odims[d]), odims[d]) for d in od})
    dims, labs, lines = lines_of(da, sizes)
    plines = [[NAN] * len(l) if any(np.isnan(v) for v in l) else l for l in lines]
    decs = [sum((Fraction(a) - Fraction(b) for a, b in zip(l, l[1:]) if not (np.isnan(a) or np.isnan(b)) and a > b), Fraction(0)) for l in plines]
    r = rng.random()
    tol = 0.0 if r < 0.55 else (float(rng.choice(decs)) if r < 0.8 else rng.randint(0, 4) / 8.0)
    if rng.random() < 0.05:
        tol = -0.125
    add = None if rng.random() < 0.6 else [rng.randint(2 * ths[0] - 4, 2 * ths[-1] + 4) / 4.0 for _ in range(rng.randint(1, 3))]
    ffm = rng.choice(FILLS)
    im = rng.choice(["exact", "trapz"])
    tr = pick_tr(rng)
    if tr is not None:
        da = moved(da, ths, tr)
        obs = obs.copy(data=tr[0] + tr[1] * np.asarray(obs.values, dtype=float))
        add = None if add is None else [mv(x, tr) for x in add]
    om = omit_some(rng, "adjust_fcst_for_crps")      # arguments left out: the call is the one with their documented defaults
    D = DOC["adjust_fcst_for_crps"]
    tol, add, ffm, im = (D["decreasing_tolerance"] if "decreasing_tolerance" in om else tol), (None if "additional_thresholds" in om else add), \
        (D["fcst_fill_method"] if "fcst_fill_method" in om else ffm), (D["integration_method"] if "integration_method" in om else im)
    if tol >= 0 and rng.random() < 0.25:
        adjust_inf_obs(ctx, da, obs, tol, add, ffm, im)
    return _check_adjust(ctx, da, sizes, ths, obs, tol, add, ffm, im, tr, om)


ADJ_INF_KEY = "adjust-infinite-observation"


def adjust_inf_obs(ctx, da, obs, tol, add, ffm, im):
    """an infinite observation has no finite CRPS: adjust_fcst_for_crps must treat it like a missing one (that case keeps its original CDF)
    and must adjust every other case exactly as without it -- relation between two public calls"""
    import scores.probability as P
    rng = ctx.rng
    ov = np.asarray(obs.values, dtype=float)
    vi, vn = ov.copy().ravel(), ov.copy().ravel()
    for k in set(rng.sample(range(ov.size), rng.randint(1, max(1, ov.size // 2)))):
        vi[k], vn[k] = rng.choice([INF, -INF]), NAN
    oi, on = obs.copy(data=vi.reshape(ov.shape)), obs.copy(data=vn.reshape(ov.shape))
    kw = dict(decreasing_tolerance=tol, additional_thresholds=add, fcst_fill_method=ffm, integration_method=im)
    a = core.call_impl(P.adjust_fcst_for_crps, da, TD, oi, **kw)
    b = core.call_impl(P.adjust_fcst_for_crps, da, TD, on, **kw)
    desc = {"fn": "adjust_fcst_for_crps", "fcst": gens.da_repr(da), "obs": gens.da_repr(oi), "decreasing_tolerance": tol, "additional_thresholds": add,
            "fcst_fill_method": ffm, "integration_method": im}
    ctx.case(("adjust_inf", desc))
    ctx.count("adjust:inf_obs_as_missing")
    if b[0] != "ok":
        return
    if a[0] != "ok":
        ctx.violation("adjust_fcst_for_crps raises for an infinite observation (a missing observation at the same place does not)", desc, "a value", a[1],
                      finding_key=ADJ_INF_KEY)
        return
    x, y = xr.broadcast(a[1], b[1])
    if not np.allclose(np.asarray(x.values, dtype=float), np.asarray(y.values, dtype=float), rtol=0, atol=1e-12, equal_nan=True):
        ctx.violation("adjust_fcst_for_crps: an infinite observation changes the adjustment of other forecast cases (it must act like a missing "
                      "observation: its own case keeps the original CDF, every other case is adjusted as without it)", desc,
                      np.asarray(y.values).tolist(), np.asarray(x.values).tolist(), finding_key=ADJ_INF_KEY)


def _check_adjust(ctx, da, sizes, ths, obs, tol, add, ffm, im, tr=None, om=()):
    import scores.probability as P
    dims, labs, lines = lines_of(da, sizes)
    plines = [[NAN] * len(l) if any(np.isnan(v) for v in l) else l for l in lines]
    decs = [sum((Fraction(a) - Fraction(b) for a, b in zip(l, l[1:]) if not (np.isnan(a) or np.isnan(b)) and a > b), Fraction(0)) for l in plines]
    desc = {"fn": "adjust_fcst_for_crps", "fcst": gens.da_repr(da), "obs": gens.da_repr(obs), "decreasing_tolerance": tol, "additional_thresholds": add,
            "fcst_fill_method": ffm, "integration_method": im}
    impl = call_omitting(ctx, P.adjust_fcst_for_crps, "adjust_fcst_for_crps", (da, TD, obs),
                         dict(decreasing_tolerance=tol, additional_thresholds=add, fcst_fill_method=ffm, integration_method=im), set(om), desc)
    cases = []
    obs_of = []
    for lb, l in zip(labs, lines):
        sel = {d: v for d, v in zip(dims, lb) if d in obs.dims}
        o = float(obs.sel(sel).values) if sel else float(obs.values)
        obs_of.append(o)
        cases.append(enc_list([enc_nums(l), enc_num(o)]))
    m = mcall(ctx, "c17_adjust", enc_list([enc_nums(thr_values(ths, tr)), enc_list(cases), enc_nums(add or []), enc_str(ffm), enc_str(im), enc_num(tol)]))
    flagged = [d > Fraction(tol) for d in decs]
    if any(flagged):
        ctx.sample(desc, limit=3)
    ctx.case(desc, nontrivial=impl[0] == "ok" and any(flagged))
    ctx.count("adjust:" + ("some_decreasing" if any(flagged) else "none_decreasing"))
    if tr is not None:
        ctx.count("adjust:thresholds_far_from_zero")
    if any(sizes[d] >= 2 and d not in obs.dims for d in sizes):
        ctx.count("adjust:obs_lacks_fcst_dim")
    if any(flagged) and any(d > 0 and not f for d, f in zip(decs, flagged)):
        ctx.count("adjust:tolerated_dip_next_to_flagged")
    if impl[0] == "err" or tol < 0:
        if not (impl[0] == "err" and tol < 0 and impl[1] == "err:ValueError"):
            ctx.violation("adjust_fcst_for_crps raises / does not raise ValueError exactly for a negative decreasing_tolerance", desc,
                          "err:ValueError" if tol < 0 else "a value", impl[1] if impl[0] == "err" else "a value")
        else:
            ctx.count("adjust:error_path")
        if m is not NoModel and not (core.is_err(m) and impl[0] == "err" and impl[1] == m):
            ctx.tie_fail("adjust_fcst_for_crps raises / returns differently from the model", desc, str(impl[1])[:200], str(m)[:200])
        return
    _, _, got = lines_of(impl[1], sizes)
    near_tie = [False] * len(labs)
    # ---- predicates between public calls: which candidate must have been returned
    if not any(flagged):
        for lb, pl, g in zip(labs, plines, got):
            if not same_line(g, [F(v) for v in pl]):
                ctx.violation("adjust_fcst_for_crps changes a forecast that does not decrease beyond the tolerance (only NaN propagation is allowed)",
                              {**desc, "case": dict(zip(dims, lb))}, pl, g)
                break
    else:
        pda = core.call_impl(C().propagate_nan, da, TD)
        env = core.call_impl(C().cdf_envelope, pda[1], TD) if pda[0] == "ok" else ("err", None)
        sc = crps_of(env[1], obs, sizes, add, ffm, im, extra=["cdf_type"]) if env[0] == "ok" else ("err", None)
        if sc[0] == "ok":
            order = ["original", "upper", "lower"]
            for ci, (lb, pl, g, fl) in enumerate(zip(labs, plines, got, flagged)):
                sel = dict(zip(dims, lb))
                if not fl:
                    want, which = pl, "original (not flagged)"
                else:
                    tots = [float(sc[1]["total"].sel({**sel, "cdf_type": n}).values) for n in order]
                    fin = [(t, k) for k, t in enumerate(tots) if not np.isnan(t)]
                    if not fin:
                        want, which = pl, "original (all scores NaN)"
                    else:
                        best = max(t for t, _ in fin)
                        ties = [k for t, k in fin if abs(t - best) <= 1e-12]
                        cand = [lines_of(env[1].sel(cdf_type=n).sel(sel) if sel else env[1].sel(cdf_type=n), {})[2][0] for n in order]
                        if not any(same_line(g, [F(v) for v in cand[k]]) for k in ties) or (len(ties) == 1 and not same_line(g, [F(v) for v in cand[ties[0]]])):
                            ctx.violation("adjust_fcst_for_crps does not return the candidate (original, upper, lower) with the largest CRPS for a flagged case",
                                          {**desc, "case": sel, "crps": dict(zip(order, tots))}, order[ties[0]], g)
                            break
                        # first maximal candidate wins a tie (exact ties only)
                        exact_ties = [k for t, k in fin if t == best]
                        near_tie[ci] = len(ties) > len(exact_ties)
                        if len(exact_ties) > 1 and not same_line(g, [F(v) for v in cand[exact_ties[0]]]) and \
                                not any(same_line(cand[exact_ties[0]], [F(v) for v in cand[k]]) for k in exact_ties[1:]):
                            ctx.violation("adjust_fcst_for_crps breaks a CRPS tie in the wrong order (documented: original, then upper, then lower)",
                                          {**desc, "case": sel, "crps": dict(zip(order, tots))}, order[exact_ties[0]], g)
                            break
                        ctx.count("adjust:chosen_" + order[ties[0]])
                        continue
                if not same_line(g, [F(v) for v in want]):
                    ctx.violation("adjust_fcst_for_crps changes a case that must stay as it is: " + which, {**desc, "case": sel}, want, g)
                    break
    # never flatters: CRPS(adjusted) >= CRPS(original) per case, same options
    a = crps_of(impl[1], obs, sizes, add, ffm, im)
    b = crps_of(da, obs, sizes, add, ffm, im)
    if a[0] == "ok" and b[0] == "ok":
        ctx.count("adjust:never_flatters_checked")
        for lb in labs:
            sel = dict(zip(dims, lb))
            x = float(a[1]["total"].sel(sel).values) if sel else float(a[1]["total"].values)
            y = float(b[1]["total"].sel(sel).values) if sel else float(b[1]["total"].values)
            if not (np.isnan(y) or x >= y - 1e-12):
                ctx.violation("adjust_fcst_for_crps lowers the CRPS of a forecast case", {**desc, "case": sel}, f">= {y}", x)
                break
    # ---- tie (a case whose best CRPS values agree to 1e-12 without being bit-equal is decided by binary64 rounding in the
    # implementation and by exact arithmetic in the model: such near ties are not compared)
    if m is NoModel:
        return
    if core.is_err(m):
        ctx.tie_fail("adjust_fcst_for_crps returns a value where the model raises", desc, "value", m)
        return
    for lb, g, ml, nt in zip(labs, got, m, near_tie):
        if nt:
            ctx.count("adjust:near_tie_not_compared")
            continue
        q = core.dec_nums(ml)
        if not core.close_list(g, q):
            ctx.tie_fail("adjust_fcst_for_crps differs from the model", {**desc, "case": dict(zip(dims, lb))}, g, [str(x) for x in q])
            break


TIE_CORPUS = [
    # exact CRPS ties between different candidates (trapz on dyadic data: ties are bit-exact); documented order original, upper, lower
    dict(line=[1.0, 0.0, 0.0], obs=1.5, expect="original"),          # original = upper > lower
    dict(line=[0.25, 0.5, 0.0], obs=1.5, expect="original"),         # original = lower > upper
    dict(line=[0.5, 0.0, 1.0, 0.5], obs=2.0, expect="upper"),        # upper = lower > original
    dict(line=[1.0, 0.5, 0.5, 0.0], obs=2.0, expect="original"),     # three-way tie
]


def corpus(ctx):
    import scores.probability as P
    for k in TIE_CORPUS:
        n = len(k["line"])
        fc = xr.DataArray([k["line"]], dims=["s", TD], coords={"s": [0], TD: [float(i) for i in range(n)]})
        ob = xr.DataArray([k["obs"]], dims=["s"], coords={"s": [0]})
        r = core.call_impl(P.adjust_fcst_for_crps, fc, TD, ob, integration_method="trapz")
        env = C().cdf_envelope(fc, TD)
        want = [float(v) for v in env.sel(cdf_type=k["expect"]).values[0]]
        got = [float(v) for v in r[1].transpose("s", TD).values[0]] if r[0] == "ok" else r[1]
        ctx.case(("tie_corpus", str(k)))
        ctx.count("adjust:tie_corpus")
        if got != want:
            ctx.violation("adjust_fcst_for_crps breaks a CRPS tie in the wrong order (documented: original, then upper, then lower)",
                          {"fcst": k["line"], "thresholds": list(range(n)), "obs": k["obs"], "integration_method": "trapz"}, {k["expect"]: want}, got)


def run_without_model(ctx):
    """the extracted model does not build against the current source: the plain-Python predicates need no model"""
    ctx.no_model = True
    run(ctx)


def probes(ctx):
    """boundaries no random dyadic case reaches: total decrease exactly at / just above the tolerance; precision 0 with more than 7 decimals;
    envelope of lines whose decreases sit across NaN gaps only"""
    def arr(lines, ths):
        return xr.DataArray(np.array(lines, dtype=float), dims=["a", TD], coords={"a": list(range(len(lines))), TD: [t / 2.0 for t in ths]})
    ths = [0, 2, 4, 6]
    # (line, tolerance): just above (must be flagged), exactly at (must not), just below (must not)
    for lines, tol in [([[0, .5, .3999995, 1], [0, .5, .4000005, 1], [0, .5, .39, 1]], 0.1),
                       ([[0, .5, .375, 1], [0, .5, .374999995, 1], [0, .5, .375000005, 1]], 0.125),
                       ([[0, .5, .499999995, 1], [0, .5, .5, 1], [0, .5, .5 - 1e-12, 1]], 0.0),
                       ([[.25, .125, .75, .625], [.25, .125, .75, .62499999], [.25, .125, .75, .62500001]], 0.25),
                       ([[0, 1, 1 - 2e-5, 1], [0, 1, 1 - 5e-6, 1]], 1e-5)]:
        check_decreasing(ctx, arr(lines, ths), {"a": len(lines)}, ths, tol)
        ctx.count("probe:decreasing_boundary")
    # adjust on a line whose decrease is just above the tolerance: it must be treated as flagged (argmax of the three candidates)
    obs_vals = [-1.0, 0.25, 0.75, 1.25, 1.75, 2.25, 2.75, 4.0]
    for line, tol in [([0, .5, .3999995, 1], 0.1), ([.25, .125, .75, .62499999], 0.25), ([.75, .25, .5, .125], 0.875 - 1e-6)]:
        da = arr([line] * len(obs_vals), ths)
        ob = xr.DataArray(obs_vals, dims=["a"], coords={"a": list(range(len(obs_vals)))})
        for im in ("exact", "trapz"):
            check_adjust(ctx, given=(da, {"a": len(obs_vals)}, ths, ob, tol, None, "linear", im))
            ctx.count("probe:adjust_boundary")
    # the candidates must be ranked with the caller's options: a dense set of additional thresholds changes the trapezoidal (and the
    # step / forward / backward filled) CRPS, hence possibly the winner
    dense = [k / 4.0 for k in range(0, 13)]
    dips = [[0, 1, .75, 1], [0, .5, 1, .75], [.5, .25, 1, .5], [.25, 0, .25, 1], [1, .5, .75, .25]]
    obs_d = [0.5, 1.0, 1.5, 2.0, 2.5]
    lines = [l for l in dips for _ in obs_d]
    da = arr(lines, ths)
    ob = xr.DataArray(obs_d * len(dips), dims=["a"], coords={"a": list(range(len(lines)))})
    for ffm, im in [("linear", "trapz"), ("step", "exact"), ("forward", "trapz"), ("backward", "exact")]:
        check_adjust(ctx, given=(da, {"a": len(lines)}, ths, ob, 0.0, dense, ffm, im))
        ctx.count("probe:adjust_dense_additional_thresholds")
    # a positive tolerance with, in ONE array, CDFs whose dip exceeds it (flagged: replaced by the worst candidate) and CDFs whose dip stays
    # within it (must come back unchanged although their upper / lower envelope has a larger CRPS)
    mixed = [[0, .5, .375, 1], [0, .75, .25, 1], [.25, .125, .5, 1], [0, .5, 1, .25], [0, .25, .5, 1], [0, 1, .875, .875]]
    for tol in (0.125, 0.25):
        for ov in (0.5, 1.0, 1.25, 2.0, 2.75):
            da = arr(mixed, ths)
            ob = xr.DataArray([ov] * len(mixed), dims=["a"], coords={"a": list(range(len(mixed)))})
            for ffm, im in (("linear", "exact"), ("linear", "trapz")):
                check_adjust(ctx, given=(da, {"a": len(mixed)}, ths, ob, tol, None, ffm, im))
                ctx.count("probe:adjust_tolerated_next_to_flagged")
    # forecast dimensions the observation lacks (several lead times / members verified against one observation): the candidate is chosen
    # per forecast CASE, not per observation.  Lines whose worst candidate differs (dip below the observation -> upper envelope is worst,
    # dip above it -> lower envelope is worst, non-decreasing, dip at both ends) share one observation.
    ths7 = [0, 2, 4, 6, 8, 10, 12]
    pool = [[0.0, 0.5, 0.125, 0.5, 0.625, 0.875, 1.0], [0.0, 0.125, 0.375, 0.625, 0.875, 0.75, 1.0], [0.0, 0.125, 0.25, 0.5, 0.75, 0.875, 1.0],
            [0.25, 0.0, 0.375, 0.5, 1.0, 0.625, 1.0]]
    cube = np.array([[pool[(i + j) % 4] for j in range(2)] for i in range(4)], dtype=float)
    da = xr.DataArray(cube, dims=["a", "b", TD], coords={"a": [0, 1, 2, 3], "b": [0, 1], TD: [t / 2.0 for t in ths7]})
    for ob in (xr.DataArray([3.0, 2.5], dims=["b"], coords={"b": [0, 1]}), xr.DataArray(3.0), xr.DataArray([3.0, 1.0, 4.5, 2.75], dims=["a"], coords={"a": [0, 1, 2, 3]})):
        for ffm, im in (("linear", "exact"), ("linear", "trapz"), ("step", "exact")):
            check_adjust(ctx, given=(da, {"a": 4, "b": 2}, ths7, ob, 0.0, None, ffm, im))
            ctx.count("probe:adjust_obs_lacks_fcst_dim")
    # observed_cdf: every combination of include_obs_in_thresholds x precision, with observations that are not multiples of the precision
    # and thresholds between the raw and the rounded observation (inclusive at the rounded end)
    for prec, ovals, tvals in ((0.25, [0.875 + 1 / 64, 0.625 - 1 / 64, 2.0, NAN], [0.75, 0.875, 1.0, 0.5, 0.625]),
                               (0.5, [0.8125, 1.25, 1.75, -0.3125], [0.75, 0.8125, 1.0, 1.5, 2.0, -0.5, -0.25]),
                               (1, [0.5, 1.5, 2.5, 0.4375], [0, 0.4375, 0.5, 1, 2, 3])):
        for inc in (True, False):
            check_observed(ctx, ovals, tvals, inc, prec)
            check_observed(ctx, ovals, tvals, inc, 0)
            ctx.count("probe:observed_cdf_options", 2)
    # arrays that are entirely NaN (single CDF and small batch): every tool returns NaN / leaves them alone, none raises
    for lines in ([[NAN, NAN, NAN]], [[NAN, NAN, NAN], [NAN, NAN, NAN]]):
        an = arr(lines, [0, 2, 4])
        sz = {"a": len(lines)}
        for method in FILLS:
            check_fill(ctx, an, sz, [0, 2, 4], method, 2)
            check_add_thresholds(ctx, given=(an, sz, [0, 2, 4], [0.5, 3.0], method, 2))
        check_envelope(ctx, an, sz)
        check_decreasing(ctx, an, sz, [0, 2, 4], 0.0)
        ob = xr.DataArray([0.5] * len(lines), dims=["a"], coords={"a": list(range(len(lines)))})
        check_adjust(ctx, given=(an, sz, [0, 2, 4], ob, 0.0, None, "linear", "exact"))
        # every CDF has one NaN ordinate (the array is all NaN once propagated)
        part = arr([[0.5, NAN, 0.25]] * len(lines), [0, 2, 4])
        check_adjust(ctx, given=(part, sz, [0, 2, 4], ob, 0.0, None, "linear", "exact"))
        ctx.count("probe:all_nan_array")
    # error paths: fill_cdf with an unknown method name; add_thresholds('linear') with min_nonnan below 2; observed_cdf with nothing to build
    # thresholds from
    check_fill(ctx, arr([[0, NAN, 1]], [0, 2, 4]), {"a": 1}, [0, 2, 4], "cubic", 2)
    check_add_thresholds(ctx, given=(arr([[0, 0.5, 1]], [0, 2, 4]), {"a": 1}, [0, 2, 4], [0.5], "linear", 1))
    check_add_thresholds(ctx, given=(arr([[0, 0.5, 1], [NAN, 0.25, NAN]], [0, 2, 4]), {"a": 2}, [0, 2, 4], [0.5, 1e6, -1e6], "linear", 2))
    check_observed(ctx, [NAN, NAN], None, True, 0)
    check_decreasing(ctx, arr([[0, 0.5, 1]], [0, 2, 4]), {"a": 1}, [0, 2, 4], -0.125)          # negative tolerance
    check_decreasing(ctx, arr([[0, NAN, 1], [0, 0.5, 1]], [0, 2, 4]), {"a": 2}, [0, 2, 4], 0.0)  # a partly-NaN CDF
    check_round(ctx, [0.5, 1.25], -1)
    check_round(ctx, [3 / 128 + 0.001, 135 / 128 - 0.002, -59 / 128, 1 / 128], 2.0 ** -7)      # multiples with 7 decimals: final_round_decpl=7 keeps them
    ctx.count("round_values:seven_decimals")
    # every optional argument of observed_cdf / adjust_fcst_for_crps left out, one at a time and all at once, on data where each default
    # matters (observations that are not multiples of 1/2 and not among threshold_values; a dip the tolerance 0 flags; observations between
    # thresholds so that the fill method and the integration method change the ranking)
    D = DOC["observed_cdf"]
    for k in list(D) + [list(D)]:
        for inc in (True, False):
            check_observed(ctx, [0.8125, 1.25, NAN, 2.0], [0.75, 1.0, 1.5], inc, 0.5, omit=[k] if isinstance(k, str) else k)
    D = DOC["adjust_fcst_for_crps"]
    da = arr(dips, ths)
    ob = xr.DataArray([0.75, 1.25, 1.75, 2.25, 2.75], dims=["a"], coords={"a": list(range(len(dips)))})
    for k in list(D) + [list(D)]:
        om = {k} if isinstance(k, str) else set(k)
        for tol, add, ffm, im in ((0.25, dense, "step", "trapz"), (0.5, [1.25, 2.75], "backward", "trapz")):
            tol, add, ffm, im = (0 if "decreasing_tolerance" in om else tol), (None if "additional_thresholds" in om else add), \
                ("linear" if "fcst_fill_method" in om else ffm), ("exact" if "integration_method" in om else im)
            _check_adjust(ctx, da, {"a": len(dips)}, ths, ob, tol, add, ffm, im, None, om)
    ctx.count("probe:defaults")
    # envelope of CDFs whose decreases all sit across NaN gaps (gap of 1-3 NaN; drop tiny / moderate / full; also leading and trailing NaN
    # and two gaps): together in one array in which no neighbouring pair decreases, each alone (1-D), next to a line with a neighbouring
    # decrease, and with the threshold dimension first
    gl = []
    for g in (1, 2, 3):
        for a, d in ((0.6, 1e-9), (0.6, 0.2), (0.7, 0.3), (1.0, 1.0)):
            gl.append([0.0, a] + [NAN] * g + [a - d, 1.0] + [NAN] * (3 - g))
    gl += [[NAN, 0.9, NAN, 0.3, NAN, 0.1, 0.2], [0.5, NAN, 0.25, 0.25, NAN, 0.0, NAN], [NAN, NAN, 0.8, NAN, NAN, 0.1, NAN], [0.2, 0.4, NAN, 0.4, NAN, 0.4, 1.0]]
    gths = [0, 1, 3, 4, 7, 8, 10]
    check_envelope(ctx, arr(gl, gths), {"a": len(gl)}, alone=True)
    check_envelope(ctx, arr(gl + [[0.0, 0.5, 0.25, 0.75, 1.0, 1.0, 1.0]], gths), {"a": len(gl) + 1})
    check_envelope(ctx, contiguous(arr(gl[:5], gths).transpose(TD, "a")), {"a": 5})
    ctx.count("probe:envelope_decrease_across_nan_gap", 3)
    # precision 0 = no rounding at all, however many decimals
    check_round(ctx, [1 / 3, 0.123456789, 2.00000004, -1.999999996, 5e-9], 0)
    check_round(ctx, [1 / 3, 0.123456789], 0.0)
    for inc in (True, False):
        check_observed(ctx, [1.00000004, 2.49999997, 1 / 3], [1.0, 1.00000002, 1.0000001, 2.5, 0.3333333], inc, 0)
    check_observed(ctx, [1.00000004, 0.99999996], None, True, 0)
    ctx.count("probe:precision_zero", 5)


def replay(ctx, obj):
    """re-run the generation that produced the replay file: every case derives from the recorded seed and tier"""
    ctx.rng.seed(obj.get("seed", ctx.seed))
    ctx.tier = obj.get("tier", ctx.tier)
    run(ctx)


def sweep(ctx):
    """every line of length 1-4 over {NaN, 0, 1/2, 1}: envelope; fill (4 methods x min_nonnan 1-3); decreasing (NaN-free and all-NaN lines)"""
    vals = [NAN, 0.0, 0.5, 1.0]
    for n in (1, 2, 3, 4):
        lines = list(itertools.product(vals, repeat=n))
        ths = list(range(0, 2 * n, 2))
        da = xr.DataArray(np.array(lines, dtype=float), dims=["a", TD], coords={"a": list(range(len(lines))), TD: [t / 2.0 for t in ths]})
        sizes = {"a": len(lines)}
        check_envelope(ctx, da, sizes, alone=True)
        # the same lines split by class, so that each class is seen without the others in the array: no neighbouring decrease anywhere
        # (the decreases that remain sit across NaN gaps), no NaN anywhere, both
        for sub in ([l for l in lines if not adjacent_decrease(l)], [l for l in lines if not any(np.isnan(v) for v in l)],
                    [l for l in lines if hidden_decrease(l)]):
            if sub and len(sub) < len(lines):
                check_envelope(ctx, xr.DataArray(np.array(sub, dtype=float), dims=["a", TD], coords={"a": list(range(len(sub))), TD: [t / 2.0 for t in ths]}),
                               {"a": len(sub)})
        for method in FILLS:
            for mn in (1, 2, 3):
                if method == "linear" and mn < 2:
                    continue
                check_fill(ctx, da, sizes, ths, method, mn)
        # add_thresholds over the same lines (every number of known points, 0 .. n): new thresholds between / outside / on the given ones,
        # every fill method x min_nonnan 1-3 (1 is valid for step / forward / backward) and min_nonnan left out
        newt = [-0.5, 0.5, float(n) - 0.5, 0.0, float(n) + 1.0]
        for method in FILLS + ["none"]:
            for mn in (1, 2, 3):
                if method == "linear" and mn < 2:
                    continue
                check_add_thresholds(ctx, given=(da, sizes, ths, newt, method, mn))
            check_add_thresholds(ctx, given=(da, sizes, ths, newt, method, 2, True))
        check_integrate(ctx, da, sizes, ths, None, {"piece_weight"})
        check_integrate(ctx, da, sizes, ths, xr.DataArray([[1.0, 0.0, 0.5, NAN][k % 4] for k in range(n)], dims=[TD], coords={TD: [t / 2.0 for t in ths]}))
        clean = [l for l in lines if all(np.isnan(v) for v in l) or not any(np.isnan(v) for v in l)]
        dc = xr.DataArray(np.array(clean, dtype=float), dims=["a", TD], coords={"a": list(range(len(clean))), TD: [t / 2.0 for t in ths]})
        for tol in (0.0, 0.5, 1.0):
            check_decreasing(ctx, dc, {"a": len(clean)}, ths, tol)
        ctx.count("sweep_lines", len(lines))


def run(ctx):
    corpus(ctx)
    probes(ctx)
    sweep(ctx)
    n = ctx.n(70, 1500)
    for i in range(n):
        if not ctx.time_left():
            ctx.note(f"time budget reached after {i} rounds")
            break
        check_envelope(ctx)
        check_fill(ctx)
        check_add_thresholds(ctx)
        check_decreasing(ctx)
        check_small_tools(ctx)
        check_integrate(ctx)
        check_adjust(ctx)
        check_adjust(ctx)
