"""C11 -- Murphy scores match the elementary definition; murphy_thetas cover every kink; integral over theta."""
from fractions import Fraction as Fr

import numpy as np
import xarray as xr

import core
import gens
from core import enc_arr, enc_bool, enc_dimspec, enc_list, enc_num, enc_opt, enc_str

ID = "C11"
LEVEL = "proof"
LEVEL_TEXT = ("Coq theorems for all rational inputs about the three elementary scores and the NaN merge pipeline regenerated from the current "
              "source (penalty regions obs <= theta < fcst / fcst <= theta < obs, penalty sizes, total = under + over, zero outside the data range), "
              "about the model of murphy_thetas (sorted, duplicate- and NaN-free, complete: between consecutive thetas every case's curve is "
              "constant resp. affine) and, with the real Riemann integral of Coquelicot, that the integral over theta is the pinball / half "
              "asymmetric squared / asymmetric Huber loss. The array plumbing and murphy_thetas are a hand model tied by a correspondence check on "
              "every run. Proof is the right level: which side of an interval is closed, and whether every kink is in the theta set, are statements "
              "about all thetas between grid points.")
LEVEL_NOTE = ("trusted: translator + Xval semantics (validated by correspondence), extraction, harness; the R-level integral theorem uses the "
              "standard Reals/Coquelicot axioms reported by Print Assumptions; binary64 rounding is not modelled (tolerance 1e-9)")
TECHNIQUE = "Coq proof (Q-level axiom-free; Coquelicot is_RInt for the integral over theta) over translator-regenerated kernels + extracted-model correspondence"
SITES = ["C11.q", "C11.h", "C11.e", "C11.merge"]
RULE = ("kernel level: full tie grid (fcst, obs, theta on a common dyadic grid so theta == fcst and theta == obs occur, NaN, +-inf) for the three "
        "functionals, with the extended-real specification value wherever no argument is NaN; +-inf forecasts / observations / thetas also in "
        "the oracle grid, the oracle means and the model tie of murphy_score and murphy_thetas; function level: structured random cases (1-3 dims of size 1-3, obs on a random subset, values on the grid k/2, NaN "
        "injected, thetas as list or DataArray containing forecast and observation values, functional spelled in mixed case, decomposition "
        "on/off, all request spellings, malformed alpha / huber_a / functional); murphy_thetas with 1-3 forecast sources, NaN, +-inf, "
        "left_limit_delta and huber_a from a grid; a case is distinct by the hash of (function, inputs, options) and non-trivial when it "
        "yields a finite value, a non-empty theta list or exercises an error path")
ASSUMPTIONS = ["labelled inputs carry identical label sets along shared dimensions (storage order and dimension order vary freely)"]
TRUSTED = ["R-level theorems (coq/proofs/C11_RInt.v): Coq Reals + Coquelicot and their standard axioms, as listed per theorem"]

INF = float("inf")
NAN = float("nan")
# counters every complete run must have incremented (one per predicate family / input class); see core.run_check
EXPECT_COUNTS = ["kernel_grid_points", "kernel_grid:infinite-spec", "oracle_grid_points", "oracle_grid:infinite", "oracle_means:list", "oracle_means:da",
                 "oracle_means:da_b", "oracle_means:infinite", "oracle_means:obs-only-dim", "murphy:obs-only-dim", "murphy:defaults-omitted",
                 "murphy:defaults-explicit", "thetas:defaults-omitted", "thetas:defaults-explicit", "defaults_corpus", "murphy:ok", "murphy:err", "murphy:infinite", "functional:quantile", "functional:huber",
                 "functional:expectile", "thetas:DataArray", "thetas:list", "thetas:ok", "thetas:err", "thetas:infinite-forecast", "thetas:infinite-obs",
                 "dtype:int", "dtype:float32", "diagram_rounds", "diagram:infinite", "guard_probes", "ragged_corpus", "label_sets_corpus", "fine_thetas"]
# repaired by repo_fixes/murphy-infinite-forecast.diff: an infinite forecast scored 0 for the quantile and Huber functionals
KEY_INF_FCST = "murphy-infinite-forecast"
FUNCS = ["quantile", "huber", "expectile"]
ALPHAS = [Fr(1, 10), Fr(1, 4), Fr(1, 2), Fr(3, 4)]
HUBERS = [Fr(1, 2), Fr(1), Fr(5, 2)]
NAMES = ["total", "underforecast", "overforecast"]


def S():
    import scores.continuous as C
    return C


def M():
    import scores.continuous.murphy_impl as m
    return m


def spell(rng, fn):
    r = rng.random()
    return fn if r < 0.6 else fn.upper() if r < 0.8 else fn.capitalize()


def mk(rng, sizes, dims, perms, nan_p=0.0, den=2, bound=4):
    dims = list(dims)
    da = gens.rand_da(rng, sizes, dims=dims, den=den, bound=bound, nan_p=nan_p, shuffle=False)
    da = da.isel({d: perms[d] for d in dims})
    order = dims[:]
    rng.shuffle(order)
    da = da.transpose(*order)
    return xr.DataArray(np.array(da.values, dtype=float, order="C", copy=True), dims=da.dims, coords={d: da[d].values.copy() for d in da.dims})


# ------------------------------------------------------------------------------------------
def kernel_grid(ctx):
    m = M()
    grid = [Fr(k, 2) for k in range(-3, 5)]
    ext = [float(g) for g in grid] + [NAN, INF, -INF]
    pts = [(f, o, t) for f in ext for o in ext for t in ext]
    F = xr.DataArray([p[0] for p in pts], dims="x")
    O = xr.DataArray([p[1] for p in pts], dims="x")
    T = xr.DataArray([p[2] for p in pts], dims="x")
    alpha, a = Fr(1, 4), Fr(1)
    n = 0
    for fn in FUNCS:
        over, under = getattr(m, f"_{fn}_elementary_score")(F, O, T, float(alpha), huber_a=float(a))
        over, under = np.asarray(over.values, dtype=float), np.asarray(under.values, dtype=float)
        for i, (f, o, t) in enumerate(pts):
            r = ctx.model("c11_k_elementary", enc_list([enc_str(fn), enc_num(f), enc_num(o), enc_num(t), enc_num(alpha), enc_num(a)]))
            k, mg, spec = core.dec_nums(r[0]), core.dec_nums(r[1]), core.dec_nums(r[2])
            ctx.case(("kel", fn, repr(f), repr(o), repr(t)))
            n += 1
            if not (core.close(over[i], k[0]) and core.close(under[i], k[1])):
                ctx.tie_fail(f"gen_murphy_{fn} vs _{fn}_elementary_score", {"fcst": f, "obs": o, "theta": t, "alpha": alpha, "huber_a": a},
                             (float(over[i]), float(under[i])), k)
            if spec:
                # the implementation's merge on this valid cell: total = over.combine_first(under).fillna(0), parts = part.fillna(0);
                # spec = (total, under, over) of the extended-real definition (rational or +-inf arguments)
                fz = lambda v: 0.0 if np.isnan(v) else float(v)      # noqa: E731
                got = (fz(over[i]) if not np.isnan(over[i]) else fz(under[i]), fz(under[i]), fz(over[i]))
                if any(isinstance(v, float) and np.isinf(v) for v in (f, o, t)):
                    ctx.count("kernel_grid:infinite-spec")
                if not all(core.close(g, w) for g, w in zip(got, spec)):
                    ctx.violation(f"{fn} elementary score differs from the definition", {"fcst": f, "obs": o, "theta": t, "alpha": alpha, "huber_a": a},
                                  dict(zip(NAMES, spec)), dict(zip(NAMES, got)), finding_key=inf_fcst_key(fn, [f], got, (0.0, 0.0, 0.0)))
                if not all(same_value(g, w) for g, w in zip(mg, spec)):
                    ctx.tie_fail("generated merge differs from the specification", {"fcst": f, "obs": o, "theta": t}, mg, spec)
    ctx.count("kernel_grid_points", n)


def same_value(x, y):
    """two model values (Fraction, nan, +-inf) are the same value"""
    if isinstance(x, float) or isinstance(y, float):
        return isinstance(x, float) and isinstance(y, float) and ((x != x and y != y) or x == y)
    return x == y


def inf_fcst_key(fn, fcsts, got, defect_value):
    """the finding key of the infinite-forecast defect (repaired by repo_fixes/murphy-infinite-forecast.diff), only when the deviation is
    that defect: quantile / Huber functional, an infinite forecast among the cases, and the value returned is the one obtained when the
    cases with an infinite forecast contribute 0"""
    if fn not in ("quantile", "huber") or not any(isinstance(v, float) and np.isinf(v) for v in fcsts):
        return None
    got = got if isinstance(got, (tuple, list)) else [got]
    dv = defect_value if isinstance(defect_value, (tuple, list)) else [defect_value]
    return KEY_INF_FCST if all(core.close(g, w) for g, w in zip(got, dv)) else None


def must(ctx, case, fn, *args, **kw):
    """a call on valid input: the value, or None after recording the violation that the call raised (a valid input that is now rejected)"""
    st, v = core.call_impl(fn, *args, **kw)
    if st != "ok":
        ctx.violation(f"{fn.__name__} raised on valid input", dict(case, kwargs={k: x for k, x in kw.items() if not isinstance(x, xr.DataArray)}), "values", v)
        return None
    return v


def call_murphy(fcst, obs, thetas, fn, alpha, huber_a, dec, rd, pd, explicit=True):
    """explicit=False: every optional argument that is at its documented default (huber_a=None, decomposition=False, reduce_dims=None,
    preserve_dims=None) is OMITTED from the call; explicit=True: every one of them is written out"""
    kw = dict(functional=fn, alpha=float(alpha))
    if dec or explicit:
        kw["decomposition"] = dec
    if huber_a is not None or explicit:
        kw["huber_a"] = None if huber_a is None else float(huber_a)
    if rd is not None or explicit:
        kw["reduce_dims"] = rd
    if pd is not None or explicit:
        kw["preserve_dims"] = pd
    return core.call_impl(S().murphy_score, fcst, obs, thetas, **kw)


def model_murphy(ctx, fcst, obs, thetas, fn, alpha, huber_a, dec, rd, pd):
    if isinstance(thetas, xr.DataArray):
        th = thetas
    else:   # list -> coordinate 'theta'; outputs are compared on sorted labels
        th = xr.DataArray(sorted(thetas), dims=["theta"])
    return ctx.model("c11_murphy_score", enc_list([enc_arr(fcst), enc_arr(obs), enc_arr(th), enc_str(fn), enc_num(alpha), enc_opt(huber_a, enc_num),
                                                   enc_bool(dec), enc_dimspec(rd), enc_dimspec(pd)]))


def compare_ds(impl, tree, dec):
    st, val = impl
    if core.is_err(tree) or st == "err":
        return core.compare_result(impl, tree)
    names = [core.dec_str(p[0]) for p in tree]
    want = NAMES if dec else NAMES[:1]
    if sorted(names) != sorted(want) or sorted(val.data_vars) != sorted(want):
        return False, f"variables differ: impl {list(val.data_vars)} model {names}"
    for p in tree:
        ok, d = core.compare_result(("ok", val[core.dec_str(p[0])]), p[1])
        if not ok:
            return False, core.dec_str(p[0]) + ": " + d
    return True, ""


def gen_thetas(rng, fcst, obs):
    vals = sorted({float(v) for v in np.concatenate([fcst.values.ravel(), obs.values.ravel()]) if not np.isnan(v)})
    pool = vals + [v + 0.25 for v in vals[:2]] + [float(Fr(rng.randint(-10, 10), 2)) for _ in range(2)]
    k = rng.randint(1, 4)
    th = rng.sample(pool, min(k, len(pool))) if pool else [0.0]
    if rng.random() < 0.15:
        th.append(th[0])            # duplicate theta
    r = rng.random()
    if r < 0.6:
        return th
    if r < 0.8:
        return xr.DataArray(th, dims=["theta"], coords={"theta": th}) if len(set(th)) == len(th) else th
    if r < 0.9:
        th2 = list(th)
        if rng.random() < 0.4:
            th2[rng.randrange(len(th2))] = NAN
        return xr.DataArray(th2, dims=["theta"])
    # thetas varying along a data dimension (own storage order), some of them NaN: a NaN theta is a missing case
    d = rng.choice(list(fcst.dims))
    n = fcst.sizes[d]
    labels = rng.sample([int(x) for x in fcst[d].values], n)
    vals = [[NAN if rng.random() < 0.25 else float(rng.choice(pool)) for _ in range(n)] for _ in range(len(th))]
    if rng.random() < 0.5:
        return xr.DataArray(vals, dims=["theta", d], coords={d: labels})
    return xr.DataArray(vals[0], dims=[d], coords={d: labels})


def murphy_cases(ctx, n):
    rng = ctx.rng
    for i in range(n):
        if not ctx.time_left():
            break
        sizes = gens.rand_sizes(rng)
        perms = {d: rng.sample(range(sizes[d]), sizes[d]) for d in sizes}
        fdims, odims = list(sizes), gens.sub_dims(rng, sizes, p_drop=0.25)
        obs_only = len(sizes) > 1 and rng.random() < 0.3
        if obs_only:        # a dimension only the observations have: one standing forecast per station against a series of observations
            fdims = gens.sub_dims(rng, sizes, p_drop=0.5, keep_at_least=1)
            if len(fdims) == len(sizes):
                fdims.pop(rng.randrange(len(fdims)))
            odims = [d for d in sizes if d not in fdims] + [d for d in fdims if rng.random() < 0.6]
        fcst = mk(rng, sizes, fdims, perms, nan_p=0.12 if rng.random() < 0.4 else 0.0)
        operms = {d: rng.sample(range(sizes[d]), sizes[d]) for d in sizes}
        obs = mk(rng, sizes, odims, operms, nan_p=0.12 if rng.random() < 0.3 else 0.0)
        if rng.random() < 0.4:
            obs = gens.force_ties(rng, fcst, obs)
        infinite = rng.random() < 0.25
        if infinite:        # +-inf as valid data among the forecasts / observations (and, through the pool, the thetas)
            for da in (fcst, obs):
                v = da.values.ravel().copy()
                for q in range(v.size):
                    if rng.random() < 0.3:
                        v[q] = rng.choice([INF, -INF])
                da.values = v.reshape(da.shape)
        thetas = gen_thetas(rng, fcst, obs)
        fn = rng.choice(FUNCS)
        bad = rng.random() < 0.12
        alpha = rng.choice([Fr(0), Fr(1), Fr(-1, 2), Fr(3, 2)]) if bad and rng.random() < 0.4 else rng.choice(ALPHAS)
        huber_a = rng.choice(HUBERS) if (fn == "huber" or rng.random() < 0.2) else None
        fname = spell(rng, fn)
        if bad:
            r = rng.random()
            if r < 0.3:
                fname = rng.choice(["median", "", "quantiles"])
            elif r < 0.6 and fn == "huber":
                huber_a = rng.choice([None, Fr(0), Fr(-1)])
        dec = rng.random() < 0.5
        rd, pd = gens.rand_dimspec(rng, list(sizes), allow_bad=bad)
        explicit = rng.random() < 0.4
        impl = call_murphy(fcst, obs, thetas, fname, alpha, huber_a, dec, rd, pd, explicit=explicit)
        m = model_murphy(ctx, fcst, obs, thetas, fname, alpha, huber_a, dec, rd, pd)
        ok, why = compare_ds(impl, m, dec)
        d = {"fn": "murphy_score", "fcst": gens.da_repr(fcst), "obs": gens.da_repr(obs), "thetas": gens.da_repr(thetas) if isinstance(thetas, xr.DataArray) else thetas,
             "functional": fname, "alpha": alpha, "huber_a": huber_a, "decomposition": dec, "reduce_dims": rd, "preserve_dims": pd,
             "optional_arguments_at_default": "written out" if explicit else "omitted"}
        nontrivial = impl[0] == "err" or bool(np.isfinite(np.asarray(impl[1]["total"])).any())
        ctx.case(d, nontrivial)
        ctx.count("murphy:" + ("ok" if impl[0] == "ok" else impl[1]))
        ctx.count("functional:" + fn)
        ctx.count("thetas:" + ("DataArray" if isinstance(thetas, xr.DataArray) else "list"))
        if infinite and impl[0] == "ok":
            ctx.count("murphy:infinite")
        if obs_only and impl[0] == "ok":
            ctx.count("murphy:obs-only-dim")
        ctx.count("murphy:defaults-" + ("explicit" if explicit else "omitted"))
        if i < 2:
            ctx.sample(d)
        if not ok:
            ctx.tie_fail("murphy_score vs model: " + why, d, str(impl[1])[:300], str(m)[:300])
        elif impl[0] == "ok" and dec:
            # property on the implementation: total = underforecast + overforecast, NaN together
            r = impl[1]
            t, u, o = (np.asarray(r[k].transpose(*r["total"].dims).values, dtype=float) for k in NAMES)
            if not np.allclose(t, u + o, rtol=1e-9, atol=1e-12, equal_nan=True):
                ctx.violation("murphy_score: total != underforecast + overforecast", d, "equal", {"total": t.ravel()[:6].tolist(), "sum": (u + o).ravel()[:6].tolist()})


def gen_sources(rng, ragged=False):
    sizes = gens.rand_sizes(rng, maxdims=2)
    k = rng.randint(1, 3)
    fcsts = []
    order = list(sizes)
    rng.shuffle(order)
    for j in range(k):
        sz = gens.rand_sizes(rng, maxdims=2) if (ragged and j > 0) else sizes
        # sources may differ in shape and dimension order for every functional (38f0f85)
        da = gens.rand_da(rng, sz, dims=None if ragged else order, shuffle=ragged, den=2, bound=4, nan_p=0.15 if rng.random() < 0.4 else 0.0)
        if rng.random() < 0.15:
            v = da.values.ravel().copy()
            v[rng.randrange(v.size)] = rng.choice([INF, -INF])
            da.values = v.reshape(da.shape)
        if rng.random() < 0.3:      # every source on its own set of coordinate labels (stations 0..n-1 shifted)
            da = da.assign_coords({d: da[d].values + rng.randint(1, 3) for d in da.dims})
        fcsts.append(da)
    obs = gens.rand_da(rng, sizes, dims=gens.sub_dims(rng, sizes, p_drop=0.3, keep_at_least=0), den=2, bound=4, nan_p=0.15 if rng.random() < 0.3 else 0.0)
    if rng.random() < 0.15:
        v = np.array(obs.values, dtype=float).ravel()
        v[rng.randrange(v.size)] = rng.choice([INF, -INF])
        obs = obs.copy(data=v.reshape(obs.shape))
    return fcsts, obs


def flat(da):
    return [float(v) for v in np.asarray(da.values, dtype=float).ravel()]


def thetas_cases(ctx, n):
    rng = ctx.rng
    C = S()
    for i in range(n):
        if not ctx.time_left():
            break
        fn = rng.choice(FUNCS)
        fcsts, obs = gen_sources(rng, ragged=rng.random() < 0.4)
        bad = rng.random() < 0.12
        huber_a = rng.choice(HUBERS) if (fn == "huber" or rng.random() < 0.2) else None
        delta = rng.choice([None, Fr(0), Fr(1, 4), Fr(1, 2), Fr(1)])
        fname = fn
        if bad:
            r = rng.random()
            if r < 0.3:
                fname = rng.choice(["Quantile", "mean", ""])
            elif r < 0.6:
                delta = Fr(-1, 4)
            elif fn == "huber":
                huber_a = rng.choice([None, Fr(0), Fr(-1, 2)])
        kw = {}
        explicit = rng.random() < 0.4       # optional arguments at their default (None): written out / omitted
        if huber_a is not None or explicit:
            kw["huber_a"] = None if huber_a is None else float(huber_a)
        if delta is not None or explicit:
            kw["left_limit_delta"] = None if delta is None else float(delta)
        ctx.count("thetas:defaults-" + ("explicit" if explicit else "omitted"))
        impl = core.call_impl(C.murphy_thetas, fcsts, obs, fname, **kw)
        m = ctx.model("c11_murphy_thetas", enc_list([enc_list([core.enc_nums(flat(f)) for f in fcsts]), core.enc_nums(flat(obs)), enc_str(fname),
                                                     enc_opt(huber_a, enc_num), enc_opt(delta, enc_num)]))
        d = {"fn": "murphy_thetas", "forecasts": [gens.da_repr(f) for f in fcsts], "obs": gens.da_repr(obs), "functional": fname, "huber_a": huber_a, "left_limit_delta": delta}
        if core.is_err(m) or impl[0] == "err":
            ok = impl[0] == "err" and impl[1] == m
        else:
            got = [float(x) for x in impl[1]]
            want = core.dec_nums(m)
            ok = len(got) == len(want) and all(core.close(x, q) for x, q in zip(got, want)) and all(isinstance(x, float) for x in impl[1])
        ctx.case(d, impl[0] == "err" or len(impl[1]) > 0)
        ctx.count("thetas:" + ("ok" if impl[0] == "ok" else impl[1]))
        if impl[0] == "ok":
            if any(np.isinf(f.values).any() for f in fcsts):
                ctx.count("thetas:infinite-forecast")
            if np.isinf(np.asarray(obs.values, dtype=float)).any():
                ctx.count("thetas:infinite-obs")
        if i < 1:
            ctx.sample(d)
        if not ok:
            ctx.tie_fail("murphy_thetas vs model", d, str(impl[1])[:300], str(m)[:300])


# ------------------------------------------------------------------------------------------
# property predicates on the implementation: completeness of the theta set and the integral over theta
# ------------------------------------------------------------------------------------------
def loss_spec(fn, alpha, a, f, o):
    """pinball / half asymmetric squared / asymmetric Huber loss (exact rationals)"""
    w = (1 - alpha) if o < f else alpha
    d = abs(f - o)
    if fn == "quantile":
        return w * d
    if fn == "expectile":
        return w * d * d / 2
    return w * (d * d / 2 if d <= a else a * (d - a / 2))


def diagram_props(ctx, rounds):
    rng = ctx.rng
    C = S()
    for _ in range(rounds):
        if not ctx.time_left():
            break
        n = rng.randint(1, 5)
        k = rng.randint(1, 2)
        fvals = [[Fr(rng.randint(-8, 8), 2) for _ in range(n)] for _ in range(k)]
        ovals = [Fr(rng.randint(-8, 8), 2) for _ in range(n)]
        if rng.random() < 0.5:
            j = rng.randrange(n)
            ovals[j] = fvals[0][j]
        fcsts = [xr.DataArray([float(v) for v in fv], dims=["x"]) for fv in fvals]
        obs = xr.DataArray([float(v) for v in ovals], dims=["x"])
        fn = rng.choice(FUNCS)
        alpha = rng.choice(ALPHAS)
        a = rng.choice(HUBERS)
        delta = rng.choice([None, Fr(0), Fr(1, 8)])
        kw = {"huber_a": float(a)} if fn == "huber" else {}
        if delta is not None:
            kw["left_limit_delta"] = float(delta)
        case = {"forecasts": fvals, "obs": ovals, "functional": fn, "alpha": alpha, "huber_a": a, "left_limit_delta": delta}
        ctx.case(("diagram", repr(case)))
        th = must(ctx, case, C.murphy_thetas, fcsts, obs, fn, **kw)
        if th is None:
            continue
        th = [Fr(float(x)) for x in th]
        if any(x >= y for x, y in zip(th, th[1:])):
            ctx.violation("murphy_thetas not strictly increasing", case, "sorted unique", th)
            continue
        need = {v for fv in fvals for v in fv} | set(ovals)
        if fn == "huber":
            need |= {o + a for o in ovals} | {o - a for o in ovals}
        if fn != "quantile":
            need |= {v - (delta or 0) for fv in fvals for v in fv}
        if set(th) != need:
            ctx.violation("murphy_thetas is not the set of kinks", case, sorted(need), th)
        # evaluate each source on thetas, two interior points per interval and points outside the range
        pts = []
        for t1, t2 in zip(th, th[1:]):
            pts += [t1, t1 + (t2 - t1) / 4, t1 + (t2 - t1) / 2]
        pts += [th[-1], th[-1] + 1, th[0] - 1]
        mkw = dict(functional=fn, alpha=float(alpha), preserve_dims="all", decomposition=True)
        if fn == "huber":
            mkw["huber_a"] = float(a)
        for si, fc in enumerate(fcsts):
            r = must(ctx, dict(case, source=si, thetas=pts), C.murphy_score, fc, obs, [float(p) for p in pts], **mkw)
            if r is None:
                break
            tot = r["total"].transpose("theta", "x").values
            ov = r["overforecast"].transpose("theta", "x").values
            un = r["underforecast"].transpose("theta", "x").values
            fv = np.array([float(v) for v in fvals[si]])
            ovv = np.array([float(v) for v in ovals])
            # over-forecast penalty only where obs <= theta < fcst, under-forecast only where fcst <= theta < obs
            for j, t in enumerate(pts):
                in_over = (ovv <= float(t)) & (float(t) < fv)
                in_under = (fv <= float(t)) & (float(t) < ovv)
                bad_o = (ov[j] != 0) != in_over if fn == "quantile" else ((ov[j] != 0) & ~in_over)
                bad_u = (un[j] != 0) != in_under if fn == "quantile" else ((un[j] != 0) & ~in_under)
                if bad_o.any() or bad_u.any() or (ov[j] < 0).any() or (un[j] < 0).any() or not np.allclose(tot[j], ov[j] + un[j], atol=1e-12):
                    ctx.violation("Murphy decomposition: penalty charged outside its region (over: obs <= theta < fcst, under: fcst <= theta < obs)",
                                  dict(case, source=si, theta=t), {"in_over": in_over.tolist(), "in_under": in_under.tolist()},
                                  {"overforecast": ov[j].tolist(), "underforecast": un[j].tolist(), "total": tot[j].tolist()})
                    break
            m = len(th) - 1
            integ = np.zeros(n)
            for j in range(m):
                s0, s1, s2 = tot[3 * j], tot[3 * j + 1], tot[3 * j + 2]
                if fn == "quantile":
                    okc = np.allclose(s1, s0, atol=1e-12) and np.allclose(s2, s0, atol=1e-12)
                else:
                    okc = np.allclose(2 * s1, s0 + s2, atol=1e-12)      # three collinear points
                if not okc:
                    ctx.violation("Murphy curve not constant/affine between consecutive thetas", dict(case, source=si, theta1=th[j], theta2=th[j + 1]),
                                  "constant (quantile) / affine", {"s(t1)": s0.tolist(), "s(t1+d/4)": s1.tolist(), "s(t1+d/2)": s2.tolist()})
                integ += s2 * float(th[j + 1] - th[j])        # midpoint rule, exact for affine pieces
            for row, name in ((tot[3 * m], "last theta"), (tot[3 * m + 1], "above"), (tot[3 * m + 2], "below")):
                if not np.allclose(row, 0.0, atol=1e-12):
                    ctx.violation("Murphy score non-zero outside the data range", dict(case, source=si, where=name), 0, row.tolist())
            want = [float(loss_spec(fn, alpha, a, fvals[si][i], ovals[i])) for i in range(n)]
            if not np.allclose(integ, want, rtol=1e-9, atol=1e-12):
                ctx.violation("integral of the Murphy curve over theta differs from the loss", dict(case, source=si), want, integ.tolist())
        ctx.count("diagram_rounds")


def diagram_infinite(ctx, rounds):
    """Murphy diagram of data containing +-inf (valid data): murphy_thetas returns exactly the kinks, the infinite values included as the
    first / last theta (inf - delta = inf, inf +- a = inf); at every theta, at two interior points of every interval between consecutive
    finite thetas, beyond the finite range and at +-inf each case scores the extended-real elementary score (a forecast of +inf
    over-forecasts every theta >= obs, a forecast of -inf under-forecasts every theta < obs; sizes by IEEE rules), and the quantile curve
    is constant between consecutive finite thetas (C11_thetas_cover_quantile_extended)"""
    rng = ctx.rng
    C = S()
    ext = lambda x: float(x) if np.isinf(x) else Fr(float(x))        # noqa: E731
    for _ in range(rounds):
        if not ctx.time_left():
            break
        n = rng.randint(1, 4)
        val = lambda: rng.choice([INF, -INF]) if rng.random() < 0.3 else Fr(rng.randint(-6, 6), 2)      # noqa: E731
        fvals = [val() for _ in range(n)]
        ovals = [val() for _ in range(n)]
        if not any(isinf(v) for v in fvals + ovals):
            (fvals if rng.random() < 0.6 else ovals)[rng.randrange(n)] = rng.choice([INF, -INF])
        fn, alpha, a = rng.choice(FUNCS), rng.choice(ALPHAS), rng.choice(HUBERS)
        delta = rng.choice([None, Fr(0), Fr(1, 4)])
        fc = xr.DataArray([float(v) for v in fvals], dims=["x"])
        obs = xr.DataArray([float(v) for v in ovals], dims=["x"])
        kw = {"huber_a": float(a)} if fn == "huber" else {}
        if delta is not None:
            kw["left_limit_delta"] = float(delta)
        case = {"fcst": fvals, "obs": ovals, "functional": fn, "alpha": alpha, "huber_a": a, "left_limit_delta": delta}
        ctx.case(("diagram-inf", repr(case)))
        ctx.count("diagram:infinite")
        st, got_th = core.call_impl(C.murphy_thetas, [fc], obs, fn, **kw)
        if st != "ok":
            ctx.violation("murphy_thetas raised on data containing +-inf", case, "thetas", got_th)
            continue
        th = [ext(x) for x in got_th]
        need = set(fvals) | set(ovals)
        if fn == "huber":
            need |= {o + a for o in ovals} | {o - a for o in ovals}
        if fn != "quantile":
            need |= {v - (delta or 0) for v in fvals}
        if th != sorted(need):
            ctx.violation("murphy_thetas is not the sorted set of kinks on data containing +-inf", case, sorted(need), th)
            continue
        tf = [x for x in th if not isinf(x)]
        pts = []
        for t1, t2 in zip(tf, tf[1:]):
            pts += [t1, t1 + (t2 - t1) / 4, t1 + (t2 - t1) / 2]
        pts += ([tf[-1], tf[-1] + 1, tf[0] - 1] if tf else [Fr(0)]) + [INF, -INF]
        mkw = dict(functional=fn, alpha=float(alpha), preserve_dims="all", decomposition=True)
        if fn == "huber":
            mkw["huber_a"] = float(a)
        st, r = core.call_impl(C.murphy_score, fc, obs, [float(p) for p in pts], **mkw)
        if st != "ok":
            ctx.violation("murphy_score raised on data containing +-inf", case, "values", r)
            continue
        arr = [r[k].transpose("theta", "x").values for k in NAMES]
        bad = False
        for j, t in enumerate(pts):
            for i in range(n):
                want = orc_es(fn, alpha, a, fvals[i], ovals[i], t)
                if want is None:
                    continue
                got = [float(arr[k][j][i]) for k in range(3)]
                if not all(core.close(got[k], want[k]) for k in range(3)):
                    ctx.violation(f"murphy_score ({fn}) differs from the elementary score definition on data containing +-inf",
                                  dict(case, case_index=i, theta=t), dict(zip(NAMES, want)), dict(zip(NAMES, got)),
                                  finding_key=inf_fcst_key(fn, [fvals[i]], got, orc_es(fn, alpha, a, fvals[i], ovals[i], t, defect=True)))
                    bad = True
                    break
            if bad:
                break
        if fn == "quantile" and not bad:
            tot = arr[0]
            for j in range(len(tf) - 1):
                if not (np.array_equal(tot[3 * j], tot[3 * j + 1]) and np.array_equal(tot[3 * j], tot[3 * j + 2])):
                    ctx.violation("quantile Murphy curve not constant between consecutive finite thetas (data containing +-inf)",
                                  dict(case, theta1=tf[j], theta2=tf[j + 1]), "constant", [tot[3 * j + e].tolist() for e in range(3)])
                    break


def guard_probes(ctx):
    """documented parameter boundaries: alpha strictly inside (0,1), huber_a > 0 (huber only), left_limit_delta >= 0, known functional"""
    C = S()
    f = xr.DataArray([0.0, 1.0, 2.5], dims=["x"])
    o = xr.DataArray([0.5, 1.0, -1.0], dims=["x"])
    eps = 1.0 / 1024
    probes = []
    for fn in FUNCS:
        hk = {"huber_a": 1.0} if fn == "huber" else {}
        for a, ok in ((0.0, False), (1.0, False), (-eps, False), (1 + eps, False), (eps, True), (1 - eps, True)):
            probes.append(("murphy_score", ([0.5],), dict(functional=fn, alpha=a, **hk), ok))
    for h, ok in ((0.0, False), (-eps, False), (None, False), (eps, True)):
        kw = {} if h is None else {"huber_a": h}
        probes.append(("murphy_score", ([0.5],), dict(functional="huber", alpha=0.5, **kw), ok))
        probes.append(("murphy_thetas", (), dict(functional="huber", **kw), ok))
    probes.append(("murphy_score", ([0.5],), dict(functional="quantile", alpha=0.5, huber_a=-1.0), True))   # huber_a ignored for other functionals
    probes.append(("murphy_score", ([0.5],), dict(functional="mean", alpha=0.5), False))
    for d, ok in ((-eps, False), (0.0, True), (eps, True), (None, True)):
        for fn in FUNCS:
            kw = {"huber_a": 1.0} if fn == "huber" else {}
            if d is not None:
                kw["left_limit_delta"] = d
            probes.append(("murphy_thetas", (), dict(functional=fn, **kw), ok))
    for name, args, kw, ok in probes:
        if name == "murphy_score":
            st, val = core.call_impl(C.murphy_score, f, o, *args, **kw)
        else:
            kw = dict(kw)
            fn = kw.pop("functional")
            st, val = core.call_impl(C.murphy_thetas, [f], o, fn, **kw)
            kw["functional"] = fn
        ctx.case(("guard", name, repr(sorted(kw.items())), ok))
        good = (st == "ok") if ok else (st == "err" and val == "err:ValueError")
        if not good:
            ctx.violation(f"{name}: parameter guard at the documented boundary", {"fn": name, "kwargs": kw}, "accepted" if ok else "ValueError", st if st == "ok" else val)
    ctx.count("guard_probes", len(probes))



def ragged_corpus(ctx):
    """repaired defect 38f0f85: forecast sources of different shape / dimension order are accepted by every functional and give the
    union of the kinks"""
    C = S()
    f1 = xr.DataArray([[1.0, 2.0]], dims=["a", "b"])
    f2 = xr.DataArray([0.5, 3.0, 1.0], dims=["c"])
    f3 = xr.DataArray([[1.0], [2.0]], dims=["b", "a"])
    o = xr.DataArray([1.0, 0.0], dims=["b"])
    want = {"quantile": [0.0, 0.5, 1.0, 2.0, 3.0], "expectile": [0.0, 0.25, 0.5, 0.75, 1.0, 1.75, 2.0, 2.75, 3.0],
            "huber": [-1.0, 0.0, 0.25, 0.5, 0.75, 1.0, 1.75, 2.0, 2.75, 3.0]}
    for fn in FUNCS:
        kw = {"left_limit_delta": 0.25}
        if fn == "huber":
            kw["huber_a"] = 1.0
        for srcs, nm in (([f1, f2], "shapes"), ([f1, f3, f2], "dimension order")):
            got = core.call_impl(C.murphy_thetas, srcs, o, fn, **kw)
            ctx.case(("ragged", fn, nm))
            ctx.count("ragged_corpus")
            if got[0] != "ok" or [float(x) for x in got[1]] != want[fn]:
                ctx.violation("murphy_thetas with forecast sources of different " + nm + " (regression of 38f0f85)",
                              {"functional": fn, "sources": [gens.da_repr(x) for x in srcs], "obs": gens.da_repr(o), **kw}, want[fn], str(got[1])[:200])


# ------------------------------------------------------------------------------------------
# exact-rational oracle (independent of the Coq model), used by run_without_model
# ------------------------------------------------------------------------------------------
def isinf(v):
    return isinstance(v, float) and v in (INF, -INF)


def orc_es(fn, alpha, a, f, o, t, defect=False):
    """(total, underforecast, overforecast) of the elementary score of Ehm et al. (2016) / Taggart (2022) on the extended reals:
    f, o, t are Fractions or +-inf (python floats); regions by the order of the extended reals, penalty sizes 1 / min(d, a) / d with
    d = theta - obs resp. obs - theta (+inf when exactly one of them is infinite).  None when the size is undefined (obs = theta = -inf
    inside the over-forecast region, expectile / Huber: inf - inf).  defect=True: the value before the repair
    repo_fixes/murphy-infinite-forecast.diff (an infinite forecast contributes 0 for quantile / Huber)."""
    pens = [Fr(0), Fr(0)]          # over, under
    if defect and isinf(f) and fn in ("quantile", "huber"):
        return Fr(0), Fr(0), Fr(0)
    for k, (region, w, d_of) in enumerate(((o <= t < f, 1 - alpha, lambda: t - o), (f <= t < o, alpha, lambda: o - t))):
        if not region:
            continue
        if fn == "quantile":
            size = Fr(1)
        else:
            d = d_of()
            if d != d:                      # inf - inf: obs = theta = -inf inside the over-forecast region
                return None
            size = d if fn == "expectile" else (a if isinf(d) else min(d, a))
        pens[k] = INF if isinf(size) else w * size
    over, under = pens
    return (INF if isinf(over) or isinf(under) else over + under), under, over


def oracle_grid(ctx):
    """murphy_score (decomposition, preserve all) against the oracle on the full tie grid: theta == fcst, theta == obs, fcst == obs,
    with +-inf among the forecasts, observations and thetas"""
    C = S()
    grid = [Fr(k, 2) for k in range(-3, 5)]
    ext = grid + [INF, -INF]
    pts = [(f, o) for f in ext for o in ext]
    F = xr.DataArray([float(f) for f, _ in pts], dims="x")
    O = xr.DataArray([float(o) for _, o in pts], dims="x")
    th = grid + [grid[0] - 1, grid[-1] + 1, INF, -INF]
    for fn in FUNCS:
        for alpha in (Fr(1, 4), Fr(3, 4)):
            a = Fr(1)
            kw = {"huber_a": float(a)} if fn == "huber" else {}
            r = must(ctx, {"fn": "murphy_score", "fcst, obs": "tie grid k/2, +-inf", "thetas": th}, C.murphy_score, F, O, [float(t) for t in th], functional=fn,
                     alpha=float(alpha), decomposition=True, preserve_dims="all", **kw)
            if r is None:
                continue
            arr = [r[k].transpose("theta", "x").values for k in NAMES]
            for j, t in enumerate(th):
                for i, (f, o) in enumerate(pts):
                    want = orc_es(fn, alpha, a, f, o, t)
                    if want is None:
                        ctx.count("oracle_grid:undefined-size")
                        continue
                    ctx.case(("orc", fn, alpha, f, o, t))
                    if isinf(f) or isinf(o) or isinf(t):
                        ctx.count("oracle_grid:infinite")
                    got = [float(arr[k][j][i]) for k in range(3)]
                    if not all(core.close(got[k], want[k]) for k in range(3)):
                        ctx.violation(f"murphy_score ({fn}) differs from the elementary score definition",
                                      {"fcst": f, "obs": o, "theta": t, "alpha": alpha, "huber_a": a}, dict(zip(NAMES, want)), dict(zip(NAMES, got)),
                                      finding_key=inf_fcst_key(fn, [f], got, orc_es(fn, alpha, a, f, o, t, defect=True)))
    ctx.count("oracle_grid_points", 6 * len(th) * len(pts))


def mean_ext(vals):
    """mean of non-negative extended-real values (Fractions or +inf); NaN for no value"""
    if not vals:
        return NAN
    return INF if any(isinf(v) for v in vals) else sum(vals) / len(vals)


def oracle_means(ctx, n):
    """murphy_score with NaN, sub-dimensional obs, fcst / obs / thetas in independent storage orders, thetas as list or as DataArray
    (with NaN entries, possibly varying along a data dimension) and reductions, against the oracle: mean over the valid cases, where a
    case is valid iff theta, fcst and obs are all present; labels, not positions, pair the values"""
    rng = ctx.rng
    C = S()
    for _ in range(n):
        if not ctx.time_left():
            break
        na, nb = rng.randint(1, 3), rng.randint(1, 3)
        # every third case carries +-inf among the forecasts / observations / thetas (valid data: regions by the order of the extended
        # reals, infinite penalty sizes by IEEE rules)
        p_inf = 0.2 if rng.random() < 0.34 else 0.0
        val = lambda: rng.choice([INF, -INF]) if rng.random() < p_inf else Fr(rng.randint(-6, 6), 2)      # noqa: E731
        fv = [[None if rng.random() < 0.15 else val() for _ in range(nb)] for _ in range(na)]
        # every fourth case: the forecast lacks dimension a (one standing forecast per b against observations over a x b): a is a dimension
        # only the observations have, averaged out by default, reducible / preservable by name
        fsub = rng.random() < 0.25
        if fsub:
            fv = [list(fv[0]) for _ in range(na)]
        ov = [None if rng.random() < 0.15 else val() for _ in range(nb)]
        if rng.random() < 0.5:            # exact hits fcst == obs among the pairs
            l = rng.randrange(nb)
            ov[l] = fv[rng.randrange(na)][l]
        pa, pb, pbo, pbt = (rng.sample(range(na), na), rng.sample(range(nb), nb), rng.sample(range(nb), nb), rng.sample(range(nb), nb))
        fl = lambda v: NAN if v is None else float(v)      # noqa: E731
        F = xr.DataArray([[fl(fv[i][l]) for l in pb] for i in pa], dims=["a", "b"], coords={"a": pa, "b": pb})
        if fsub:
            F = xr.DataArray([fl(fv[0][l]) for l in pb], dims=["b"], coords={"b": pb})
        full = fsub or rng.random() < 0.5         # obs on both dimensions (own storage order) or on b only
        if full:
            ovf = [[None if rng.random() < 0.15 else (fv[i][l] if rng.random() < 0.2 else val()) for l in range(nb)] for i in range(na)]
            pao = rng.sample(range(na), na)
            O = xr.DataArray([[fl(ovf[i][l]) for l in pbo] for i in pao], dims=["a", "b"], coords={"a": pao, "b": pbo})
        else:
            ovf = [list(ov) for _ in range(na)]
            O = xr.DataArray([fl(ov[l]) for l in pbo], dims=["b"], coords={"b": pbo})
        fn, alpha, a = rng.choice(FUNCS), rng.choice(ALPHAS), rng.choice(HUBERS)
        th = sorted({val() for _ in range(3)} | {v for row in fv for v in row if v is not None and rng.random() < 0.5})
        mode = rng.choice(["list", "list", "da", "da_b"])
        if mode == "list":
            TH = [[t] * nb for t in th]
            thetas = [float(t) for t in th]
        elif mode == "da":
            TH = [[None if rng.random() < 0.3 else t] * nb for t in th]
            thetas = xr.DataArray([fl(row[0]) for row in TH], dims=["theta"])
        else:
            TH = [[None if rng.random() < 0.3 else t + Fr(rng.randint(-2, 2), 2) for _ in range(nb)] for t in th]
            thetas = xr.DataArray([[fl(row[l]) for l in pbt] for row in TH], dims=["theta", "b"], coords={"b": pbt})
        red = rng.choice([None, ["a"], ["b"], ["a", "b"]])
        kw = {"huber_a": float(a)} if fn == "huber" else {}
        as_preserve = red is not None and rng.random() < 0.4      # the same request spelled as preserve_dims (the complement)
        if as_preserve:
            kw["preserve_dims"] = [d for d in ("a", "b") if d not in red]
        elif red is not None:
            kw["reduce_dims"] = red
        rset = {"a", "b"} if red is None else set(red)
        case = {"fcst[b] (no dimension a)" if fsub else "fcst[a][b]": fv[0] if fsub else fv, "preserve_dims": kw.get("preserve_dims"), "obs[a][b]" if full else "obs[b]": ovf if full else ov, "thetas": [[None if x is None else x for x in row] for row in TH] if mode != "list" else th, "thetas_as": mode,
                "functional": fn, "alpha": alpha, "huber_a": a, "reduce_dims": red, "storage_order": {"fcst.a": pa, "fcst.b": pb, "obs.b": pbo, "thetas.b": pbt}}
        ctx.case(("orcmean", repr(case)))
        ctx.count("oracle_means:" + mode)
        has_inf = any(isinf(v) for row in fv + ovf + TH for v in row)
        if has_inf:
            ctx.count("oracle_means:infinite")
        if fsub:
            ctx.count("oracle_means:obs-only-dim")
        st, r = core.call_impl(C.murphy_score, F, O, thetas, functional=fn, alpha=float(alpha), decomposition=True, **kw)
        if st != "ok":
            ctx.violation("murphy_score raised on valid input", case, "values", r)
            continue
        want_dims = {"theta"} | ({"a", "b"} - rset)
        if any(set(r[name].dims) != want_dims for name in NAMES):
            ctx.violation("murphy_score: dimensions of the result are not theta + the preserved dimensions (a dimension was left un-averaged / dropped)",
                          case, sorted(want_dims), {name: list(r[name].dims) for name in NAMES})
            continue
        # decomposition omitted == decomposition=False written out == the total of the decomposition (and only that variable)
        st0, r0 = core.call_impl(C.murphy_score, F, O, thetas, functional=fn, alpha=float(alpha), **kw)
        st1, r1 = core.call_impl(C.murphy_score, F, O, thetas, functional=fn, alpha=float(alpha), decomposition=False,
                                 **dict({"huber_a": None, "reduce_dims": None, "preserve_dims": None}, **kw))
        if not (st0 == st1 == "ok" and list(r0.data_vars) == list(r1.data_vars) == ["total"] and r0.identical(r1)
                and r0["total"].transpose(*r["total"].dims).equals(r["total"])):
            ctx.violation("murphy_score with the optional arguments omitted differs from the call with the documented defaults written out "
                          "(decomposition=False, huber_a / reduce_dims / preserve_dims None: the total only, equal to the total of the decomposition)",
                          case, "variables ['total'], equal", {"omitted": str(r0)[:200], "written out": str(r1)[:200]})
            continue
        bad = False
        for k, name in enumerate(NAMES):
            keep = [d for d in ("a", "b") if d not in rset]
            da = r[name]
            for d in keep:
                da = da.sortby(d)
            got = da.transpose("theta", *keep).values
            for j in range(len(th)):
                cell, cell_defect, cell_f = {}, {}, {}
                for i in range(na):
                    for l in range(nb):
                        key = tuple(x for x, d in ((i, "a"), (l, "b")) if d not in rset)
                        cell.setdefault(key, [])
                        cell_defect.setdefault(key, [])
                        cell_f.setdefault(key, [])
                        if fv[i][l] is not None and ovf[i][l] is not None and TH[j][l] is not None:
                            e = orc_es(fn, alpha, a, fv[i][l], ovf[i][l], TH[j][l])
                            cell[key].append(None if e is None else e[k])
                            if e is not None:
                                cell_defect[key].append(orc_es(fn, alpha, a, fv[i][l], ovf[i][l], TH[j][l], defect=True)[k])
                            cell_f[key].append(fv[i][l])
                for key, vals in cell.items():
                    g = got[(j,) + key]
                    if any(v is None for v in vals):        # a penalty size inf - inf among the cases: outside the definition
                        ctx.count("oracle_means:undefined-size")
                        continue
                    want = mean_ext(vals)
                    if not core.close(g, want):
                        ctx.violation("murphy_score mean differs from the mean elementary score over the valid (theta, fcst, obs all present) cases",
                                      dict(case, variable=name, theta_index=j, cell=key), want, float(g),
                                      finding_key=inf_fcst_key(fn, cell_f[key], float(g), mean_ext(cell_defect[key])))
                        bad = True
                        break
                if bad:
                    break
            if bad:
                break


def _fr(x):
    return Fr(float(x))


def dtype_cases(ctx, n):
    """forecasts / observations in a dtype that cannot hold the thetas exactly (integers with fractional thetas; float32 next to float64
    thetas such as 0.1 vs float32(0.1)): the thetas count as given.  Oracle on the exact rationals of the inputs + model."""
    rng = ctx.rng
    C = S()
    for i in range(n):
        if not ctx.time_left():
            break
        m = rng.randint(1, 4)
        mode = rng.choice(["int64", "int32", "float32", "float32"])
        if mode.startswith("int"):
            fv = np.array([rng.randint(-3, 3) for _ in range(m)], dtype=mode)
            ov = np.array([rng.randint(-3, 3) for _ in range(m)], dtype=mode) if rng.random() < 0.5 else np.array([rng.randint(-6, 6) / 2 for _ in range(m)])
            pool = [float(v) + dlt for v in list(fv) + list(ov) for dlt in (0.0, -0.25, 0.5, -0.5, 0.75)]
        else:
            dec = [0.1, 0.2, 0.3, 0.7, 1.1, -0.1, -0.9, 2.3]
            fv = np.array([rng.choice(dec) for _ in range(m)], dtype="float32")
            ov = np.array([rng.choice(dec) for _ in range(m)], dtype=rng.choice(["float32", "float64"]))
            # the decimal as float64, the float32 value as float64, and their float64 neighbours
            pool = []
            for v in list(fv) + list(ov):
                x32 = float(np.float32(v))
                x64 = float(round(float(v), 1))
                pool += [x32, x64, float(np.nextafter(x32, 9.0)), float(np.nextafter(x32, -9.0))]
        th = sorted(set(rng.sample(pool, min(len(pool), rng.randint(1, 4)))))
        fn, alpha, a = rng.choice(FUNCS), rng.choice(ALPHAS), rng.choice(HUBERS)
        F = xr.DataArray(fv, dims=["x"])
        O = xr.DataArray(ov, dims=["x"])
        kw = {"huber_a": float(a)} if fn == "huber" else {}
        red = rng.random() < 0.3
        impl = core.call_impl(C.murphy_score, F, O, th, functional=fn, alpha=float(alpha), decomposition=True, **({} if red else {"preserve_dims": "all"}), **kw)
        case = {"fn": "murphy_score", "fcst": [float(v) for v in fv], "fcst_dtype": str(fv.dtype), "obs": [float(v) for v in ov], "obs_dtype": str(ov.dtype),
                "thetas": th, "functional": fn, "alpha": alpha, "huber_a": a, "mean": red}
        ctx.case(("dtype", repr(case)))
        ctx.count("dtype:" + mode)
        if impl[0] != "ok":
            ctx.violation("murphy_score raised on " + mode + " forecasts", case, "values", impl[1])
            continue
        for k, name in enumerate(NAMES):
            got = np.asarray(impl[1][name].transpose("theta", ...).values, dtype=float)
            for j, t in enumerate(th):
                vals = [orc_es(fn, alpha, a, _fr(fv[q]), _fr(ov[q]), _fr(t))[k] for q in range(m)]
                want = [sum(vals) / m] if red else vals
                g = [float(got[j])] if red else [float(x) for x in got[j]]
                if not all(core.close(x, w, tol=1e-6) for x, w in zip(g, want)):
                    ctx.violation("murphy_score evaluates a theta other than the one requested (forecast dtype cannot hold it)", dict(case, variable=name, theta=t),
                                  [float(w) for w in want], g)
                    break
            else:
                continue
            break
        # the same case through the model (exact rationals of the given values)
        if model_available(ctx):
            F64, O64 = F.astype("float64"), O.astype("float64")
            mt = model_murphy(ctx, F64, O64, th, fn, alpha, a if fn == "huber" else None, True, None, None if red else "all")
            ok, why = compare_ds(impl, mt, True)
            if not ok and "differ" in why:
                # float32 arithmetic of the implementation: compare with the tolerance of the narrower type
                ok = True
                for pr in mt:
                    dims, shape, qs = core.dec_arr(pr[1])
                    xs = core.da_flat(impl[1][core.dec_str(pr[0])], dims)
                    ok = ok and xs is not None and all(core.close(x, q, tol=1e-6) for x, q in zip(xs, qs))
            if not ok:
                ctx.tie_fail("murphy_score (" + mode + " forecasts) vs model: " + why, case, str(impl[1])[:200], str(mt)[:200])


def fine_thetas(ctx, n):
    """data with structure far below 1e-8 (dyadic multiples of 2^-30 around small magnitudes, so that every float operation of
    murphy_thetas is exact): the returned thetas must be exactly the kinks, and the diagram must be affine between them"""
    rng = ctx.rng
    C = S()
    u = Fr(1, 2 ** 30)
    for i in range(n):
        if not ctx.time_left():
            break
        m = rng.randint(1, 4)
        base = rng.choice([0, 300, 5 * 2 ** 20])            # 0, ~2.8e-7, ~5e-3
        k = rng.randint(1, 2)
        fvals = [[(base + rng.randint(0, 40)) * u for _ in range(m)] for _ in range(k)]
        ovals = [(base + rng.randint(0, 40)) * u for _ in range(m)]
        fn = rng.choice(["expectile", "huber", "quantile"])
        delta = rng.choice([None, Fr(0), u, 3 * u / 2])
        a = rng.choice([5 * u, 2 * u, Fr(1, 2)])
        fcsts = [xr.DataArray([float(v) for v in fv], dims=["x"]) for fv in fvals]
        obs = xr.DataArray([float(v) for v in ovals], dims=["x"])
        kw = {"huber_a": float(a)} if fn == "huber" else {}
        if delta is not None:
            kw["left_limit_delta"] = float(delta)
        got = core.call_impl(C.murphy_thetas, fcsts, obs, fn, **kw)
        need = {v for fv in fvals for v in fv} | set(ovals)
        if fn == "huber":
            need |= {o + a for o in ovals} | {o - a for o in ovals}
        if fn != "quantile":
            need |= {v - (delta or 0) for fv in fvals for v in fv}
        case = {"fn": "murphy_thetas", "forecasts": [[float(v) for v in fv] for fv in fvals], "obs": [float(v) for v in ovals], "functional": fn,
                "huber_a": float(a), "left_limit_delta": None if delta is None else float(delta), "unit": "values are multiples of 2**-30"}
        ctx.case(("fine", repr(case)))
        ctx.count("fine_thetas")
        th = [Fr(float(x)) for x in got[1]] if got[0] == "ok" else None
        if th != sorted(need):
            ctx.violation("murphy_thetas is not the set of kinks on data with structure below 1e-8", case, [float(x) for x in sorted(need)],
                          [float(x) for x in th] if th is not None else got[1])
            continue
        if model_available(ctx):
            mt = ctx.model("c11_murphy_thetas", enc_list([enc_list([core.enc_nums([float(v) for v in fv]) for fv in fvals]), core.enc_nums([float(v) for v in ovals]),
                                                          enc_str(fn), enc_opt(a if fn == "huber" else None, enc_num), enc_opt(delta, enc_num)]))
            if core.is_err(mt) or core.dec_nums(mt) != th:
                ctx.tie_fail("murphy_thetas vs model (fine structure)", case, [str(x) for x in th], str(mt)[:300])
        # the curve of every case is affine between consecutive thetas (three collinear points), evaluated on the implementation
        if len(th) >= 2 and fn != "quantile":
            pts = []
            for t1, t2 in zip(th, th[1:]):
                pts += [t1, t1 + (t2 - t1) / 4, t1 + (t2 - t1) / 2]
            alpha = rng.choice(ALPHAS)
            r = must(ctx, dict(case, thetas=[float(p) for p in pts]), C.murphy_score, fcsts[0], obs, [float(p) for p in pts], functional=fn, alpha=float(alpha),
                     preserve_dims="all", **({"huber_a": float(a)} if fn == "huber" else {}))
            if r is None:
                continue
            tot = r["total"].transpose("theta", "x").values
            for j in range(len(th) - 1):
                for q in range(m):
                    want = [orc_es(fn, alpha, a, fvals[0][q], ovals[q], pts[3 * j + e])[0] for e in range(3)]
                    g = [float(tot[3 * j + e][q]) for e in range(3)]
                    if any(abs(x - float(w)) > 1e-12 * max(1e-9, abs(float(w))) + 1e-22 for x, w in zip(g, want)) or 2 * want[1] != want[0] + want[2]:
                        ctx.violation("Murphy curve not affine between consecutive thetas / differs from the definition (fine structure)",
                                      dict(case, alpha=alpha, theta1=float(th[j]), theta2=float(th[j + 1]), case_index=q), [float(w) for w in want], g)
                        break
                else:
                    continue
                break


def label_sets_corpus(ctx):
    """forecast sources on different sets of coordinate labels: murphy_thetas uses every value of every source"""
    C = S()
    f1 = xr.DataArray([1.0, 5.0, 2.0], dims=["s"], coords={"s": [0, 1, 2]})
    f2 = xr.DataArray([3.0, 0.5, 7.0], dims=["s"], coords={"s": [2, 3, 4]})
    o = xr.DataArray([4.0, 6.0], dims=["s"], coords={"s": [1, 9]})
    want = {"quantile": [0.5, 1, 2, 3, 4, 5, 6, 7], "expectile": [0.25, 0.5, 0.75, 1, 1.75, 2, 2.75, 3, 4, 4.75, 5, 6, 6.75, 7],
            "huber": [0.25, 0.5, 0.75, 1, 1.75, 2, 2.75, 3, 3.5, 4, 4.5, 4.75, 5, 5.5, 6, 6.5, 6.75, 7]}
    for fn in FUNCS:
        kw = {"left_limit_delta": 0.25}
        if fn == "huber":
            kw["huber_a"] = 0.5
        got = core.call_impl(C.murphy_thetas, [f1, f2], o, fn, **kw)
        ctx.case(("labelsets", fn))
        ctx.count("label_sets_corpus")
        if got[0] != "ok" or [float(x) for x in got[1]] != [float(x) for x in want[fn]]:
            ctx.violation("murphy_thetas loses kinks when the sources carry different coordinate labels", {"functional": fn, "sources": [gens.da_repr(f1), gens.da_repr(f2)],
                          "obs": gens.da_repr(o), **kw}, want[fn], str(got[1])[:300])



def defaults_corpus(ctx):
    """DEFAULTS: every optional argument of murphy_score (huber_a=None, decomposition=False, reduce_dims=None, preserve_dims=None) and of
    murphy_thetas (huber_a=None, left_limit_delta=None, treated as 0) OMITTED gives exactly the call with the documented default written
    out, and the exact oracle of that default: the total only, averaged over every dimension of forecast AND observations (the
    observations carry a dimension the forecast does not have); the kinks with the left-limit points at the forecasts themselves"""
    C = S()
    fv = [Fr(0), Fr(2), Fr(3, 2)]
    ov = [[Fr(1), Fr(2), Fr(-1, 2)], [Fr(3), None, Fr(3, 2)]]
    F = xr.DataArray([float(v) for v in fv], dims=["b"], coords={"b": [0, 1, 2]})
    O = xr.DataArray([[NAN if v is None else float(v) for v in row] for row in ov], dims=["t", "b"], coords={"t": [0, 1], "b": [0, 1, 2]})
    th = [Fr(-1), Fr(0), Fr(1, 2), Fr(1), Fr(7, 4), Fr(2), Fr(5, 2), Fr(3)]
    alpha, a = Fr(1, 4), Fr(1)
    for fn in FUNCS:
        hk = {"huber_a": float(a)} if fn == "huber" else {}
        base = dict(functional=fn, alpha=float(alpha), **hk)
        written = dict({"huber_a": None}, **base, decomposition=False, reduce_dims=None, preserve_dims=None)
        st0, r0 = core.call_impl(C.murphy_score, F, O, [float(t) for t in th], **base)
        st1, r1 = core.call_impl(C.murphy_score, F, O, [float(t) for t in th], **written)
        case = {"fn": "murphy_score", "fcst[b]": fv, "obs[t][b]": ov, "thetas": th, "functional": fn, "alpha": alpha, "huber_a": a if hk else None}
        ctx.case(("defaults", "murphy_score", fn))
        ctx.count("defaults_corpus")
        want = [sum(orc_es(fn, alpha, a, fv[l], ov[i][l], t)[0] for i in range(2) for l in range(3) if ov[i][l] is not None) / 5 for t in th]
        if st0 != "ok" or st1 != "ok":
            ctx.violation("murphy_score raised with the optional arguments omitted / at their documented defaults", case, "values", r0 if st0 != "ok" else r1)
        elif not (list(r0.data_vars) == ["total"] and r0["total"].dims == ("theta",) and r0.identical(r1)
                  and all(core.close(float(g), w) for g, w in zip(r0["total"].values, want))):
            ctx.violation("murphy_score with the optional arguments omitted is not the documented default (total only, mean over every dimension of "
                          "forecast and observations)", case, {"variables": ["total"], "dims": ["theta"], "total": want},
                          {"variables": list(r0.data_vars), "dims": list(r0["total"].dims), "total": np.asarray(r0["total"].values).ravel()[:12].tolist(),
                           "identical_to_written_out": bool(r0.identical(r1))})
        # each reduction request, omitted vs named: preserving b == reducing t; naming the observation-only dimension is valid
        for kw, keep in (({"preserve_dims": ["b"]}, "b"), ({"reduce_dims": ["t"]}, "b"), ({"reduce_dims": "t"}, "b"), ({"preserve_dims": "t"}, "t"), ({"reduce_dims": ["b"]}, "t")):
            st, r = core.call_impl(C.murphy_score, F, O, [float(t) for t in th], decomposition=True, **base, **kw)
            ctx.case(("defaults", "murphy_score", fn, repr(kw)))
            if st != "ok" or any(set(r[n].dims) != {"theta", keep} for n in NAMES):
                ctx.violation("murphy_score: a dimension only the observations have is not reduced / preserved as requested", dict(case, **kw),
                              ["theta", keep], r if st != "ok" else {n: list(r[n].dims) for n in NAMES})
                continue
            for k, name in enumerate(NAMES):
                got = r[name].transpose("theta", keep).values
                for j, t in enumerate(th):
                    for c in range(3 if keep == "b" else 2):
                        cells = [(i, c) for i in range(2)] if keep == "b" else [(c, l) for l in range(3)]
                        vals = [orc_es(fn, alpha, a, fv[l], ov[i][l], t)[k] for i, l in cells if ov[i][l] is not None]
                        if not core.close(float(got[j][c]), mean_ext(vals)):
                            ctx.violation("murphy_score: mean over a dimension only the observations have differs from the mean elementary score",
                                          dict(case, **kw, variable=name, theta=t, label=c), mean_ext(vals), float(got[j][c]))
                            break
                    else:
                        continue
                    break
                else:
                    continue
                break
        # murphy_thetas: omitted == None written out == left_limit_delta=0 (documented: None is treated as 0)
        got = [core.call_impl(C.murphy_thetas, [F], O, fn, **hk), core.call_impl(C.murphy_thetas, [F], O, fn, **dict({"huber_a": None}, **hk), left_limit_delta=None),
               core.call_impl(C.murphy_thetas, [F], O, fn, left_limit_delta=0, **hk), core.call_impl(C.murphy_thetas, forecasts=[F], obs=O, functional=fn, **hk)]
        obs_vals = {v for row in ov for v in row if v is not None}
        need = set(fv) | obs_vals | ({o + a for o in obs_vals} | {o - a for o in obs_vals} if fn == "huber" else set())
        ctx.case(("defaults", "murphy_thetas", fn))
        ctx.count("defaults_corpus")
        if any(g[0] != "ok" or [Fr(float(x)) for x in g[1]] != sorted(need) for g in got):
            ctx.violation("murphy_thetas with huber_a / left_limit_delta omitted differs from the documented defaults (None, None treated as 0)",
                          {"fn": "murphy_thetas", "forecasts": [fv], "obs": ov, "functional": fn, **hk}, sorted(need), [str(g[1])[:120] for g in got])


def model_available(ctx):
    b = getattr(ctx, "build", None) or {}
    return "C11" not in (b.get("excluded_models") or []) and b.get("files", {}).get("model/C11.v", {}).get("ok", True)


def run_without_model(ctx):
    """used when a site no longer translates / the extracted model does not build: implementation-only predicates with the exact
    rational oracle (elementary scores on the tie grid, means with NaN, kink sets, constancy / affinity between thetas, integral, guards)"""
    oracle_grid(ctx)
    defaults_corpus(ctx)
    ragged_corpus(ctx)
    guard_probes(ctx)
    diagram_props(ctx, ctx.n(40, 2500))
    diagram_infinite(ctx, ctx.n(30, 1500))
    oracle_means(ctx, ctx.n(60, 3000))
    label_sets_corpus(ctx)
    dtype_cases(ctx, ctx.n(60, 2000))
    fine_thetas(ctx, ctx.n(40, 1500))


def run(ctx):
    if not model_available(ctx):
        ctx.tie_fail("coq/model/C11.v does not build against the current source (a translator site is untranslatable or changed shape)",
                     {"files": {k: v for k, v in (ctx.build.get("files") or {}).items() if not v.get("ok")}}, "-", "-")
        return run_without_model(ctx)
    kernel_grid(ctx)
    oracle_grid(ctx)
    oracle_means(ctx, ctx.n(100, 3000))
    defaults_corpus(ctx)
    ragged_corpus(ctx)
    label_sets_corpus(ctx)
    guard_probes(ctx)
    dtype_cases(ctx, ctx.n(60, 2000))
    fine_thetas(ctx, ctx.n(40, 1500))
    diagram_props(ctx, ctx.n(40, 2500))
    diagram_infinite(ctx, ctx.n(30, 1500))
    murphy_cases(ctx, ctx.n(220, 12000))
    thetas_cases(ctx, ctx.n(200, 10000))


def replay(ctx, rec):
    """./check C11 --replay <file>: the check is deterministic in (seed, tier); the recorded failing input is reproduced by re-running
    it with the recorded seed and tier (kernel grid, probes and predicates do not depend on the seed at all)."""
    import random
    ctx.rng = random.Random(rec.get("seed", ctx.seed))
    ctx.tier = rec.get("tier", ctx.tier)
    run(ctx)
