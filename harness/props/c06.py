"""C06 -- ensemble CRPS is the exact CRPS of the ensemble, and its weighted parts add up."""
import itertools
from fractions import Fraction

import numpy as np
import xarray as xr

import core
import gens
from core import enc_arr, enc_bool, enc_dimspec, enc_list, enc_num, enc_nums, enc_opt, enc_str

ID = "C06"
LEVEL = "proof"
LEVEL_TEXT = ("Coq theorems for ensembles of every size and all rational members, observations and thresholds: the kernel form computed by "
              "crps_for_ensemble (method ecdf) is the Riemann integral of (F_ens - 1{y<=t})^2 (Coquelicot is_RInt, bridged with Q2R), fair differs "
              "only in the spread normalisation, total = under + over - spread, lower tail + interval + upper tail = unweighted CRPS (both methods, "
              "per-case thresholds), the threshold integral of the ensemble Brier score (with and without fair correction) is the matching CRPS, "
              "an infinite member of the ensemble Brier score is a valid member beyond the threshold, "
              "invariance under permutation / translation / |a|-scaling, non-negativity and zero-iff. The elementwise expressions of the code are "
              "regenerated from source on every run; the reduction skeleton is a hand model tied by a correspondence check. Proof is the right level: "
              "the relations hold between different public functions and hinge on ties (member = obs = threshold) no sample is guaranteed to hit.")
LEVEL_NOTE = ("trusted: custom translator site tools/sites/c06.py (insists on the reduction skeleton, fail-closed) + Xval semantics, the hand model of "
              "NaN-skipping reductions / broadcasting / dims rule (validated by correspondence), extraction, harness; integral theorems use the "
              "standard-library Reals axioms reported by Print Assumptions; binary64 rounding is not modelled (tolerance 1e-9)")
TECHNIQUE = "Coq proof (Q algebra axiom-free, Coquelicot is_RInt for the integral statements) + regenerated kernels + extracted-model correspondence"
SITES = ["C06.crps", "C06.chain", "C06.brier"]
RULE = ("(a) per-case sweep: every ensemble of 1..3 slots over the grid {0,1/2,1,2,NaN} x every observation of that grid x both methods "
        "(exhaustive), plus random ensembles of 1..6 members on the grid k/2, |k|<=6, with NaN members (p in {0,.2,.5}) and NaN observations; "
        "(b) full-function cases: 1-2 data dims of size 1-3 plus a member dim of size 1..6, obs / weights / threshold arrays on random subsets of "
        "the data dims (sometimes a dim the forecast lacks), labels stored in shuffled order, plain / tail(upper,lower) / interval / generic "
        "chaining call, thresholds scalar or per-case arrays drawn from the same grid (so member = obs = threshold ties are frequent), both "
        "methods, include_components, weights, every request spelling, and a malformed stream (bad method / tail, lower >= upper, member dim in "
        "obs / weights / request, both requests, unknown dim); "
        "(c) fixed stored ensemble sizes 5, 7, 9, 51 (and two of 3..50) with NaN members, through every per-case predicate; "
        "(d) storage dtypes: the ensemble stored as float64 / float32 / int64 / int32 / int16 / int8 / uint8 / uint16 / uint32 / bool (integer "
        "values, sometimes next to the ends of the dtype's range; 1..9, 12 or 51 members) and the observation in the same or another dtype, "
        "scored by crps_for_ensemble, the tail / interval variants (fractional thresholds) and brier_score_for_ensemble (operators ge, gt, le, "
        "lt; thresholds at k+1/2, on a member, a member +- 2^-30, below / above all data) against exact rational oracles and against the same "
        "call on the float64 copy of the values; "
        "(e) infinite values as valid data: every ensemble of 1..3 slots over {0, 1, NaN, +inf, -inf} x every observation of that set with at "
        "least one infinity (exhaustive) and random ensembles of 1..6 members with one / some / only infinite members (one sign or both), NaN "
        "members, finite / infinite / missing observations: every cell of brier_score_for_ensemble (four operators, with / without fair "
        "correction, thresholds on / between / beside the finite values and at -inf / +inf) against the exact (i/m - 1{obs in event})^2 oracle "
        "with i and m counted over the non-missing members, its threshold integral over a finite [a, b] = interval_tw_crps_for_ensemble(a, b) = "
        "exact CRPS of the clipped values, crps_for_ensemble / tail / interval with components against the kernel form on the extended reals "
        "wherever that is not inf - inf, infinite thresholds as the ends of the real line (interval(-inf, +inf) = plain, interval(-inf, b) = "
        "lower tail, ...), and infinite values in the full-function cases of (b); "
        "(f) Dataset inputs: 2-3 variables over shared coordinates whose NaN positions differ by construction (missing observation / all-NaN "
        "ensemble / single valid member / scattered NaN members / complete, a different class per variable; dims stored in a different order per "
        "variable; sometimes one shared DataArray observation), through crps_for_ensemble, tail / interval / generic chaining and "
        "brier_score_for_ensemble with every option: each variable of the result = the same call on that variable alone, parts add up per variable; "
        "(g) magnitudes: the dyadic ensembles of (a) and (c) multiplied by 2^k, k = -60 and 40 always and two of -59..39 (exact in binary64), and "
        "shifted by an ordinary-magnitude offset c (k = -45..-30: a nearly perfect forecast): crps_for_ensemble (four components, both methods), "
        "lower tail / interval / upper tail and the threshold integral of brier_score_for_ensemble against the exact rational oracle of the scaled "
        "values with a tolerance of 1e-9 relative to max(|value|, 2^k) (no absolute floor), zero iff every member equals the observation, parts add "
        "up, and score(2^k x + c, 2^k y + c) = 2^k score(x, y) (Brier cells unchanged); "
        "(h) optional arguments: for each of the five public functions every optional argument (method, include_components, weights with a NaN and "
        "a zero weight, reduce_dims / preserve_dims in every spelling, tail, chaining_func_kwargs None / {} / override, fair_correction, the four "
        "event_threshold_operators on thresholds on and between members, threshold_dim, a scalar int / float threshold) omitted and explicit, at the "
        "documented default and at other values, alone and next to the others written out: result dimensions and values = exact oracle for the "
        "effective arguments; every call whose effective arguments are the documented defaults is bitwise equal to the fully explicit one. "
        "A case is distinct by the hash of its full description and non-trivial when the "
        "implementation returns at least one finite value.")
ASSUMPTIONS = ["the Coq statements are for finite rational members, observations and thresholds (or NaN = missing); +-inf members / observations / "
               "thresholds are covered by the model correspondence (Xval computes with infinities as IEEE does) and by tested predicates against exact "
               "extended-real oracles; where the kernel form is inf - inf (two members infinitely far apart, or a member equal to an infinite observation) "
               "crps_for_ensemble returns NaN (the integral is +inf or finite there): not compared, counted in the evidence (inf:not-compared...)",
               "Dataset inputs are not modelled in Coq: that each variable is scored as it is alone as a DataArray is a tested predicate",
               "the Coq statement about brier_score_for_ensemble is for operator.ge (at interval midpoints >= and > coincide); the other operators "
               "and thresholds on a member are compared with an exact rational oracle only",
               "storage dtypes are not modelled in Coq (the model computes with rationals): independence of the storage dtype is a tested predicate",
               "magnitudes 2^-60 .. 2^40 (and differences of 2^-46 at order 1) are tested against exact oracles; binary64 underflow / overflow "
               "(subnormal data, values beyond 1e300) is outside the tested range",
               "documented defaults of the optional arguments are the table doc_defaults() in the check module (read off the signatures and docstrings)"]
TRUSTED = ["tools/sites/c06.py: custom translator sites; they check the statement skeleton of crps_for_ensemble / tw_* / brier_score_for_ensemble and "
           "translate only the elementwise expressions; the NaN-skipping sum/mean/count semantics they assume are validated by the correspondence check"]

# counters every complete run must have incremented (harness self-check: a predicate family that silently never runs is reported)
EXPECT_COUNTS = ["sweep", "random-case", "tw-case", "tw-sweep", "invariance", "brier-integral", "brier-weights", "chain-kwargs", "size-case", "size-tw", "size-brier",
                 "size:members=51", "storage", "storage:fcst=uint8", "storage:fcst=bool", "storage:fcst=float32", "storage:members=51",
                 "inf-brier-cells", "inf-brier-integral", "inf-crps", "inf-thresholds", "inf:member=+inf", "inf:member=-inf", "inf:member=+-inf", "inf:obs=inf",
                 "dataset:plain", "dataset:tail", "dataset:interval", "dataset:chain", "dataset:brier", "dataset:components", "dataset:parts-add-up",
                 "dataset:nan-class=missing-obs", "dataset:nan-class=all-nan-ensemble", "dataset:nan-class=single-member",
                 "full:plain", "full:tail", "full:interval", "full:chain", "full:chain-kwargs", "full:components", "full:weights", "full:infinite-values",
                 "full:err:ValueError", "additivity:full", "reduction", "guards", "corpus",
                 "magnitude", "magnitude:2^-60", "magnitude:2^40", "magnitude:2^k", "magnitude-offset", "magnitude:offset",
                 "defaults", "defaults:crps_for_ensemble", "defaults:tw_crps_for_ensemble", "defaults:tail_tw_crps_for_ensemble",
                 "defaults:interval_tw_crps_for_ensemble", "defaults:brier_score_for_ensemble"]

GRID = [Fraction(k, 2) for k in range(-6, 7)]
SMALL = [Fraction(0), Fraction(1, 2), Fraction(1), Fraction(2)]
NAN = float("nan")
INF = float("inf")
COMPONENTS = ["total", "underforecast_penalty", "overforecast_penalty", "spread"]


def P():
    import scores.probability as p
    return p


def isnan(v):
    return isinstance(v, float) and v != v


def isinf(v):
    return isinstance(v, float) and (v == INF or v == -INF)


def fl(v):
    return NAN if isnan(v) else float(v)


# ---------------------------------------------------------------------------------------------------
# independent oracle: the integral of (F_ens - 1{y <= t})^2 in exact rationals
# ---------------------------------------------------------------------------------------------------
def ecdf_integral(xs, y):
    xs = [x for x in xs if not isnan(x)]
    if not xs or isnan(y):
        return NAN
    pts = sorted(set(xs + [y]))
    m = len(xs)
    tot = Fraction(0)
    for a, b in zip(pts, pts[1:]):
        Fv = Fraction(sum(1 for x in xs if x <= a), m)
        H = 1 if y <= a else 0
        tot += (b - a) * (Fv - H) ** 2
    return tot


def pad(cases):
    """NaN-pad every member list to the common length: the model must receive exactly the slots the implementation receives"""
    M = max(len(c[0]) for c in cases)
    return [(list(xs) + [NAN] * (M - len(xs)), y) for xs, y in cases]


def kernel_form(valid, y, meth):
    """(1/m) sum|x_i - y| - (1/(2K)) sum sum|x_i - x_j|, K = m^2 (ecdf) or m(m-1) (fair), over the valid members"""
    if not valid or isnan(y):
        return NAN
    m = len(valid)
    if meth == "fair" and m == 1:
        return NAN
    S = sum((abs(x - y) for x in valid), Fraction(0))
    Pp = sum((abs(a - b) for a in valid for b in valid), Fraction(0))
    return S / m - Pp / (2 * (m * m if meth == "ecdf" else m * (m - 1)))


def batch_arrays(cases):
    """cases: list of (members list (NaN padded to a common length), obs) -> fcst[case, m], obs[case]"""
    M = max(len(c[0]) for c in cases)
    f = np.full((len(cases), M), NAN)
    o = np.full(len(cases), NAN)
    for i, (xs, y) in enumerate(cases):
        f[i, :len(xs)] = [fl(x) for x in xs]
        o[i] = fl(y)
    return xr.DataArray(f, dims=["case", "m"]), xr.DataArray(o, dims=["case"])


def same(a, b, tol=1e-9):
    a = np.asarray(a, dtype=float)
    b = np.asarray(b, dtype=float)
    with np.errstate(invalid="ignore"):
        return (np.isnan(a) & np.isnan(b)) | (a == b) | (np.abs(a - b) <= tol * np.maximum(1.0, np.abs(b)))      # a == b: equal infinities


def ct_values(ctx, r, desc):
    """(case, threshold) values of a per-case brier_score_for_ensemble result; a result with other dimensions is a violation (None)"""
    if not isinstance(r, xr.DataArray) or set(r.dims) != {"case", "threshold"}:
        ctx.violation("brier_score_for_ensemble(preserve_dims='all') of fcst[case, member], obs[case] does not have the dimensions (case, threshold)", desc,
                      ["case", "threshold"], [str(d) for d in getattr(r, "dims", [type(r).__name__])])
        return None
    return r.transpose("case", "threshold").values


# ---------------------------------------------------------------------------------------------------
# (a) per-case level
# ---------------------------------------------------------------------------------------------------
def has_model(ctx):
    return not getattr(ctx, "no_model", False)


def case_level(ctx, cases, tag):
    p = P()
    cases = pad(cases)
    fc, ob = batch_arrays(cases)
    for meth in ("ecdf", "fair"):
        impl = p.crps_for_ensemble(fc, ob, "m", method=meth, preserve_dims="all", include_components=True)
        iv = {c: impl.sel(component=c).values for c in COMPONENTS}
        for i, (xs, y) in enumerate(cases):
            got = [iv[c][i] for c in COMPONENTS]
            desc = {"fn": "crps_for_ensemble", "members": xs, "obs": y, "method": meth}
            valid = [x for x in xs if not isnan(x)]
            ctx.case((tag, meth, tuple(map(str, xs)), str(y)), nontrivial=bool(valid) and not isnan(y))
            if has_model(ctx):
                tot, und, ovr, spr, spec = core.dec_nums(ctx.model("c06_case", enc_list([enc_nums(xs), enc_num(y), enc_str(meth)])))
                if not core.close_list(got, [tot, und, ovr, spr]):
                    ctx.tie_fail("crps_for_ensemble (one case, components) vs model", desc, [float(g) for g in got], [str(v) for v in (tot, und, ovr, spr)])
            else:
                spec = kernel_form(valid, y, meth)      # the same specification, evaluated by the harness in exact rationals
            # value = proved specification (kernel form over the valid members)
            if not core.close(got[0], spec):
                ctx.violation("crps_for_ensemble differs from the kernel form over the non-missing members", desc, spec, float(got[0]))
            # ecdf: = the integral of (F_ens - 1{y<=t})^2, computed independently in exact rationals
            if meth == "ecdf":
                integ = ecdf_integral(xs, y)
                if not core.close(got[0], integ):
                    ctx.violation("crps_for_ensemble(method=ecdf) is not the integral of (F_ens - H_obs)^2", desc, integ, float(got[0]))
                if not isnan(integ):
                    if got[0] < -1e-12:
                        ctx.violation("ecdf CRPS is negative", desc, ">= 0", float(got[0]))
                    allsame = all(x == y for x in valid)
                    if (abs(got[0]) <= 1e-12) != allsame:
                        ctx.violation("ecdf CRPS is zero iff every member equals the observation", desc, "zero" if allsame else "positive", float(got[0]))
            # the penalties are the documented sums (1/m) sum (y - x_i)^+ and (1/m) sum (x_i - y)^+ over the valid members
            if valid and not isnan(y):
                du = sum((max(y - x, 0) for x in valid), Fraction(0)) / len(valid)
                do = sum((max(x - y, 0) for x in valid), Fraction(0)) / len(valid)
                if not core.close(got[1], du) or not core.close(got[2], do):
                    ctx.violation("underforecast / overforecast penalty differs from its documented formula", desc, [du, do], [float(got[1]), float(got[2])])
            # a missing observation / no valid member removes the case from every component
            if (not valid or isnan(y)) and not all(np.isnan(g) for g in got):
                ctx.violation("a case without valid input is not NaN in every component", desc, ["nan"] * 4, [float(g) for g in got])
            # total = under + over - spread
            if not (np.isnan(got[0]) and any(np.isnan(g) for g in got[1:])) and not core.close(got[1] + got[2] - got[3], Fraction(got[0]) if not np.isnan(got[0]) else NAN):
                ctx.violation("total != underforecast + overforecast - spread", desc, float(got[0]), float(got[1] + got[2] - got[3]))
            if np.isnan(got[0]) != (np.isnan(got[1]) or np.isnan(got[2]) or np.isnan(got[3])) and not (meth == "fair" and len(valid) == 1):
                ctx.violation("NaN pattern of the components differs from the total", desc, float(got[0]), [float(g) for g in got[1:]])
    ctx.count(tag, len(cases))


def rand_case(rng, maxm=6, grid=GRID):
    m = rng.randint(1, maxm)
    pn = rng.choice([0.0, 0.0, 0.2, 0.5])
    pool = rng.sample(grid, rng.randint(1, min(4, len(grid))))       # few distinct values: ties in most cases
    xs = [NAN if rng.random() < pn else rng.choice(pool) for _ in range(m)]
    y = NAN if rng.random() < 0.1 else (rng.choice(pool) if rng.random() < 0.5 else rng.choice(grid))
    return xs, y


def tw_level(ctx, cases, tag, fixed=None):
    """lower tail + interval + upper tail = unweighted, per case, scalar and per-case thresholds (implementation and model)"""
    p = P()
    cases = pad(cases)
    rng = ctx.rng
    fc, ob = batch_arrays(cases)
    n = len(cases)
    for meth in ("ecdf", "fair"):
        plain = p.crps_for_ensemble(fc, ob, "m", method=meth, preserve_dims="all").values
        for kind in ("scalar", "array"):
            if fixed is not None:
                if kind != fixed[2]:
                    continue
                los, his = [fixed[0]] * n, [fixed[1]] * n
                if kind == "scalar":
                    tlo, thi = float(fixed[0]), float(fixed[1])
                else:
                    tlo = xr.DataArray([float(v) for v in los], dims=["case"])
                    thi = xr.DataArray([float(v) for v in his], dims=["case"])
            elif kind == "scalar":
                lo, hi = sorted(rng.sample(GRID, 2))
                los, his = [lo] * n, [hi] * n
                tlo, thi = float(lo), float(hi)
            else:
                los, his = [], []
                for xs, y in cases:
                    pool = [v for v in xs + [y] if not isnan(v)] or GRID
                    a = rng.choice(pool) if rng.random() < 0.6 else rng.choice(GRID)
                    b = rng.choice([g for g in GRID + [Fraction(7)] if g > a])
                    los.append(a)
                    his.append(b)
                tlo = xr.DataArray([float(v) for v in los], dims=["case"])
                thi = xr.DataArray([float(v) for v in his], dims=["case"])
            low = p.tail_tw_crps_for_ensemble(fc, ob, "m", tlo, tail="lower", method=meth, preserve_dims="all").values
            mid = p.interval_tw_crps_for_ensemble(fc, ob, "m", tlo, thi, method=meth, preserve_dims="all").values
            upp = p.tail_tw_crps_for_ensemble(fc, ob, "m", thi, tail="upper", method=meth, preserve_dims="all").values
            ok = same(low + mid + upp, plain)
            for i, (xs, y) in enumerate(cases):
                desc = {"fn": "tail/interval/tail", "members": xs, "obs": y, "lower_threshold": los[i], "upper_threshold": his[i], "method": meth,
                        "thresholds": kind}
                ctx.case((tag, kind, meth, tuple(map(str, xs)), str(y), str(los[i]), str(his[i])), nontrivial=not np.isnan(plain[i]))
                if not ok[i]:
                    ctx.violation("lower tail + interval + upper tail != unweighted CRPS", desc, float(plain[i]), float(low[i] + mid[i] + upp[i]))
                if not has_model(ctx):
                    continue
                m4 = core.dec_nums(ctx.model("c06_tw_case", enc_list([enc_nums(xs), enc_num(y), enc_num(los[i]), enc_num(his[i]), enc_str(meth)])))
                if not core.close_list([low[i], mid[i], upp[i], plain[i]], m4):
                    ctx.tie_fail("tail / interval / tail / plain (one case) vs model", desc, [float(low[i]), float(mid[i]), float(upp[i]), float(plain[i])],
                                 [str(v) for v in m4])
    ctx.count(tag, len(cases))


def brier_level(ctx, cases, tag):
    """sum over consecutive break points of width x ensemble Brier score at the midpoint = CRPS (ecdf / fair)"""
    p = P()
    cases = pad(cases)
    fc, ob = batch_arrays(cases)
    pts = sorted({v for xs, y in cases for v in xs + [y] if not isnan(v)})
    if len(pts) < 2:
        return
    mids = [(a + b) / 2 for a, b in zip(pts, pts[1:])]
    wid = np.array([float(b - a) for a, b in zip(pts, pts[1:])])
    for fair in (False, True):
        bs = p.brier_score_for_ensemble(fc, ob, "m", [float(t) for t in mids], fair_correction=fair, preserve_dims="all")
        bs = ct_values(ctx, bs, {"fn": "brier_score_for_ensemble integral", "members": cases[0][0], "obs": cases[0][1], "fair": fair, "breakpoints": pts})
        if bs is None:
            continue
        integ = (bs * wid).sum(axis=1)
        ref = p.crps_for_ensemble(fc, ob, "m", method="fair" if fair else "ecdf", preserve_dims="all").values
        for i, (xs, y) in enumerate(cases):
            nvalid = sum(1 for x in xs if not isnan(x))
            desc = {"fn": "brier_score_for_ensemble integral", "members": xs, "obs": y, "fair": fair, "breakpoints": pts}
            ctx.case((tag, fair, tuple(map(str, xs)), str(y)), nontrivial=not np.isnan(ref[i]))
            if fair and nvalid == 1:
                continue      # fair CRPS of one member is 0/0 = NaN by its documented normalisation; the Brier correction is defined as 0
            if not same(integ[i], ref[i]):
                ctx.violation("threshold integral of the ensemble Brier score != CRPS", desc, float(ref[i]), float(integ[i]))
        # the one-cell Brier model used by the theorem, against the implementation (a few thresholds incl. ties)
        for i in ctx.rng.sample(range(len(cases)), min(len(cases), 12) if has_model(ctx) else 0):
            xs, y = cases[i]
            j = ctx.rng.randrange(len(mids))
            mv = core.dec_num(ctx.model("c06_brier_cell", enc_list([enc_nums(xs), enc_num(y), enc_num(mids[j]), enc_bool(fair)])))
            if not core.close(bs[i, j], mv):
                ctx.tie_fail("brier_score_for_ensemble cell vs model", {"members": xs, "obs": y, "threshold": mids[j], "fair": fair}, float(bs[i, j]), str(mv))
    # thresholds equal to members / obs (ties), model only vs implementation
    tie_t = [float(t) for t in pts]
    for fair in ((False, True) if has_model(ctx) else ()):
        bs = ct_values(ctx, p.brier_score_for_ensemble(fc, ob, "m", tie_t, fair_correction=fair, preserve_dims="all"),
                       {"fn": "brier_score_for_ensemble integral", "members": cases[0][0], "obs": cases[0][1], "fair": fair, "breakpoints": pts})
        if bs is None:
            continue
        for i in ctx.rng.sample(range(len(cases)), min(len(cases), 12)):
            xs, y = cases[i]
            j = ctx.rng.randrange(len(pts))
            mv = core.dec_num(ctx.model("c06_brier_cell", enc_list([enc_nums(xs), enc_num(y), enc_num(pts[j]), enc_bool(fair)])))
            ctx.case((tag, "tie", fair, tuple(map(str, xs)), str(y), str(pts[j])))
            if not core.close(bs[i, j], mv):
                ctx.tie_fail("brier_score_for_ensemble cell (threshold on a member/obs) vs model", {"members": xs, "obs": y, "threshold": pts[j], "fair": fair},
                             float(bs[i, j]), str(mv))
    ctx.count(tag, len(cases))


def chained_exact(xs, y, t, tail, meth):
    """exact oracle: kernel form of the chained members / observation"""
    g = (lambda v: max(v, t)) if tail == "upper" else (lambda v: min(v, t))
    valid = [g(x) for x in xs if not isnan(x)]
    return kernel_form(valid, NAN if isnan(y) else g(y), meth)


def kwargs_level(ctx, cases, tag):
    """tw_crps_for_ensemble called directly with a chaining function whose threshold parameter has a default that
    chaining_func_kwargs overrides: the override must reach the members AND the observation.  Compared with the exact oracle,
    with tail_tw_crps_for_ensemble, and (when available) with the model."""
    p = P()
    rng = ctx.rng
    cases = pad(cases)
    fc, ob = batch_arrays(cases)
    n = len(cases)
    for meth in ("ecdf", "fair"):
        for tail in ("upper", "lower"):
            for kind in ("scalar", "array"):
                default = Fraction(-9) if tail == "upper" else Fraction(9)        # the default clips nothing
                if rng.random() < 0.3:
                    default = rng.choice(GRID)
                ts = []
                for xs, y in cases:
                    # obs on the clipped side of the override in most cases, ties obs == t included
                    if not isnan(y) and rng.random() < 0.7:
                        cand = [g for g in GRID + [Fraction(13, 2), Fraction(-13, 2)] if (g >= y if tail == "upper" else g <= y)]
                        ts.append(rng.choice(cand))
                    else:
                        ts.append(rng.choice(GRID))
                if kind == "scalar":
                    ts = [ts[0]] * n
                    targ = float(ts[0])
                else:
                    targ = xr.DataArray([float(v) for v in ts], dims=["case"])
                got = core.call_impl(p.tw_crps_for_ensemble, fc, ob, "m", chain_fn(tail, float(default)), chaining_func_kwargs={"t": targ},
                                     method=meth, preserve_dims="all")
                ref = core.call_impl(p.tail_tw_crps_for_ensemble, fc, ob, "m", targ, tail=tail, method=meth, preserve_dims="all")
                base = {"fn": "tw_crps_for_ensemble", "chaining_func": f"def v(x, t={default}): return np.{'maximum' if tail == 'upper' else 'minimum'}(x, t)",
                        "tail": tail, "method": meth, "thresholds": kind}
                if got[0] != "ok" or ref[0] != "ok":
                    ctx.violation("tw_crps_for_ensemble with chaining_func_kwargs fails", dict(base, chaining_func_kwargs={"t": gens.da_repr(targ)}), "a value",
                                  [got[1] if got[0] == "err" else "ok", ref[1] if ref[0] == "err" else "ok"])
                    continue
                gv, rv = got[1].values, ref[1].values
                for i, (xs, y) in enumerate(cases):
                    desc = dict(base, members=xs, obs=y, chaining_func_kwargs={"t": ts[i]})
                    exact = chained_exact(xs, y, ts[i], tail, meth)
                    ctx.case((tag, meth, tail, kind, tuple(map(str, xs)), str(y), str(ts[i]), str(default)), nontrivial=not isnan(exact))
                    if not core.close(gv[i], exact):
                        ctx.violation("tw_crps_for_ensemble(chaining_func_kwargs) differs from the kernel form of the chained members and observation "
                                      "(the keyword override must reach both)", desc, exact, float(gv[i]))
                    elif not same(gv[i], rv[i]):
                        ctx.violation("tw_crps_for_ensemble(chaining_func_kwargs) differs from tail_tw_crps_for_ensemble at the same threshold", desc,
                                      float(rv[i]), float(gv[i]))
                    if has_model(ctx) and rng.random() < 0.25:
                        m4 = core.dec_nums(ctx.model("c06_tw_case", enc_list([enc_nums(xs), enc_num(y), enc_num(ts[i]), enc_num(ts[i]), enc_str(meth)])))
                        mv = m4[2] if tail == "upper" else m4[0]
                        if not core.close(gv[i], mv):
                            ctx.tie_fail("tw_crps_for_ensemble(chaining_func_kwargs) vs model", desc, float(gv[i]), str(mv))
    ctx.count(tag, len(cases))


def brier_exact(xs, y, t, fair):
    """exact ensemble Brier score of the event `>= t` (fair correction i(m-i)/(m^2(m-1)), defined as 0 for one member)"""
    valid = [x for x in xs if not isnan(x)]
    if not valid or isnan(y):
        return NAN
    m = len(valid)
    i = sum(1 for x in valid if x >= t)
    r = (Fraction(i, m) - (1 if y >= t else 0)) ** 2
    if fair and m > 1:
        r -= Fraction(i * (m - i), m * m * (m - 1))
    return r


def brier_weights_level(ctx, cases, tag):
    """weights multiply the whole per-case Brier score (squared error minus fair correction): with non-unit weights and
    fair_correction=True the weighted per-case result is w x the unweighted one (= w x exact oracle), its mean over cases is the
    mean of those, and the weighted threshold integral is the weighted fair CRPS"""
    p = P()
    rng = ctx.rng
    cases = pad(cases)
    fc, ob = batch_arrays(cases)
    pts = sorted({v for xs, y in cases for v in xs + [y] if not isnan(v)})
    if len(pts) < 2:
        return
    mids = [(a + b) / 2 for a, b in zip(pts, pts[1:])]
    wid = np.array([float(b - a) for a, b in zip(pts, pts[1:])])
    ws = [rng.choice([Fraction(1, 2), Fraction(3, 2), Fraction(2), Fraction(3), Fraction(1, 4)]) for _ in cases]
    w = xr.DataArray([float(v) for v in ws], dims=["case"])
    tf = [float(t) for t in mids]
    for fair in (True, False):
        r1 = core.call_impl(p.brier_score_for_ensemble, fc, ob, "m", tf, fair_correction=fair, preserve_dims="all")
        rw = core.call_impl(p.brier_score_for_ensemble, fc, ob, "m", tf, fair_correction=fair, preserve_dims="all", weights=w)
        rm = core.call_impl(p.brier_score_for_ensemble, fc, ob, "m", tf, fair_correction=fair, reduce_dims=["case"], weights=w)
        cw = core.call_impl(p.crps_for_ensemble, fc, ob, "m", method="fair" if fair else "ecdf", preserve_dims="all", weights=w)
        base = {"fn": "brier_score_for_ensemble", "fair_correction": fair}
        if any(x[0] != "ok" for x in (r1, rw, rm, cw)):
            ctx.violation("brier_score_for_ensemble / crps_for_ensemble with weights fails", base, "values", [x[1] if x[0] == "err" else "ok" for x in (r1, rw, rm, cw)])
            continue
        a1 = ct_values(ctx, r1[1], dict(base, members=cases[0][0], obs=cases[0][1]))
        aw = ct_values(ctx, rw[1], dict(base, members=cases[0][0], obs=cases[0][1], weight=ws[0]))
        if a1 is None or aw is None:
            continue
        am = rm[1].values
        cv = cw[1].values
        for i, (xs, y) in enumerate(cases):
            nvalid = sum(1 for x in xs if not isnan(x))
            for j, t in enumerate(mids):
                ex = brier_exact(xs, y, t, fair)
                want = NAN if isnan(ex) else ws[i] * ex
                if not core.close(aw[i, j], want) or not same(aw[i, j], float(ws[i]) * a1[i, j]):
                    ctx.violation("weighted ensemble Brier score is not weight x (squared error - fair correction)",
                                  dict(base, members=xs, obs=y, threshold=t, weight=ws[i]), want, float(aw[i, j]))
                    break
            ctx.case((tag, fair, tuple(map(str, xs)), str(y), str(ws[i])), nontrivial=nvalid > 0 and not isnan(y))
            if not (fair and nvalid == 1):
                integ = float((aw[i] * wid).sum())
                if not same(integ, cv[i]):
                    ctx.violation("weighted threshold integral of the ensemble Brier score != weighted CRPS",
                                  dict(base, members=xs, obs=y, weight=ws[i], breakpoints=pts), float(cv[i]), integ)
        # mean over cases of the weighted score (NaN cases skipped)
        col = np.array([[fl(ws[i] * brier_exact(xs, y, t, fair)) if not isnan(brier_exact(xs, y, t, fair)) else NAN for t in mids] for i, (xs, y) in enumerate(cases)])
        with np.errstate(all="ignore"):
            import warnings
            with warnings.catch_warnings():
                warnings.simplefilter("ignore")
                wantm = np.nanmean(col, axis=0)
        if not same(am, wantm).all():
            j = int(np.argwhere(~same(am, wantm))[0][0])
            ctx.violation("weighted mean over cases of the ensemble Brier score differs from the mean of weight x score",
                          dict(base, cases=[{"members": xs, "obs": y, "weight": ws[i]} for i, (xs, y) in enumerate(cases)], threshold=mids[j]),
                          float(wantm[j]), float(am[j]))
    ctx.count(tag, len(cases))


# ---------------------------------------------------------------------------------------------------
# storage dtypes: the same values stored as int8..int64 / uint8..uint32 / bool / float32 / float64 score the same
# ---------------------------------------------------------------------------------------------------
STORAGE = ["float64", "float32", "int64", "int32", "int16", "int8", "uint8", "uint16", "uint32", "bool"]
MEMBER_COUNTS = [1, 2, 3, 4, 5, 6, 7, 8, 9, 12, 51]
OPS = ["ge", "gt", "le", "lt"]
EPS = Fraction(1, 2 ** 30)      # thresholds a hair above / below a member: exact in float64, lost by any cast to a narrower type
INT_STORAGE_KEY = "crps-ensemble-integer-storage"


def dtype_range(dt):
    if dt == "bool":
        return 0, 1
    i = np.iinfo(dt)
    return int(i.min), int(i.max)


def rand_typed_batch(rng, k, fdt=None, M=None):
    """k cases with exactly M stored members whose values are representable in the storage dtype fdt (integers for the integer
    and bool dtypes, NaN only for the float dtypes; a few values per batch, so ties are frequent; for the narrow integer dtypes
    sometimes values next to both ends of the dtype's range) and an observation dtype that can hold the observations"""
    fdt = fdt or rng.choice(STORAGE)
    M = M or rng.choice(MEMBER_COUNTS)
    if fdt.startswith("float"):
        grid = GRID if rng.random() < 0.6 else [Fraction(k_, 4) for k_ in range(-10, 11)]
        pool = rng.sample(grid, rng.randint(2, 5))
        pn = rng.choice([0.0, 0.0, 0.2])
        ypool = pool + rng.sample(grid, 2)
        wide = False
    else:
        lo, hi = dtype_range(fdt)
        wide = fdt in ("int8", "int16", "int32", "uint8", "uint16", "uint32") and rng.random() < 0.2
        if fdt == "bool":
            cand = [0, 1]
        elif wide:
            cand = list(range(lo, lo + 4)) + list(range(hi - 3, hi + 1)) + [0, 1, (lo + hi) // 2]
        else:
            cand = list(range(max(lo, -6), min(hi, 9) + 1))
        pool = rng.sample(cand, min(len(cand), rng.randint(2, 5)))
        pn = 0.0
        ypool = pool + rng.sample(cand, min(2, len(cand)))
    cases = []
    for _ in range(k):
        xs = [NAN if rng.random() < pn else rng.choice(pool) for _ in range(M)]
        cases.append((xs, rng.choice(ypool)))
    ys = [y for _, y in cases]
    opts = [fdt, fdt, "float64"]
    if all(float(y).is_integer() for y in ys):
        opts += [d for d in ("int64", "int32", "uint8", "bool") if all(dtype_range(d)[0] <= y <= dtype_range(d)[1] for y in ys)]
    opts += ["float32"] if not wide else []
    odt = rng.choice(opts)
    return cases, fdt, odt


def typed_arrays(cases, fdt, odt):
    f = np.array([[fl(x) for x in xs] for xs, _ in cases], dtype="float64")
    o = np.array([fl(y) for _, y in cases], dtype="float64")
    ft, ot = f.astype(fdt), o.astype(odt)
    # the stored values are the generated ones (a generator that asks for a dtype that cannot hold them is a bug of the check)
    assert np.array_equal(ft.astype("float64"), f, equal_nan=True) and np.array_equal(ot.astype("float64"), o, equal_nan=True), (fdt, odt)
    return xr.DataArray(ft, dims=["case", "m"]), xr.DataArray(ot, dims=["case"])


def storage_wraps(xs, y, fdt, odt):
    """would the differences crps_for_ensemble takes (member - member in the forecast dtype, member - obs in the common dtype)
    leave the range of that dtype?  (unsigned: any negative difference; signed: beyond the dtype's maximum)"""
    def out(d, dt):
        k = np.dtype(dt).kind
        if k == "u":
            return d < 0
        if k == "i":
            return abs(d) > dtype_range(dt)[1]
        return False
    vs = [int(x) for x in xs if not isnan(x)]
    if np.dtype(fdt).kind not in "iu":
        return False
    if any(out(a - b, fdt) for a in vs for b in vs):
        return True
    rt = np.result_type(np.dtype(fdt), np.dtype(odt))
    return any(out(a - int(y), rt) or out(int(y) - a, rt) for a in vs) if rt.kind in "iu" and not isnan(y) else False


def brier_exact_op(xs, y, t, fair, op):
    """exact ensemble Brier score of the event `x <op> t`"""
    ev = {"ge": lambda v: v >= t, "gt": lambda v: v > t, "le": lambda v: v <= t, "lt": lambda v: v < t}[op]
    valid = [x for x in xs if not isnan(x)]
    if not valid or isnan(y):
        return NAN
    m = len(valid)
    i = sum(1 for x in valid if ev(x))
    r = (Fraction(i, m) - (1 if ev(y) else 0)) ** 2
    if fair and m > 1:
        r -= Fraction(i * (m - i), m * m * (m - 1))
    return r


def clip_exact(xs, y, lo, hi, meth):
    """exact oracle: kernel form of the members / observation clipped to [lo, hi] (None = unbounded)"""
    def g(v):
        v = v if lo is None else max(v, lo)
        return v if hi is None else min(v, hi)
    return kernel_form([g(x) for x in xs if not isnan(x)], NAN if isnan(y) else g(y), meth)


def dtype_level(ctx, cases, fdt, odt, tag):
    """the score of an ensemble does not depend on the dtype its values are stored in: crps_for_ensemble, the tail / interval
    variants and brier_score_for_ensemble (all four operators, fractional thresholds, thresholds on and a hair beside a member)
    on integer / bool / float32 arrays = exact rational oracle = the same call on the float64 copy of the same values; the threshold
    integral of the typed ensemble's Brier score = its CRPS"""
    import operator
    p = P()
    rng = ctx.rng
    fc, ob = typed_arrays(cases, fdt, odt)
    fc64, ob64 = fc.astype("float64"), ob.astype("float64")
    # float32 data are scored in float32; xarray's .where() also promotes (u)int8 / (u)int16 / bool data to float32 (the penalties)
    tol = 2e-6 if {fdt, odt} & {"float32", "int8", "int16", "uint8", "uint16", "bool"} else 1e-9
    base = {"fcst_dtype": fdt, "obs_dtype": odt}
    n = len(cases)

    big = max([abs(v) for xs, y in cases for v in xs + [y] if not isnan(v)] + [1])
    big = float(big) if big > 100 else 1.0      # values next to the ends of a dtype's range: the total is a small difference of large terms

    def ok(x, q):
        if big == 1.0 or isnan(q) or not np.isfinite(x):
            return core.close(x, q, tol)
        return abs(float(x) - float(q)) <= tol * max(big, abs(float(q)))

    # ---- crps_for_ensemble ----
    for meth in ("ecdf", "fair"):
        r = core.call_impl(p.crps_for_ensemble, fc, ob, "m", method=meth, preserve_dims="all", include_components=True)
        r64 = core.call_impl(p.crps_for_ensemble, fc64, ob64, "m", method=meth, preserve_dims="all", include_components=True)
        for i, (xs, y) in enumerate(cases):
            desc = dict(base, fn="crps_for_ensemble[dtype]", members=xs, obs=y, method=meth)
            valid = [x for x in xs if not isnan(x)]
            ctx.case((tag, "crps", fdt, odt, meth, tuple(map(str, xs)), str(y)), nontrivial=bool(valid) and not isnan(y))
            tot = kernel_form(valid, y, meth)
            if valid and not isnan(y):
                du = sum((max(y - x, 0) for x in valid), Fraction(0)) / len(valid)
                do = sum((max(x - y, 0) for x in valid), Fraction(0)) / len(valid)
            else:
                du = do = NAN
            want = [tot, du, do, NAN if isnan(tot) or isnan(du) else du + do - tot]
            key = INT_STORAGE_KEY if storage_wraps(xs, y, fdt, odt) else None      # only the inputs whose differences leave the dtype's range
            if r[0] != "ok":
                ctx.violation("crps_for_ensemble fails for this storage dtype (the same values stored as float64 are scored)", desc,
                              [str(w) for w in want], r[1], finding_key=INT_STORAGE_KEY if fdt == "bool" and r[1] == "err:TypeError" else None)
                break
            got = [float(r[1].sel(component=c).values[i]) for c in COMPONENTS]
            bad = [c for c, g, w in zip(COMPONENTS, got, want) if not ok(g, w) and not (c == "spread" and isnan(w))]
            if bad:
                ctx.violation("crps_for_ensemble of an integer / bool / float32 ensemble differs from the exact CRPS of its values (" + ", ".join(bad) + ")",
                              desc, [str(w) for w in want], got, finding_key=key)
            elif r64[0] == "ok" and not same(r[1].values[:, i], r64[1].values[:, i], tol * big).all():
                ctx.violation("crps_for_ensemble: the same values stored as float64 give another result", desc,
                              r64[1].values[:, i].tolist(), r[1].values[:, i].tolist(), finding_key=key)
    # ---- tail / interval variants, fractional thresholds given as floats ----
    fin = sorted({v for xs, y in cases for v in xs + [y] if not isnan(v)})
    if fin:
        cand = sorted({v + d for v in fin for d in (Fraction(-1, 2), Fraction(1, 2), Fraction(1, 4), Fraction(0))})
        for meth in ("ecdf", "fair"):
            for kind in ("scalar", "array"):
                los = [rng.choice(cand) for _ in cases]
                his = [rng.choice([c for c in cand + [cand[-1] + 1] if c > a]) for a in los]
                if kind == "scalar":
                    los, his = [los[0]] * n, [his[0]] * n
                    tlo, thi = float(los[0]), float(his[0])
                else:
                    tlo = xr.DataArray([float(v) for v in los], dims=["case"])
                    thi = xr.DataArray([float(v) for v in his], dims=["case"])
                calls = [("tail_tw_crps_for_ensemble(lower)", lambda f, o: p.tail_tw_crps_for_ensemble(f, o, "m", tlo, tail="lower", method=meth, preserve_dims="all"),
                          lambda i: (None, los[i])),
                         ("interval_tw_crps_for_ensemble", lambda f, o: p.interval_tw_crps_for_ensemble(f, o, "m", tlo, thi, method=meth, preserve_dims="all"),
                          lambda i: (los[i], his[i])),
                         ("tail_tw_crps_for_ensemble(upper)", lambda f, o: p.tail_tw_crps_for_ensemble(f, o, "m", thi, tail="upper", method=meth, preserve_dims="all"),
                          lambda i: (his[i], None))]
                for name, f, rng_of in calls:
                    r = core.call_impl(f, fc, ob)
                    r64 = core.call_impl(f, fc64, ob64)
                    if r[0] != "ok":
                        ctx.violation(name + " fails for this storage dtype", dict(base, fn=name + "[dtype]", members=cases[0][0], obs=cases[0][1], method=meth,
                                                                                    lower_threshold=los[0], upper_threshold=his[0]), "a value", r[1])
                        continue
                    for i, (xs, y) in enumerate(cases):
                        a, b = rng_of(i)
                        desc = dict(base, fn=name + "[dtype]", members=xs, obs=y, method=meth, lower_threshold=los[i], upper_threshold=his[i], thresholds=kind)
                        want = clip_exact(xs, y, a, b, meth)
                        ctx.case((tag, name, fdt, odt, meth, kind, tuple(map(str, xs)), str(y), str(los[i]), str(his[i])), nontrivial=not isnan(want))
                        if not ok(r[1].values[i], want):
                            ctx.violation(name + " of an integer / bool / float32 ensemble differs from the exact CRPS of the clipped values", desc,
                                          str(want), float(r[1].values[i]))
                        elif r64[0] == "ok" and not same(r[1].values[i], r64[1].values[i], tol * big):
                            ctx.violation(name + ": the same values stored as float64 give another result", desc, float(r64[1].values[i]), float(r[1].values[i]))
    # ---- ensemble Brier score: every cell, four operators, with / without fair correction; threshold integral ----
    if len(fin) >= 1:
        mids = [(a + b) / 2 for a, b in zip(fin, fin[1:])]
        near = [v + d for v in rng.sample(fin, min(len(fin), 4)) for d in (EPS, -EPS)] if abs(fin[0]) < 2 ** 20 and abs(fin[-1]) < 2 ** 20 else []
        frac = [v + d for v in rng.sample(fin, min(len(fin), 3)) for d in (Fraction(1, 4), Fraction(-3, 4))]
        ts = sorted(set(mids + fin + near + frac + [fin[0] - Fraction(3, 2), fin[-1] + Fraction(1, 2)]))
        tf = [float(t) for t in ts]
        assert all(Fraction(a) == b for a, b in zip(tf, ts))
        mid_idx = [ts.index(t) for t in mids]
        wid = [b - a for a, b in zip(fin, fin[1:])]
        for opn in OPS:
            for fair in (False, True):
                kw = dict(fair_correction=fair, preserve_dims="all", event_threshold_operator=getattr(operator, opn))
                r = core.call_impl(p.brier_score_for_ensemble, fc, ob, "m", tf, **kw)
                r64 = core.call_impl(p.brier_score_for_ensemble, fc64, ob64, "m", tf, **kw)
                d0 = dict(base, fn="brier_score_for_ensemble[dtype]", operator=opn, fair=fair)
                if r[0] != "ok":
                    ctx.violation("brier_score_for_ensemble fails for this storage dtype", dict(d0, members=cases[0][0], obs=cases[0][1], thresholds=ts), "values", r[1])
                    continue
                bs = ct_values(ctx, r[1], dict(d0, members=cases[0][0], obs=cases[0][1], thresholds=ts))
                b64 = ct_values(ctx, r64[1], dict(d0, members=cases[0][0], obs=cases[0][1], thresholds=ts, fcst_dtype="float64", obs_dtype="float64")) if r64[0] == "ok" else None
                if bs is None:
                    continue
                if list(r[1]["threshold"].values) != tf:
                    ctx.violation("brier_score_for_ensemble: the threshold coordinate of the result is not the thresholds given", dict(d0, thresholds=ts), tf,
                                  [float(v) for v in r[1]["threshold"].values])
                for i, (xs, y) in enumerate(cases):
                    nvalid = sum(1 for x in xs if not isnan(x))
                    ctx.case((tag, "brier", fdt, odt, opn, fair, tuple(map(str, xs)), str(y), len(ts)), nontrivial=nvalid > 0 and not isnan(y))
                    cell_bad = False
                    for j, t in enumerate(ts):
                        want = brier_exact_op(xs, y, t, fair, opn)
                        if not core.close(bs[i, j], want):
                            ctx.violation("ensemble Brier score of an integer / bool / float32 ensemble at this threshold differs from (i/m - 1{obs in event})^2"
                                          " [- fair correction] of its values (the same values stored as float64: %s)" % ("n/a" if b64 is None else repr(float(b64[i, j]))),
                                          dict(d0, members=xs, obs=y, threshold=t), str(want), float(bs[i, j]))
                            cell_bad = True
                            break
                        if b64 is not None and not same(bs[i, j], b64[i, j]):
                            ctx.violation("brier_score_for_ensemble: the same values stored as float64 give another score", dict(d0, members=xs, obs=y, threshold=t),
                                          float(b64[i, j]), float(bs[i, j]))
                            cell_bad = True
                            break
                    if cell_bad or not mids or (fair and nvalid == 1):
                        continue
                    integ = sum(float(w) * bs[i, j] for w, j in zip(wid, mid_idx))
                    ref = kernel_form([x for x in xs if not isnan(x)], y, "fair" if fair else "ecdf")
                    if not ok(integ, ref):
                        ctx.violation("threshold integral of the ensemble Brier score of an integer / bool / float32 ensemble != its CRPS",
                                      dict(d0, members=xs, obs=y, breakpoints=fin), str(ref), float(integ))
    ctx.count(tag + ":fcst=" + fdt)
    ctx.count(tag + ":members=" + str(fc.sizes["m"]))
    ctx.count(tag, n)


# ---------------------------------------------------------------------------------------------------
# infinite values: +inf / -inf members and observations are valid data (a member above / below every threshold), not missing
# ---------------------------------------------------------------------------------------------------
def dist(a, b):
    """|a - b| on the extended reals; two equal infinities are the same point"""
    if a == b:
        return Fraction(0)
    if isinf(a) or isinf(b):
        return INF
    return abs(a - b)


def kernel_form_ext(valid, y, meth):
    """the kernel form on the extended reals.  None outside the domain on which it is defined without inf - inf and on which the
    implementation agrees with the integral of (F_ens - H_obs)^2: two members infinitely far apart (infinite spread AND infinite
    |x - y| term), or a member equal to an infinite observation (the code's |inf - inf| is NaN, not 0)"""
    if not valid or isnan(y):
        return NAN
    m = len(valid)
    if any(dist(a, b) == INF for a in valid for b in valid) or (isinf(y) and any(x == y for x in valid)):
        return None
    if meth == "fair" and m == 1:
        return NAN
    S = [dist(x, y) for x in valid]
    if INF in S:
        return INF
    Pp = sum((dist(a, b) for a in valid for b in valid), Fraction(0))
    return sum(S, Fraction(0)) / m - Pp / (2 * (m * m if meth == "ecdf" else m * (m - 1)))


def ecdf_integral_ext(valid, y):
    """integral over the real line of (F_ens - 1{y <= t})^2, members / observation on the extended reals (exact; +inf when a piece
    of infinite length carries a non-zero integrand)"""
    if not valid or isnan(y):
        return NAN
    m = len(valid)
    left = (Fraction(sum(1 for x in valid if x == -INF), m) - (1 if y == -INF else 0)) ** 2          # t -> -inf
    right = (Fraction(sum(1 for x in valid if x != INF), m) - (0 if y == INF else 1)) ** 2          # t -> +inf
    if left != 0 or right != 0:
        return INF
    pts = sorted({v for v in valid + [y] if not isinf(v)})
    tot = Fraction(0)
    for a, b in zip(pts, pts[1:]):
        tot += (b - a) * (Fraction(sum(1 for x in valid if x <= a), m) - (1 if y <= a else 0)) ** 2
    return tot


def chain_ext(v, lo, hi):
    """clip to [lo, hi] (None = unbounded) on the extended reals; NaN stays"""
    if isnan(v):
        return v
    if lo is not None and v < lo:
        v = lo
    if hi is not None and v > hi:
        v = hi
    return v


def rand_inf_case(rng, maxm=6):
    """an ensemble with at least one infinite member or an infinite observation; few distinct finite values (ties)"""
    m = rng.randint(1, maxm)
    pool = rng.sample(GRID, rng.randint(1, 3))
    pn = rng.choice([0.0, 0.0, 0.25])
    flavour = rng.choice(["one", "one", "some", "some", "all", "obs"])
    sign = rng.choice([INF, -INF, None])        # None: both signs
    inf = lambda: sign if sign is not None else rng.choice([INF, -INF])
    xs = [NAN if rng.random() < pn else rng.choice(pool) for _ in range(m)]
    if flavour == "one":
        xs[rng.randrange(m)] = inf()
    elif flavour == "some":
        xs = [inf() if rng.random() < 0.4 else x for x in xs]
        xs[rng.randrange(m)] = inf()
    elif flavour == "all":
        v = inf()
        xs = [x if isnan(x) else v for x in xs]
        xs[rng.randrange(m)] = v
    r = rng.random()
    if flavour == "obs" or r < 0.15:
        y = rng.choice([INF, -INF])
    elif r < 0.2:
        y = NAN
    else:
        y = rng.choice(pool) if rng.random() < 0.5 else rng.choice(GRID)
    return xs, y


def inf_sweep_cases(maxm=3):
    vals = [Fraction(0), Fraction(1), NAN, INF, -INF]
    return [(list(xs), y) for m in range(1, maxm + 1) for xs in itertools.product(vals, repeat=m) for y in vals
            if any(isinf(v) for v in list(xs) + [y])]


def inf_brier_level(ctx, cases, tag, inf_thresholds=True, fixed=None):
    """brier_score_for_ensemble with infinite members / observations (/ thresholds): every cell is (i/m - 1{obs in event})^2
    [- i(m-i)/(m^2(m-1))] with i and m counted over the same non-missing members, an infinite member being a valid one (four
    operators); its threshold integral over [a, b] is interval_tw_crps_for_ensemble(a, b) = exact CRPS of the clipped values"""
    import operator
    p = P()
    rng = ctx.rng
    cases = pad(cases)
    fc, ob = batch_arrays(cases)
    fin = sorted({v for xs, y in cases for v in xs + [y] if not isnan(v) and not isinf(v)}) or [Fraction(0)]
    mids = [(a + b) / 2 for a, b in zip(fin, fin[1:])]
    ts = sorted(set(mids + fin + [fin[0] - Fraction(3, 2), fin[-1] + Fraction(1, 2)] + [t for t in (fixed or {}).get("ts", []) if not isinf(t)]))
    if inf_thresholds:
        ts = [-INF] + ts + [INF]
    tf = [float(t) for t in ts]
    order = sorted(range(len(ts)), key=lambda j: isinf(ts[j]))      # finite thresholds first: the plainest failing input is reported
    for opn in OPS:
        for fair in (False, True):
            r = core.call_impl(p.brier_score_for_ensemble, fc, ob, "m", tf, fair_correction=fair, preserve_dims="all",
                               event_threshold_operator=getattr(operator, opn))
            d0 = {"fn": "brier_score_for_ensemble[inf]", "operator": opn, "fair": fair}
            if r[0] != "ok":
                ctx.violation("brier_score_for_ensemble fails for infinite members / observations", dict(d0, members=cases[0][0], obs=cases[0][1], thresholds=ts),
                              "values", r[1])
                continue
            bs = ct_values(ctx, r[1], dict(d0, members=cases[0][0], obs=cases[0][1], thresholds=ts))
            if bs is None:
                continue
            for i, (xs, y) in enumerate(cases):
                ctx.case((tag, opn, fair, tuple(map(str, xs)), str(y), len(ts)), nontrivial=any(not isnan(x) for x in xs) and not isnan(y))
                for j in order:
                    t = ts[j]
                    want = brier_exact_op(xs, y, t, fair, opn)
                    if not core.close(bs[i, j], want):
                        ctx.violation("ensemble Brier score with an infinite member / observation differs from (i/m - 1{obs in event})^2 [- fair correction], "
                                      "i and m counted over the non-missing members (an infinite member is not missing)",
                                      dict(d0, members=xs, obs=y, threshold=t), str(want), float(bs[i, j]))
                        break
            if opn == "ge" and has_model(ctx):
                for i in rng.sample(range(len(cases)), min(len(cases), 10)):
                    xs, y = cases[i]
                    j = rng.randrange(len(ts))
                    mv = core.dec_num(ctx.model("c06_brier_cell", enc_list([enc_nums(xs), enc_num(y), enc_num(ts[j]), enc_bool(fair)])))
                    if not core.close(bs[i, j], mv):
                        ctx.tie_fail("brier_score_for_ensemble cell (infinite values) vs model", {"members": xs, "obs": y, "threshold": ts[j], "fair": fair},
                                     float(bs[i, j]), str(mv))
    ctx.count("inf-brier-cells", len(cases))
    # ---- threshold integral over a finite range [a, b] = interval twCRPS of that range = exact CRPS of the clipped values ----
    ends = sorted(set(GRID + [fin[0] - 1, fin[-1] + 1]))
    a = rng.choice([fin[0] - 1, fin[0] - 1, rng.choice(ends[:-1])])
    b = rng.choice([fin[-1] + 1, fin[-1] + 1] + [e for e in ends if e > a])
    if b <= a:
        b = a + 1
    if fixed and "ab" in fixed:
        a, b = fixed["ab"]
    brk = sorted({a, b} | {v for v in fin if a < v < b})
    bm = [(u + v) / 2 for u, v in zip(brk, brk[1:])]
    wid = [v - u for u, v in zip(brk, brk[1:])]
    for fair in (False, True):
        meth = "fair" if fair else "ecdf"
        opn = rng.choice(OPS)
        r = core.call_impl(p.brier_score_for_ensemble, fc, ob, "m", [float(t) for t in bm], fair_correction=fair, preserve_dims="all",
                           event_threshold_operator=getattr(operator, opn))
        tw = core.call_impl(p.interval_tw_crps_for_ensemble, fc, ob, "m", float(a), float(b), method=meth, preserve_dims="all")
        d0 = {"fn": "brier_score_for_ensemble integral[inf]", "operator": opn, "fair": fair, "lower_threshold": a, "upper_threshold": b}
        if r[0] != "ok" or tw[0] != "ok":
            ctx.violation("brier_score_for_ensemble / interval_tw_crps_for_ensemble fails for infinite members / observations",
                          dict(d0, members=cases[0][0], obs=cases[0][1]), "values", [r[1] if r[0] != "ok" else "ok", tw[1] if tw[0] != "ok" else "ok"])
            continue
        bs = ct_values(ctx, r[1], dict(d0, members=cases[0][0], obs=cases[0][1]))
        if bs is None:
            continue
        tv = tw[1].values
        for i, (xs, y) in enumerate(cases):
            desc = dict(d0, members=xs, obs=y, breakpoints=brk)
            want = clip_exact(xs, y, a, b, meth)
            nvalid = sum(1 for x in xs if not isnan(x))
            ctx.case((tag, "integral", fair, tuple(map(str, xs)), str(y), str(a), str(b)), nontrivial=not isnan(want))
            if not core.close(tv[i], want):
                ctx.violation("interval_tw_crps_for_ensemble with an infinite member / observation differs from the exact CRPS of the values clipped to the interval",
                              desc, str(want), float(tv[i]))
                continue
            if fair and nvalid == 1:
                continue      # fair CRPS of one member is NaN by its normalisation; the Brier correction is defined as 0
            integ = sum(float(w) * bs[i, j] for j, w in enumerate(wid))
            if not core.close(integ, want):
                ctx.violation("threshold integral over [a, b] of the ensemble Brier score with an infinite member / observation != interval twCRPS on [a, b]",
                              desc, str(want), float(integ))
    ctx.count("inf-brier-integral", len(cases))


def inf_crps_level(ctx, cases, tag, fixed=None):
    """crps_for_ensemble (components) and the tail / interval variants with infinite members / observations against the kernel
    form on the extended reals, wherever that is defined without inf - inf (there the unchanged code agrees with the integral of
    (F_ens - H_obs)^2); elsewhere the case is only counted (evidence: inf:not-compared...) and tied to the model"""
    p = P()
    rng = ctx.rng
    cases = pad(cases)
    fc, ob = batch_arrays(cases)
    n = len(cases)
    for meth in ("ecdf", "fair"):
        for kind in ("scalar", "array"):
            if kind == "scalar":
                lo, hi = sorted(rng.sample(GRID, 2)) if fixed is None else fixed
                los, his = [lo] * n, [hi] * n
                tlo, thi = float(lo), float(hi)
            else:
                los, his = [], []
                for xs, y in cases:
                    if fixed is not None:
                        los.append(fixed[0])
                        his.append(fixed[1])
                        continue
                    pool = [v for v in xs + [y] if not isnan(v) and not isinf(v)] or GRID
                    a = rng.choice(pool) if rng.random() < 0.6 else rng.choice(GRID)
                    los.append(a)
                    his.append(rng.choice([g for g in GRID + [Fraction(7)] if g > a]))
                tlo = xr.DataArray([float(v) for v in los], dims=["case"])
                thi = xr.DataArray([float(v) for v in his], dims=["case"])
            calls = [("crps_for_ensemble", lambda: p.crps_for_ensemble(fc, ob, "m", method=meth, preserve_dims="all", include_components=True), lambda i: (None, None)),
                     ("tail_tw_crps_for_ensemble(lower)", lambda: p.tail_tw_crps_for_ensemble(fc, ob, "m", tlo, tail="lower", method=meth, preserve_dims="all",
                                                                                            include_components=True), lambda i: (None, los[i])),
                     ("interval_tw_crps_for_ensemble", lambda: p.interval_tw_crps_for_ensemble(fc, ob, "m", tlo, thi, method=meth, preserve_dims="all",
                                                                                                include_components=True), lambda i: (los[i], his[i])),
                     ("tail_tw_crps_for_ensemble(upper)", lambda: p.tail_tw_crps_for_ensemble(fc, ob, "m", thi, tail="upper", method=meth, preserve_dims="all",
                                                                                            include_components=True), lambda i: (his[i], None))]
            got4 = {}
            for name, f, rng_of in calls:
                if name == "crps_for_ensemble" and kind == "array":
                    got4[name] = got4_plain
                    continue
                r = core.call_impl(f)
                if r[0] != "ok":
                    ctx.violation(name + " fails for infinite members / observations", {"fn": name + "[inf]", "members": cases[0][0], "obs": cases[0][1], "method": meth},
                                  "values", r[1])
                    continue
                rv = {c: r[1].sel(component=c).values for c in COMPONENTS}
                got4[name] = rv["total"]
                if name == "crps_for_ensemble":
                    got4_plain = rv["total"]
                for i, (xs, y) in enumerate(cases):
                    a, b = rng_of(i)
                    desc = {"fn": name + "[inf]", "members": xs, "obs": y, "method": meth, "lower_threshold": los[i], "upper_threshold": his[i], "thresholds": kind}
                    valid = [chain_ext(x, a, b) for x in xs if not isnan(x)]
                    yy = chain_ext(y, a, b)
                    want = kernel_form_ext(valid, yy, meth)
                    got = [float(rv[c][i]) for c in COMPONENTS]
                    ctx.case((tag, name, kind, meth, tuple(map(str, xs)), str(y), str(a), str(b)), nontrivial=want is not None and not isnan(want))
                    if want is None:
                        truth = ecdf_integral_ext(valid, yy)
                        ctx.count("inf:not-compared(inf-inf):impl=%s,integral=%s" % ("nan" if np.isnan(got[0]) else "inf" if np.isinf(got[0]) else "finite",
                                                                                      "inf" if truth == INF else "finite"))
                        continue
                    if not core.close(got[0], want):
                        ctx.violation(name + " with infinite members / observations differs from the kernel form of the (chained) values on the extended reals",
                                      desc, str(want), got[0])
                        continue
                    if meth == "ecdf" and not core.close(got[0], ecdf_integral_ext(valid, yy)):
                        ctx.violation(name + "(method=ecdf) with infinite members / observations is not the integral of (F_ens - H_obs)^2", desc,
                                      str(ecdf_integral_ext(valid, yy)), got[0])
                    if valid and not isnan(yy):
                        mm = len(valid)
                        du = sum((d for d in (dist(x, yy) for x in valid if x < yy)), Fraction(0))
                        do = sum((d for d in (dist(x, yy) for x in valid if x > yy)), Fraction(0))
                        du, do = (du if du == INF else du / mm), (do if do == INF else do / mm)
                        if not core.close(got[1], du) or not core.close(got[2], do):
                            ctx.violation("underforecast / overforecast penalty with infinite values differs from its documented formula", desc,
                                          [str(du), str(do)], got[1:3])
                        if not isnan(want):
                            sp = du + do - want if want != INF else None
                            if sp is not None and not core.close(got[3], sp):
                                ctx.violation("spread component with infinite values: total != underforecast + overforecast - spread", desc, str(sp), got[3])
                            if want == INF and not (np.isfinite(got[3]) and got[1] + got[2] - got[3] == INF):
                                ctx.violation("infinite total but underforecast + overforecast - spread is not +inf", desc, "inf", got[1:])
            # tie with the model on every case (IEEE semantics of the model: inf - inf = NaN, NaN-skipping reductions)
            if has_model(ctx) and len(got4) == 4:
                for i in rng.sample(range(n), min(n, 25)):
                    xs, y = cases[i]
                    m4 = core.dec_nums(ctx.model("c06_tw_case", enc_list([enc_nums(xs), enc_num(y), enc_num(los[i]), enc_num(his[i]), enc_str(meth)])))
                    g4 = [got4["tail_tw_crps_for_ensemble(lower)"][i], got4["interval_tw_crps_for_ensemble"][i], got4["tail_tw_crps_for_ensemble(upper)"][i],
                          got4["crps_for_ensemble"][i]]
                    if not core.close_list(g4, m4):
                        ctx.tie_fail("tail / interval / tail / plain (one case, infinite values) vs model",
                                     {"members": xs, "obs": y, "lower_threshold": los[i], "upper_threshold": his[i], "method": meth},
                                     [float(v) for v in g4], [str(v) for v in m4])
    ctx.count("inf-crps", n)
    for xs, y in cases:
        if any(isinf(x) for x in xs):
            ctx.count("inf:member=" + ("+-inf" if INF in xs and -INF in xs else "+inf" if INF in xs else "-inf"))
        if isinf(y):
            ctx.count("inf:obs=inf")


def inf_threshold_level(ctx, cases, tag, fixed=None):
    """infinite thresholds are end points of the real line: clipping at -inf / +inf clips nothing.  interval(-inf, +inf) = upper
    tail at -inf = lower tail at +inf = crps_for_ensemble; interval(-inf, b) = lower tail at b; interval(a, +inf) = upper tail at a
    (all four components, both methods; scalar and per-case thresholds)"""
    p = P()
    rng = ctx.rng
    cases = pad(cases)
    fc, ob = batch_arrays(cases)
    n = len(cases)
    for meth in ("ecdf", "fair"):
        kw = dict(method=meth, preserve_dims="all", include_components=True)
        ts = [rng.choice(GRID) if fixed is None else fixed[0] for _ in cases]
        arr = rng.random() < 0.5 if fixed is None else fixed[1] == "array"
        t = xr.DataArray([float(v) for v in ts], dims=["case"]) if arr else float(ts[0])
        pinf = xr.DataArray([INF] * n, dims=["case"]) if arr else INF
        ninf = xr.DataArray([-INF] * n, dims=["case"]) if arr else -INF
        calls = {"plain": lambda: p.crps_for_ensemble(fc, ob, "m", **kw),
                 "interval(-inf,+inf)": lambda: p.interval_tw_crps_for_ensemble(fc, ob, "m", ninf, pinf, **kw),
                 "upper(-inf)": lambda: p.tail_tw_crps_for_ensemble(fc, ob, "m", ninf, tail="upper", **kw),
                 "lower(+inf)": lambda: p.tail_tw_crps_for_ensemble(fc, ob, "m", pinf, tail="lower", **kw),
                 "interval(-inf,t)": lambda: p.interval_tw_crps_for_ensemble(fc, ob, "m", ninf, t, **kw),
                 "lower(t)": lambda: p.tail_tw_crps_for_ensemble(fc, ob, "m", t, tail="lower", **kw),
                 "interval(t,+inf)": lambda: p.interval_tw_crps_for_ensemble(fc, ob, "m", t, pinf, **kw),
                 "upper(t)": lambda: p.tail_tw_crps_for_ensemble(fc, ob, "m", t, tail="upper", **kw)}
        r = {k: core.call_impl(f) for k, f in calls.items()}
        bad = [k for k, v in r.items() if v[0] != "ok"]
        if bad:
            ctx.violation("a threshold-weighted ensemble CRPS with an infinite threshold fails", {"fn": "tw[inf-threshold]", "members": cases[0][0], "obs": cases[0][1],
                                                                                                 "method": meth, "threshold": ts[0], "thresholds": "array" if arr else "scalar"},
                          "values", {k: r[k][1] for k in bad})
            continue
        v = {k: x[1].transpose("component", "case").values for k, x in r.items()}
        for a, b in (("interval(-inf,+inf)", "plain"), ("upper(-inf)", "plain"), ("lower(+inf)", "plain"), ("interval(-inf,t)", "lower(t)"), ("interval(t,+inf)", "upper(t)")):
            ok = same(v[a], v[b]).all(axis=0)
            for i, (xs, y) in enumerate(cases):
                ctx.case((tag, meth, a, tuple(map(str, xs)), str(y), str(ts[i] if arr else ts[0]), arr), nontrivial=bool(np.isfinite(v[b][0, i])))
                if not ok[i]:
                    ctx.violation("an infinite threshold is not the end of the real line: %s != %s" % (a, b),
                                  {"fn": "tw[inf-threshold]", "members": xs, "obs": y, "method": meth, "threshold": ts[i] if arr else ts[0],
                                   "thresholds": "array" if arr else "scalar"}, v[b][:, i].tolist(), v[a][:, i].tolist())
    ctx.count("inf-thresholds", n)


def inf_level(ctx):
    rng = ctx.rng
    sw = inf_sweep_cases(3)
    sw.sort(key=lambda c: -sum(1 for x in c[0] if not isnan(x) and not isinf(x)))      # mixed finite / infinite ensembles first (stable)
    for i in range(0, len(sw), 150):
        inf_brier_level(ctx, sw[i:i + 150], "inf-sweep-brier")
        inf_crps_level(ctx, sw[i:i + 150], "inf-sweep-crps")
    nr = ctx.n(240, 6000)
    rc = [rand_inf_case(rng) for _ in range(nr)]
    for i in range(0, nr, 40):
        if not ctx.time_left():
            break
        inf_brier_level(ctx, rc[i:i + 40], "inf-brier", inf_thresholds=rng.random() < 0.5)
        inf_crps_level(ctx, rc[i:i + 40], "inf-crps")
        inf_threshold_level(ctx, rc[i:i + 20] + [rand_case(rng) for _ in range(20)], "inf-thresholds")



def invariance_level(ctx, cases, tag):
    p = P()
    cases = pad(cases)
    rng = ctx.rng
    fc, ob = batch_arrays(cases)
    M = fc.sizes["m"]
    for meth in ("ecdf", "fair"):
        base = p.crps_for_ensemble(fc, ob, "m", method=meth, preserve_dims="all", include_components=True)
        perm = list(range(M))
        rng.shuffle(perm)
        c = float(rng.choice(GRID))
        a = float(rng.choice([Fraction(-3), Fraction(-1), Fraction(-1, 2), Fraction(0), Fraction(1, 2), Fraction(2), Fraction(5, 2)]))
        r_perm = p.crps_for_ensemble(fc.isel(m=perm), ob, "m", method=meth, preserve_dims="all", include_components=True)
        r_tr = p.crps_for_ensemble(fc + c, ob + c, "m", method=meth, preserve_dims="all", include_components=True)
        r_sc = p.crps_for_ensemble(fc * a, ob * a, "m", method=meth, preserve_dims="all").values
        checks = [("member permutation changes the score", base.values, r_perm.values, {"perm": perm}),
                  ("translation changes the score", base.values, r_tr.values, {"shift": c}),
                  ("scaling by a does not scale the score by |a|", abs(a) * base.sel(component="total").values, r_sc, {"scale": a})]
        for what, e, g, extra in checks:
            ok = same(g, e)
            if not ok.all():
                idx = np.argwhere(~ok)[0]
                i = int(idx[-1])
                xs, y = cases[i]
                ctx.violation(what, dict({"members": xs, "obs": y, "method": meth}, **extra), np.asarray(e)[tuple(idx)].item(), np.asarray(g)[tuple(idx)].item())
        for i, (xs, y) in enumerate(cases):
            ctx.case((tag, meth, tuple(map(str, xs)), str(y), str(perm), c, a))
    ctx.count(tag, len(cases))


# ---------------------------------------------------------------------------------------------------
# (b) full public functions vs model
# ---------------------------------------------------------------------------------------------------
def rand_threshold(rng, sizes, data_dims, scalar_p=0.5, lo=None, top=True):
    """scalar or array threshold; values from the grid (> lo when given)"""
    cand = [g for g in GRID + ([Fraction(13, 2)] if top else []) if lo is None or g > lo]
    if rng.random() < scalar_p:
        return rng.choice(cand)
    dims = [d for d in data_dims if rng.random() < 0.6]
    sz = dict(sizes)
    if rng.random() < 0.12:
        sz.setdefault("t", 2)      # one size per case (set by gen_full): thresholds must carry identical label sets
        dims = dims + ["t"]
    vals = [float(v) for v in cand]
    return gens.rand_da(rng, sz, dims=dims, values=vals, nan_p=0.1 if rng.random() < 0.15 else 0.0)


def gen_full(ctx):
    rng = ctx.rng
    ens = rng.choice(["m", "ens", "a"])
    names = [d for d in ["a", "b", "c"] if d != ens]
    data = rng.sample(names, rng.randint(0, 2))
    sizes = {d: rng.randint(1, 3) for d in data}
    sizes[ens] = rng.randint(1, 6)
    sizes["t"] = rng.randint(1, 2)
    fdims = [d for d in data if rng.random() < 0.9] + [ens]
    odims = [d for d in data if rng.random() < 0.75]
    bad = rng.random() < 0.12
    vals = [float(v) for v in rng.sample(GRID, rng.randint(2, 6))]
    if rng.random() < 0.1:
        # infinite members / observations are valid data (the model computes with them as IEEE does)
        vals += rng.choice([[INF], [-INF], [INF, -INF], [INF, INF]])
    fcst = gens.rand_da(rng, sizes, dims=fdims, values=vals, nan_p=rng.choice([0.0, 0.0, 0.15, 0.5]))
    if bad and rng.random() < 0.2:
        odims = odims + [ens]
    if rng.random() < 0.08:
        # one forecast case with every member missing
        fcst = fcst.copy()
        idx = {d: rng.randrange(sizes[d]) for d in fcst.dims if d != ens}
        fcst[idx] = NAN
    obs = gens.rand_da(rng, sizes, dims=odims, values=vals if rng.random() < 0.7 else None, den=2, bound=3, nan_p=rng.choice([0.0, 0.0, 0.15]))
    w = None
    if rng.random() < 0.35:
        wd = [d for d in data if rng.random() < 0.6]
        sz = dict(sizes)
        if rng.random() < 0.15:
            sz["w"] = 2
            wd = wd + ["w"]
        if bad and rng.random() < 0.2:
            wd = wd + [ens]
        w = gens.rand_da(rng, sz, dims=wd, lo=0, hi=3, den=2, nan_p=0.1 if rng.random() < 0.3 else 0.0)
    kind = rng.choice(["plain", "plain", "tail", "tail", "interval", "interval", "chain"])
    mode = {"kind": kind}
    if kind in ("tail", "chain"):
        mode["tail"] = "sideways" if (bad and kind == "tail" and rng.random() < 0.15) else rng.choice(["upper", "lower"])
        mode["t"] = rand_threshold(rng, sizes, data)
        if kind == "chain":
            # the chaining function has a DEFAULT threshold that chaining_func_kwargs overrides: members and observation must both
            # receive the override (the tail_/interval_ wrappers cannot show this: they bind the thresholds as defaults too)
            mode["kwargs"] = rng.random() < 0.7
            mode["default"] = rng.choice([Fraction(-9), Fraction(9), Fraction(0)])
    elif kind == "interval":
        lo = rand_threshold(rng, sizes, data, top=False)
        if isinstance(lo, xr.DataArray):
            hi = rand_threshold(rng, sizes, data, lo=Fraction(float(np.nanmax(lo.values))) if not np.isnan(lo.values).all() else None)
        else:
            hi = rand_threshold(rng, sizes, data, lo=lo)
        if bad and rng.random() < 0.5:
            lo, hi = (hi, lo) if rng.random() < 0.6 else (lo, lo)
        mode["lo"], mode["hi"] = lo, hi
    meth = "crps" if (bad and rng.random() < 0.15) else rng.choice(["ecdf", "fair"])
    all_dims = sorted(set(data) | (set(w.dims) if w is not None else set()) | {d for k in ("t", "lo", "hi") if isinstance(mode.get(k), xr.DataArray) for d in mode[k].dims})
    rd, pd = gens.rand_dimspec(rng, [d for d in all_dims if d != ens] or ["a"], allow_bad=bad)
    if bad and rng.random() < 0.15:
        rd, pd = ([ens], None) if rng.random() < 0.5 else (None, [ens])
    comps = rng.random() < 0.4
    return dict(fcst=fcst, obs=obs, ens=ens, mode=mode, method=meth, rd=rd, pd=pd, w=w, comps=comps)


def enc_mode(mode):
    k = mode["kind"]
    if k == "plain":
        return enc_list([enc_str("plain")])
    if k in ("tail", "chain"):
        return enc_list([enc_str("tail"), enc_str(mode["tail"]), enc_arr(thr(mode["t"]))])
    sc = not isinstance(mode["lo"], xr.DataArray) and not isinstance(mode["hi"], xr.DataArray)
    return enc_list([enc_str("interval_s" if sc else "interval"), enc_arr(thr(mode["lo"])), enc_arr(thr(mode["hi"]))])


def chain_fn(tail, default):
    """chaining function with a default threshold, to be overridden through chaining_func_kwargs={"t": ...}"""
    if tail == "upper":
        def v(x, t=default):
            return np.maximum(x, t)
    else:
        def v(x, t=default):
            return np.minimum(x, t)
    return v


def thr(t):
    return t if isinstance(t, xr.DataArray) else float(t)


def call_full(c, fcst=None, obs=None):
    p = P()
    c = dict(c, fcst=c["fcst"] if fcst is None else fcst, obs=c["obs"] if obs is None else obs)
    kw = dict(method=c["method"], include_components=c["comps"])
    if c["rd"] is not None:
        kw["reduce_dims"] = c["rd"]
    if c["pd"] is not None:
        kw["preserve_dims"] = c["pd"]
    if c["w"] is not None:
        kw["weights"] = c["w"]
    mode = c["mode"]
    k = mode["kind"]
    if k == "plain":
        return core.call_impl(p.crps_for_ensemble, c["fcst"], c["obs"], c["ens"], **kw)
    if k == "tail":
        return core.call_impl(p.tail_tw_crps_for_ensemble, c["fcst"], c["obs"], c["ens"], thr(mode["t"]), tail=mode["tail"], **kw)
    if k == "chain":
        t = thr(mode["t"])
        if mode.get("kwargs"):
            return core.call_impl(p.tw_crps_for_ensemble, c["fcst"], c["obs"], c["ens"], chain_fn(mode["tail"], float(mode["default"])),
                                  chaining_func_kwargs={"t": t}, **kw)
        f = (lambda x: np.maximum(x, t)) if mode["tail"] == "upper" else (lambda x: np.minimum(x, t))
        return core.call_impl(p.tw_crps_for_ensemble, c["fcst"], c["obs"], c["ens"], f, **kw)
    return core.call_impl(p.interval_tw_crps_for_ensemble, c["fcst"], c["obs"], c["ens"], thr(mode["lo"]), thr(mode["hi"]), **kw)


def describe(c):
    m = dict(c["mode"])
    for k in ("t", "lo", "hi"):
        if k in m:
            m[k] = gens.da_repr(m[k])
    return {"fn": {"plain": "crps_for_ensemble", "tail": "tail_tw_crps_for_ensemble", "chain": "tw_crps_for_ensemble", "interval": "interval_tw_crps_for_ensemble"}[m["kind"]],
            "fcst": gens.da_repr(c["fcst"]), "obs": gens.da_repr(c["obs"]), "ensemble_member_dim": c["ens"], "mode": m, "method": c["method"],
            "reduce_dims": c["rd"], "preserve_dims": c["pd"], "weights": gens.da_repr(c["w"]), "include_components": c["comps"]}


def compare_full(impl, tree, comps):
    st, val = impl
    if core.is_err(tree) or st == "err":
        return core.compare_result(impl, tree)
    if not comps:
        if isinstance(val, xr.DataArray) and "component" in val.dims:
            return False, "implementation returned components that were not requested"
        return core.compare_result(impl, tree[0])
    if not (isinstance(val, xr.DataArray) and "component" in val.dims and list(val["component"].values) == COMPONENTS):
        return False, "component dimension / labels differ"
    for name, t in zip(COMPONENTS, tree):
        ok, why = core.compare_result(("ok", val.sel(component=name, drop=True)), t)
        if not ok:
            return False, name + ": " + why
    return True, ""


def corpus(ctx):
    """deterministic regression cases (former findings): a regression is a VIOLATION with this input"""
    p = P()
    # found by this check, repaired in /repo by 1903f6a: include_components=True raised ValueError when fcst and obs stored a shared
    # coordinate in different label order (`(obs - fcst).where(fcst < obs, 0)` joined exactly)
    fcst = xr.DataArray([[-1.0, -1.0], [2.0, -2.0]], dims=["c", "m"], coords={"c": [0, 1], "m": [0, 1]})
    obs = xr.DataArray([-1.0, 2.0], dims=["c"], coords={"c": [1, 0]})
    want = {"plain": [2.0, 1.75, 0.75, 0.5], "tail": [1.0625, 1.0, 0.375, 0.3125], "interval": [0.9375, 0.75, 0.375, 0.1875]}
    calls = {"plain": lambda **k: p.crps_for_ensemble(fcst, obs, "m", **k),
             "tail": lambda **k: p.tail_tw_crps_for_ensemble(fcst, obs, "m", 0.5, tail="lower", **k),
             "interval": lambda **k: p.interval_tw_crps_for_ensemble(fcst, obs, "m", -1.0, 0.5, **k)}
    for name, f in calls.items():
        desc = {"fn": name, "fcst": gens.da_repr(fcst), "obs": gens.da_repr(obs), "ensemble_member_dim": "m", "include_components": True,
                "note": "fcst and obs store coordinate c in different order"}
        r = core.call_impl(f, include_components=True)
        r0 = core.call_impl(f, include_components=False)
        ctx.case(("corpus", name))
        if r[0] != "ok" or r0[0] != "ok":
            ctx.violation("include_components=True fails when fcst and obs store a shared coordinate in different order", desc,
                          "a value (as with include_components=False / label-sorted inputs)", [r[1] if r[0] == "err" else "ok", r0[1] if r0[0] == "err" else "ok"])
            continue
        got = [float(r[1].sel(component=c)) for c in COMPONENTS]
        if not same(got, want[name]).all() or not same(float(r0[1]), want[name][0]):
            ctx.violation("components on differently ordered coordinates differ from the label-aligned values", desc, want[name], got)
    ctx.count("corpus", len(calls))


def check_full(ctx, c, first=False):
    impl = call_full(c)
    arg = enc_list([enc_arr(c["fcst"]), enc_arr(c["obs"]), enc_str(c["ens"]), enc_mode(c["mode"]), enc_str(c["method"]),
                    enc_dimspec(c["rd"]), enc_dimspec(c["pd"]), enc_opt(c["w"], enc_arr), enc_bool(c["comps"])])
    tree = ctx.model("c06_crps", arg)
    ok, why = compare_full(impl, tree, c["comps"])
    desc = describe(c)
    nontrivial = impl[0] == "ok" and bool(np.isfinite(np.asarray(impl[1], dtype=float)).any())
    ctx.case(desc, nontrivial)
    ctx.count("full:" + c["mode"]["kind"])
    ctx.count("full:" + ("ok" if impl[0] == "ok" else impl[1]))
    ctx.count("full:method=" + c["method"])
    if c["comps"]:
        ctx.count("full:components")
    if c["w"] is not None:
        ctx.count("full:weights")
    for k in ("t", "lo", "hi"):
        if k in c["mode"]:
            ctx.count("full:threshold=" + ("array" if isinstance(c["mode"][k], xr.DataArray) else "scalar"))
    ctx.count("full:spelling=" + ("none" if c["rd"] is None and c["pd"] is None else type(c["rd"] if c["rd"] is not None else c["pd"]).__name__))
    if first:
        ctx.sample(desc)
    if np.isinf(c["fcst"].values).any() or np.isinf(c["obs"].values).any():
        ctx.count("full:infinite-values")
    if c["mode"].get("kwargs"):
        ctx.count("full:chain-kwargs")
    if not ok:
        ctx.tie_fail("public function vs model: " + why, desc, str(impl[1])[:300], str(tree)[:300])


def full_level(ctx, n):
    for i in range(n):
        if not ctx.time_left():
            break
        check_full(ctx, gen_full(ctx), first=i < 2)


def additivity_full(ctx, n):
    """sum of the three threshold-weighted public calls = crps_for_ensemble, with weights and reductions (finite thresholds)"""
    p = P()
    rng = ctx.rng
    for i in range(n):
        if not ctx.time_left():
            break
        c = gen_full(ctx)
        if c["method"] not in ("ecdf", "fair") or c["ens"] in c["obs"].dims or (c["w"] is not None and c["ens"] in c["w"].dims):
            continue
        if np.isinf(c["fcst"].values).any() or np.isinf(c["obs"].values).any():
            continue      # inf - inf: the NaN positions of the three parts differ (per-case statements with infinite values: inf_crps_level)
        data = [d for d in c["fcst"].dims if d != c["ens"]]
        sizes = dict(c["fcst"].sizes)
        lo = rand_threshold(rng, sizes, data, top=False)
        if isinstance(lo, xr.DataArray):
            lo = lo.fillna(0.0)
            hi = lo + float(rng.choice([Fraction(1, 2), Fraction(1), Fraction(5, 2)]))
            if "t" in lo.dims:
                continue
        else:
            hi = rng.choice([g for g in GRID + [Fraction(13, 2)] if g > lo])
        kw = dict(method=c["method"], include_components=c["comps"])
        dims = sorted((set(c["fcst"].dims) | set(c["obs"].dims) | (set(c["w"].dims) if c["w"] is not None else set())) - {c["ens"]})
        rd, pd = gens.rand_dimspec(rng, dims or ["a"])
        if not dims and (isinstance(rd, (str, list)) and rd not in ("all", []) or isinstance(pd, (str, list)) and pd not in ("all", [])):
            rd, pd = None, None
        if rd is not None:
            kw["reduce_dims"] = rd
        if pd is not None:
            kw["preserve_dims"] = pd
        if c["w"] is not None:
            kw["weights"] = c["w"].fillna(1.0)
        f, o, e = c["fcst"], c["obs"], c["ens"]
        r = [core.call_impl(p.crps_for_ensemble, f, o, e, **kw),
             core.call_impl(p.tail_tw_crps_for_ensemble, f, o, e, thr(lo), tail="lower", **kw),
             core.call_impl(p.interval_tw_crps_for_ensemble, f, o, e, thr(lo), thr(hi), **kw),
             core.call_impl(p.tail_tw_crps_for_ensemble, f, o, e, thr(hi), tail="upper", **kw)]
        desc = dict(describe(c), lower_threshold=gens.da_repr(lo), upper_threshold=gens.da_repr(hi), reduce_dims=rd, preserve_dims=pd)
        if any(x[0] != "ok" for x in r):
            if len({x[0] for x in r}) != 1:
                ctx.violation("the four calls do not fail together", desc, [x[0] for x in r], [str(x[1])[:80] for x in r])
            continue
        tot = r[0][1]
        s = r[1][1] + r[2][1] + r[3][1]
        tot, s = xr.broadcast(tot, s)
        s = s.transpose(*tot.dims)
        ctx.case(("add", desc), nontrivial=bool(np.isfinite(tot.values).any()))
        ctx.count("additivity:full")
        # NaN masks of per-case scores coincide (finite thresholds), so the weighted NaN-skipping means add up too
        if not same(s.values, tot.values).all():
            ctx.violation("lower tail + interval + upper tail != crps_for_ensemble (public calls, with weights / reductions)", desc,
                          np.asarray(tot.values).tolist(), np.asarray(s.values).tolist())


def guard_level(ctx):
    """documented guards as predicates on the implementation: lower < upper (ties lower == upper included, scalar and array form),
    tail in {upper, lower}, method in {ecdf, fair}"""
    p = P()
    rng = ctx.rng
    fc, ob = batch_arrays([rand_case(rng, maxm=4) for _ in range(4)])
    for _ in range(ctx.n(12, 60)):
        lo = rng.choice(GRID)
        for kind in ("scalar", "array", "mixed"):
            for rel in ("eq", "gt", "lt"):
                hi = lo if rel == "eq" else (lo - rng.choice([Fraction(1, 2), Fraction(2)]) if rel == "gt" else lo + rng.choice([Fraction(1, 2), Fraction(2)]))
                if kind == "scalar":
                    a, b = float(lo), float(hi)
                else:
                    # one case violates (or ties), the others are fine
                    k = rng.randrange(4)
                    la = [float(lo)] * 4
                    ha = [float(lo) + 1.0] * 4
                    ha[k] = float(hi)
                    a = xr.DataArray(la, dims=["case"])
                    b = xr.DataArray(ha, dims=["case"])
                    if kind == "mixed":
                        a = float(lo)
                r = core.call_impl(p.interval_tw_crps_for_ensemble, fc, ob, "m", a, b, preserve_dims="all")
                desc = {"fn": "interval_tw_crps_for_ensemble", "lower_threshold": gens.da_repr(a), "upper_threshold": gens.da_repr(b), "thresholds": kind}
                ctx.case(("guard", kind, rel, str(lo), str(hi)))
                want_err = rel in ("eq", "gt")
                if want_err and r != ("err", "err:ValueError"):
                    ctx.violation("interval_tw_crps_for_ensemble accepts lower_threshold >= upper_threshold", desc, "ValueError", "a value" if r[0] == "ok" else r[1])
                if not want_err and r[0] != "ok":
                    ctx.violation("interval_tw_crps_for_ensemble rejects lower_threshold < upper_threshold", desc, "a value", r[1])
    for tail, ok in (("upper", True), ("lower", True), ("Upper", False), ("both", False), ("", False)):
        r = core.call_impl(p.tail_tw_crps_for_ensemble, fc, ob, "m", 0.5, tail=tail, preserve_dims="all")
        ctx.case(("guard-tail", tail))
        if (r[0] == "ok") != ok or (not ok and r[1] != "err:ValueError"):
            ctx.violation("tail_tw_crps_for_ensemble: tail must be 'upper' or 'lower'", {"tail": tail}, "value" if ok else "ValueError", r[0] if r[0] == "ok" else r[1])
    for meth, ok in (("ecdf", True), ("fair", True), ("ECDF", False), ("crps", False), ("", False)):
        for f in (lambda **k: p.crps_for_ensemble(fc, ob, "m", **k), lambda **k: p.tail_tw_crps_for_ensemble(fc, ob, "m", 0.5, **k),
                  lambda **k: p.interval_tw_crps_for_ensemble(fc, ob, "m", 0.0, 1.0, **k), lambda **k: p.tw_crps_for_ensemble(fc, ob, "m", lambda x: np.maximum(x, 0.5), **k)):
            r = core.call_impl(f, method=meth, preserve_dims="all")
            ctx.case(("guard-method", meth))
            if (r[0] == "ok") != ok or (not ok and r[1] != "err:ValueError"):
                ctx.violation("method must be 'ecdf' or 'fair'", {"method": meth}, "value" if ok else "ValueError", r[0] if r[0] == "ok" else r[1])
    ctx.count("guards")


def reduction_level(ctx, n):
    """the reduced / weighted public result is the NaN-skipping mean of (per-case score x weights) over the requested dims:
    relation between a public call with reduce_dims / weights and the same call with preserve_dims='all'"""
    for _ in range(n):
        if not ctx.time_left():
            break
        c = gen_full(ctx)
        if c["method"] not in ("ecdf", "fair") or c["comps"]:
            continue
        c = dict(c, rd=None, pd="all", w=None)
        base = call_full(c)
        if base[0] != "ok":
            continue
        w = None
        dims = list(base[1].dims)
        if ctx.rng.random() < 0.7:
            sz = dict(base[1].sizes)
            wd = [d for d in dims if ctx.rng.random() < 0.6]
            if ctx.rng.random() < 0.3:
                sz["w"] = 2
                wd = wd + ["w"]
            w = gens.rand_da(ctx.rng, sz, dims=wd, lo=0, hi=3, den=2, nan_p=0.1 if ctx.rng.random() < 0.3 else 0.0)
        allw = dims + ([d for d in w.dims if d not in dims] if w is not None else [])
        R = None if ctx.rng.random() < 0.4 else [d for d in allw if ctx.rng.random() < 0.5]
        c2 = dict(c, rd=R, pd=None, w=w)
        got = call_full(c2)
        weighted = base[1] if w is None else base[1] * w
        want = weighted.mean(dim=allw if R is None else R)
        desc = describe(c2)
        ctx.case(("reduction", desc), nontrivial=bool(np.isfinite(np.asarray(want.values, dtype=float)).any()))
        ctx.count("reduction")
        if got[0] != "ok":
            ctx.violation("reduced / weighted call fails where the per-case call succeeds", desc, "a value", got[1])
            continue
        g = got[1]
        if set(g.dims) != set(want.dims):
            ctx.violation("reduced / weighted call keeps other dimensions than requested", desc, sorted(want.dims), sorted(g.dims))
            continue
        g = sort_labels(g).transpose(*sort_labels(want).dims)
        if not same(g.values, sort_labels(want).values).all():
            ctx.violation("reduced / weighted result is not the NaN-skipping mean of per-case score x weights", desc,
                          np.asarray(sort_labels(want).values).tolist(), np.asarray(g.values).tolist())


# ---------------------------------------------------------------------------------------------------
# Dataset inputs: several variables whose NaN positions differ; each variable must score as it does alone as a DataArray
# ---------------------------------------------------------------------------------------------------
DS_CLASSES = ["missing-obs", "all-nan-ensemble", "single-member", "nan-members", "complete"]


def gen_dataset(ctx):
    rng = ctx.rng
    ens = rng.choice(["m", "ens"])
    data = rng.sample(["a", "b", "c"], rng.randint(1, 2))
    sizes = {d: rng.randint(2, 3) for d in data}
    sizes[ens] = rng.randint(1, 5)
    coords = {d: rng.sample(range(sizes[d]), sizes[d]) for d in sizes}      # shared by the variables, stored in shuffled order
    names = rng.sample(["temp", "rain", "wind"], rng.choice([2, 2, 3]))
    classes = rng.sample(DS_CLASSES, len(names))                              # distinct classes: NaN positions differ between variables
    if not set(classes) & {"missing-obs", "all-nan-ensemble", "single-member"}:
        classes[rng.randrange(len(classes))] = rng.choice(["missing-obs", "all-nan-ensemble", "single-member"])
    vals = [float(v) for v in rng.sample(GRID, rng.randint(2, 6))]
    odims = [d for d in data if rng.random() < 0.9]
    shared_obs = rng.random() < 0.12
    fv, ov = {}, {}
    for v, cls in zip(names, classes):
        fd = data + [ens]
        rng.shuffle(fd)
        f = np.array([rng.choice(vals) for _ in range(int(np.prod([sizes[d] for d in fd])))], dtype=float).reshape([sizes[d] for d in fd])
        f = xr.DataArray(f, dims=fd, coords={d: coords[d] for d in fd})
        o = np.array([rng.choice(vals) if rng.random() < 0.6 else float(rng.choice(GRID)) for _ in range(int(np.prod([sizes[d] for d in odims])) if odims else 1)],
                     dtype=float).reshape([sizes[d] for d in odims])
        o = xr.DataArray(o, dims=odims, coords={d: coords[d] for d in odims})
        idx = {d: rng.randrange(sizes[d]) for d in data}
        if cls == "missing-obs":
            o[{d: idx[d] for d in odims}] = NAN
            if odims and rng.random() < 0.4:
                o[{d: rng.randrange(sizes[d]) for d in odims}] = NAN
        elif cls == "all-nan-ensemble":
            f[idx] = NAN
        elif cls == "single-member":
            keep = rng.randrange(sizes[ens])
            for k in range(sizes[ens]):
                if k != keep:
                    f[dict(idx, **{ens: k})] = NAN
        elif cls == "nan-members":
            f = f.where(xr.DataArray(np.array([rng.random() >= 0.3 for _ in range(f.size)]).reshape(f.shape), dims=f.dims, coords=f.coords))
        fv[v], ov[v] = f, o
    obs = ov[names[0]] if shared_obs else ov
    kind = rng.choice(["plain", "plain", "tail", "interval", "chain", "brier"])
    mode = {"kind": kind}
    if kind in ("tail", "chain"):
        mode["tail"] = rng.choice(["upper", "lower"])
        mode["t"] = ds_threshold(rng, sizes, coords, data)
        if kind == "chain":
            mode["kwargs"] = rng.random() < 0.5
            mode["default"] = rng.choice([Fraction(-9), Fraction(9), Fraction(0)])
    elif kind == "interval":
        lo = ds_threshold(rng, sizes, coords, data)
        mode["lo"] = lo
        mode["hi"] = lo + float(rng.choice([Fraction(1, 2), Fraction(1), Fraction(5, 2)]))
    elif kind == "brier":
        mode["thresholds"] = sorted(rng.sample(GRID + [Fraction(k, 4) for k in (-5, -1, 1, 3, 7)], rng.randint(1, 4)))
        mode["fair"] = rng.random() < 0.5
        mode["op"] = rng.choice(OPS)
    w = None
    if rng.random() < 0.3:
        wd = [d for d in data if rng.random() < 0.6]
        w = xr.DataArray(np.array([float(rng.choice([Fraction(1, 2), Fraction(1), Fraction(2), Fraction(3)])) for _ in range(int(np.prod([sizes[d] for d in wd])) if wd else 1)]
                                  ).reshape([sizes[d] for d in wd]), dims=wd, coords={d: coords[d] for d in wd})
    rd, pd = gens.rand_dimspec(rng, data)
    if rng.random() < 0.35:
        rd, pd = None, "all"
    return dict(fcst=fv, obs=obs, ens=ens, mode=mode, method=rng.choice(["ecdf", "fair"]), rd=rd, pd=pd, w=w, comps=kind != "brier" and rng.random() < 0.75,
                classes=dict(zip(names, classes)))


def ds_threshold(rng, sizes, coords, data):
    if rng.random() < 0.6:
        return rng.choice(GRID)
    dims = [d for d in data if rng.random() < 0.6]
    v = np.array([float(rng.choice(GRID)) for _ in range(int(np.prod([sizes[d] for d in dims])) if dims else 1)]).reshape([sizes[d] for d in dims])
    return xr.DataArray(v, dims=dims, coords={d: coords[d] for d in dims})


def call_ds(c, fcst, obs):
    import operator
    if c["mode"]["kind"] != "brier":
        return call_full(c, fcst, obs)
    m = c["mode"]
    kw = dict(fair_correction=m["fair"], event_threshold_operator=getattr(operator, m["op"]))
    if c["rd"] is not None:
        kw["reduce_dims"] = c["rd"]
    if c["pd"] is not None:
        kw["preserve_dims"] = c["pd"]
    if c["w"] is not None:
        kw["weights"] = c["w"]
    return core.call_impl(P().brier_score_for_ensemble, fcst, obs, c["ens"], [float(t) for t in m["thresholds"]], **kw)


def describe_ds(c):
    m = dict(c["mode"])
    for k in ("t", "lo", "hi"):
        if k in m:
            m[k] = gens.da_repr(m[k])
    fn = {"plain": "crps_for_ensemble", "tail": "tail_tw_crps_for_ensemble", "chain": "tw_crps_for_ensemble", "interval": "interval_tw_crps_for_ensemble",
          "brier": "brier_score_for_ensemble"}[m["kind"]]
    return {"fn": fn + "[dataset]", "fcst": {v: gens.da_repr(x) for v, x in c["fcst"].items()},
            "obs": {v: gens.da_repr(x) for v, x in c["obs"].items()} if isinstance(c["obs"], dict) else gens.da_repr(c["obs"]),
            "ensemble_member_dim": c["ens"], "mode": m, "method": c["method"], "reduce_dims": c["rd"], "preserve_dims": c["pd"], "weights": gens.da_repr(c["w"]),
            "include_components": c["comps"], "nan_classes": c.get("classes")}


def check_dataset(ctx, c, first=False):
    """fcst (and obs) given as xr.Dataset: every variable of the result equals the result of the same call on that variable alone
    (values and NaN positions; a mask built across variables would couple them), and with include_components the parts of every
    variable add up: total = underforecast + overforecast - spread, per case (both methods) and after a NaN-skipping weighted
    mean (ecdf, where the NaN positions of the four parts coincide)"""
    F = xr.Dataset(c["fcst"])
    O = xr.Dataset(c["obs"]) if isinstance(c["obs"], dict) else c["obs"]
    desc = describe_ds(c)
    kind = c["mode"]["kind"]
    r = call_ds(c, F, O)
    alone = {v: call_ds(c, F[v], O[v] if isinstance(O, xr.Dataset) else O) for v in c["fcst"]}
    ctx.case(desc, nontrivial=r[0] == "ok")
    ctx.count("dataset:" + kind)
    for cls in set((c.get("classes") or {}).values()):
        ctx.count("dataset:nan-class=" + cls)
    if c["comps"]:
        ctx.count("dataset:components")
    if first:
        ctx.sample(desc)
    if r[0] != "ok" or any(a[0] != "ok" for a in alone.values()):
        if r[0] != "ok" and all(a[0] != "ok" for a in alone.values()):
            return
        ctx.violation("a Dataset call and the calls on its variables do not fail together", desc, {v: (a[1] if a[0] != "ok" else "ok") for v, a in alone.items()},
                      r[1] if r[0] != "ok" else "ok")
        return
    if not isinstance(r[1], xr.Dataset) or set(r[1].data_vars) != set(c["fcst"]):
        ctx.violation("the result for Dataset inputs does not have the variables of the forecast", desc, sorted(c["fcst"]), str(r[1])[:200])
        return
    for v, a in alone.items():
        g, e = r[1][v], a[1]
        if set(g.dims) != set(e.dims):
            ctx.violation("variable '%s' of the Dataset result has other dimensions than the same call on that variable alone" % v, desc, sorted(e.dims), sorted(g.dims))
            return
        g = sort_labels(g).transpose(*sort_labels(e).dims)
        ev = sort_labels(e).values
        if not same(g.values, ev).all():
            ctx.violation("variable '%s' of a Dataset is scored differently from the same variable passed alone as a DataArray "
                          "(the variables' NaN positions differ: %s)" % (v, c.get("classes")), desc, np.asarray(ev).tolist(), np.asarray(g.values).tolist())
            return
    if c["comps"]:
        per_case = set(r[1][next(iter(c["fcst"]))].dims) >= set(F.dims) - {c["ens"]}
        if per_case or c["method"] == "ecdf":
            for v in c["fcst"]:
                x = {k: r[1][v].sel(component=k).values for k in COMPONENTS}
                tot = x["total"]
                rec = x["underforecast_penalty"] + x["overforecast_penalty"] - x["spread"]
                bad = ~np.isnan(tot) & ~same(rec, tot)
                if bad.any():
                    ctx.violation("variable '%s' of a Dataset: total != underforecast + overforecast - spread" % v, desc, np.asarray(tot).tolist(), np.asarray(rec).tolist())
                    return
                ctx.count("dataset:parts-add-up")


def dataset_level(ctx, n):
    for i in range(n):
        if not ctx.time_left():
            break
        check_dataset(ctx, gen_dataset(ctx), first=i < 1)



def sort_labels(x):
    if isinstance(x, xr.DataArray):
        for d in x.dims:
            if d in x.coords:
                x = x.sortby(d)
    return x


def unj(v):
    """value from a replay file: fractions and nan were written as strings"""
    if isinstance(v, str):
        return NAN if v == "nan" else INF if v == "inf" else -INF if v == "-inf" else Fraction(v)
    if isinstance(v, list):
        return [unj(x) for x in v]
    if isinstance(v, float) and isinf(v):
        return v
    if isinstance(v, float) and v == v and float(v).is_integer():
        return Fraction(int(v))
    if isinstance(v, float) and v == v:
        return Fraction(v)
    return v


def replay(ctx, obj):
    """re-evaluate the predicate / correspondence of a recorded failing input (./check C06 --replay <file>)"""
    items = [obj["violation"]] if "violation" in obj else list(obj.get("no_longer_checks", {}).get("correspondence", []))
    for v in items:
        case = v.get("case", {})
        fn = case.get("fn") or ""
        if fn.endswith("[dataset]"):
            mode = dict(case["mode"])
            for k in ("t", "lo", "hi", "default"):
                if k in mode:
                    mode[k] = gens.da_from_repr(mode[k]) if isinstance(mode[k], dict) else unj(mode[k])
            if "thresholds" in mode:
                mode["thresholds"] = unj(mode["thresholds"])
            w = case.get("weights")
            ob = case["obs"]
            check_dataset(ctx, dict(fcst={v: gens.da_from_repr(x) for v, x in case["fcst"].items()},
                                    obs={v: gens.da_from_repr(x) for v, x in ob.items()} if "values" not in ob else gens.da_from_repr(ob),
                                    ens=case["ensemble_member_dim"], mode=mode, method=case["method"], rd=case.get("reduce_dims"), pd=case.get("preserve_dims"),
                                    w=gens.da_from_repr(w) if isinstance(w, dict) else None, comps=bool(case.get("include_components")),
                                    classes=case.get("nan_classes")))
        elif fn.endswith("[defaults]"):
            defaults_level(ctx, [(unj(c["members"]), unj(c["obs"])) for c in case["cases"]], "replay")
        elif "members" in case:
            xs, y = unj(case["members"]), unj(case["obs"])
            if fn.endswith("[magnitude]"):
                fx = (unj(case["lower_threshold"]), unj(case["upper_threshold"]), case.get("thresholds", "scalar")) if "lower_threshold" in case else None
                magnitude_level(ctx, [(xs, y)], "replay", ks=[int(case["scale"].split("^")[1])], offset=unj(case.get("offset", 0)), fixed=fx)
            elif fn.startswith("brier_score_for_ensemble") and fn.endswith("[inf]"):
                fx = {"ts": [unj(case["threshold"])]} if "threshold" in case else {}
                if "lower_threshold" in case:
                    fx["ab"] = (unj(case["lower_threshold"]), unj(case["upper_threshold"]))
                inf_brier_level(ctx, [(xs, y)], "replay", fixed=fx)
            elif fn == "tw[inf-threshold]":
                inf_threshold_level(ctx, [(xs, y)], "replay", fixed=(unj(case["threshold"]), case.get("thresholds", "scalar")))
            elif fn.endswith("[inf]"):
                inf_crps_level(ctx, [(xs, y)], "replay", fixed=(unj(case["lower_threshold"]), unj(case["upper_threshold"])))
            elif fn.endswith("[dtype]"):
                dtype_level(ctx, [(xs, y)], case["fcst_dtype"], case["obs_dtype"], "replay")
            elif fn == "tail/interval/tail":
                tw_level(ctx, [(xs, y)], "replay", fixed=(unj(case["lower_threshold"]), unj(case["upper_threshold"]), case.get("thresholds", "scalar")))
            elif fn == "brier_score_for_ensemble integral":
                brier_level(ctx, [(xs, y)], "replay")
            elif fn == "brier_score_for_ensemble":
                brier_weights_level(ctx, [(xs, y)], "replay")
            elif fn == "tw_crps_for_ensemble":
                kwargs_level(ctx, [(xs, y)], "replay")
            else:
                case_level(ctx, [(xs, y)], "replay")
                invariance_level(ctx, [(xs, y)], "replay")
        elif fn == "interval_tw_crps_for_ensemble" and "thresholds" in case:
            guard_level(ctx)
        elif "fcst" in case and "mode" in case:
            mode = dict(case["mode"])
            for k in ("t", "lo", "hi", "default"):
                if k in mode:
                    mode[k] = gens.da_from_repr(mode[k]) if isinstance(mode[k], dict) else unj(mode[k])
            w = case.get("weights")
            c = dict(fcst=gens.da_from_repr(case["fcst"]), obs=gens.da_from_repr(case["obs"]), ens=case["ensemble_member_dim"], mode=mode,
                     method=case["method"], rd=case.get("reduce_dims"), pd=case.get("preserve_dims"),
                     w=gens.da_from_repr(w) if isinstance(w, dict) else None, comps=bool(case.get("include_components")))
            check_full(ctx, c)
        else:
            corpus(ctx)


# ---------------------------------------------------------------------------------------------------
# magnitudes: the score has the unit of the data -- nothing in it is an absolute quantity.  The dyadic ensembles of the other
# streams multiplied by a power of two 2^k, k = -60 .. 40 (exact in binary64, so the rational oracles apply to the scaled values),
# optionally shifted by an ordinary-magnitude offset (a nearly perfect forecast: values of order 1 that differ by 2^-45 .. 2^-30);
# every comparison is relative to the unit 2^k of the data (no absolute floor)
# ---------------------------------------------------------------------------------------------------
MAG_RTOL = Fraction(1, 10 ** 9)


def mag_ok(x, q, unit, rtol=MAG_RTOL):
    """implementation float x vs exact rational q, for data that are multiples of unit / 2: |x - q| <= rtol * max(|q|, unit)
    (the rounding error of the kernel form is proportional to its terms, which are of the order of the unit; the smallest
    non-zero score of a dyadic ensemble of <= 51 members is > 1e-5 units)"""
    x = float(x)
    if isnan(q):
        return x != x
    if x != x or x in (INF, -INF):
        return False
    return abs(Fraction(x) - q) <= rtol * max(abs(q), unit)


def mag_same(a, b, unit, rtol=1e-12):
    """two implementation results that are equal in exact arithmetic and, power-of-two scaling being exact, in binary64 too"""
    a = np.asarray(a, dtype=float)
    b = np.asarray(b, dtype=float)
    with np.errstate(invalid="ignore"):
        return (np.isnan(a) & np.isnan(b)) | (a == b) | (np.abs(a - b) <= rtol * np.maximum(unit, np.abs(b)))


def exact_floats(vals):
    return all(isnan(v) or (abs(v) < 2 ** 1000 and Fraction(float(v)) == v) for v in vals)


def magnitude_level(ctx, cases, tag, ks=None, offset=None, fixed=None):
    """crps_for_ensemble (four components, both methods), lower tail / interval / upper tail and the threshold integral of
    brier_score_for_ensemble on data of magnitude 2^k: each against the exact rational oracle of the scaled values with a
    tolerance relative to 2^k, parts add up, zero iff every member equals the observation, and the scaling relation
    score(2^k x [+ c], 2^k y [+ c]) = 2^k score(x, y) (the Brier cells, being pure numbers, do not change at all)"""
    p = P()
    rng = ctx.rng
    cases = pad(cases)
    n = len(cases)
    if ks is None:
        ks = [-60, 40] + rng.sample(range(-59, 40), 2)
    c0 = Fraction(0) if offset is None else offset
    fc0, ob0 = batch_arrays(cases)
    # thresholds of the tail / interval calls (in units), scalar or one pair per case
    kind = fixed[2] if fixed is not None else rng.choice(["scalar", "array"])
    if fixed is not None:
        los, his = [fixed[0]] * n, [fixed[1]] * n
    elif kind == "scalar":
        lo, hi = sorted(rng.sample(GRID, 2))
        los, his = [lo] * n, [hi] * n
    else:
        los, his = [], []
        for xs, y in cases:
            pool = [v for v in xs + [y] if not isnan(v)] or GRID
            a = rng.choice(pool) if rng.random() < 0.6 else rng.choice(GRID)
            los.append(a)
            his.append(rng.choice([g for g in GRID + [Fraction(7)] if g > a]))
    pts = sorted({v for xs, y in cases for v in xs + [y] if not isnan(v)})
    mids = [(a + b) / 2 for a, b in zip(pts, pts[1:])]
    wid = [b - a for a, b in zip(pts, pts[1:])]

    def thr_arg(vals):
        return float(vals[0]) if kind == "scalar" else xr.DataArray([float(v) for v in vals], dims=["case"])

    def parts(f, o, lo_v, hi_v, meth):
        a, b = thr_arg(lo_v), thr_arg(hi_v)
        return [core.call_impl(p.tail_tw_crps_for_ensemble, f, o, "m", a, tail="lower", method=meth, preserve_dims="all"),
                core.call_impl(p.interval_tw_crps_for_ensemble, f, o, "m", a, b, method=meth, preserve_dims="all"),
                core.call_impl(p.tail_tw_crps_for_ensemble, f, o, "m", b, tail="upper", method=meth, preserve_dims="all")]

    def comps_of(f, o, meth):
        r = core.call_impl(p.crps_for_ensemble, f, o, "m", method=meth, preserve_dims="all", include_components=True)
        return r if r[0] != "ok" else ("ok", {c: r[1].sel(component=c).values for c in COMPONENTS})

    def brier_of(f, o, ts, fair):
        r = core.call_impl(p.brier_score_for_ensemble, f, o, "m", ts, fair_correction=fair, preserve_dims="all")
        return r

    base = {meth: comps_of(fc0, ob0, meth) for meth in ("ecdf", "fair")}
    base_parts = {meth: parts(fc0, ob0, los, his, meth) for meth in ("ecdf", "fair")}
    base_bs = {fair: (brier_of(fc0, ob0, [float(t) for t in mids], fair) if mids else None) for fair in (False, True)}
    for k in ks:
        s = Fraction(2) ** k
        fs = float(s)

        def T(v):
            return v if isnan(v) else v * s + c0

        sc = [([T(x) for x in xs], T(y)) for xs, y in cases]
        slo, shi, smid = [T(v) for v in los], [T(v) for v in his], [T(v) for v in mids]
        if not exact_floats([v for xs, y in sc for v in xs + [y]] + slo + shi + smid):
            ctx.count("magnitude:not-exact-in-binary64(skipped)")
            continue
        fc, ob = batch_arrays(sc)
        d0 = {"scale": "2^%d" % k, "offset": c0, "note": "members / obs / thresholds are given in units: the call receives value * scale + offset"}
        for meth in ("ecdf", "fair"):
            r = comps_of(fc, ob, meth)
            pr = parts(fc, ob, slo, shi, meth)
            shapes = [tuple(x[1].dims) for x in pr if x[0] == "ok"]
            if any(sh != ("case",) for sh in shapes):
                ctx.violation("tail / interval twCRPS (preserve_dims='all', include_components omitted) of fcst[case, m], obs[case] do not have the dimension (case)",
                              dict(d0, fn="tail/interval/tail[magnitude]", members=cases[0][0], obs=cases[0][1], method=meth, lower_threshold=los[0],
                                   upper_threshold=his[0], thresholds=kind), [["case"]] * 3, [list(map(str, sh)) for sh in shapes])
                continue
            if r[0] != "ok" or any(x[0] != "ok" for x in pr):
                ctx.violation("crps_for_ensemble / tail / interval fail for data of this magnitude", dict(d0, fn="crps_for_ensemble[magnitude]", members=cases[0][0],
                                                                                                          obs=cases[0][1], method=meth), "values",
                              [x[1] if x[0] != "ok" else "ok" for x in [r] + pr])
                continue
            got = r[1]
            pv = [x[1].values for x in pr]
            for i, (xs, y) in enumerate(sc):
                uxs, uy = cases[i]
                desc = dict(d0, fn="crps_for_ensemble[magnitude]", members=uxs, obs=uy, method=meth, members_given=[fl(x) for x in xs], obs_given=fl(y))
                valid = [x for x in xs if not isnan(x)]
                live = bool(valid) and not isnan(y)
                ctx.case((tag, k, str(c0), meth, tuple(map(str, uxs)), str(uy)), nontrivial=live)
                tot = kernel_form(valid, y, meth)
                if live:
                    du = sum((max(y - x, 0) for x in valid), Fraction(0)) / len(valid)
                    do = sum((max(x - y, 0) for x in valid), Fraction(0)) / len(valid)
                else:
                    du = do = NAN
                want = [tot, du, do, NAN if isnan(tot) or isnan(du) else du + do - tot]
                g4 = [float(got[c][i]) for c in COMPONENTS]
                bad = [c for c, g, w in zip(COMPONENTS, g4, want) if not mag_ok(g, w, s)]
                if bad:
                    ctx.violation("crps_for_ensemble of data of magnitude %s differs from the exact CRPS of the values by more than 1e-9 relative to the unit "
                                  "of the data (%s): the score has the unit of the data, no absolute quantity enters it" % (d0["scale"], ", ".join(bad)),
                                  desc, [w if isnan(w) else "%s (%r)" % (w, float(w)) for w in want], g4)
                    continue
                if meth == "ecdf" and live:
                    integ = ecdf_integral(xs, y)
                    if not mag_ok(g4[0], integ, s):
                        ctx.violation("crps_for_ensemble(method=ecdf) of small / large-magnitude data is not the integral of (F_ens - H_obs)^2", desc, str(integ), g4[0])
                    allsame = all(x == y for x in valid)
                    if (abs(g4[0]) <= 1e-9 * fs) != allsame:
                        ctx.violation("ecdf CRPS is zero iff every member equals the observation (data of magnitude %s)" % d0["scale"], desc,
                                      "zero" if allsame else "positive", g4[0])
                if not any(np.isnan(g) for g in g4) and abs(g4[1] + g4[2] - g4[3] - g4[0]) > 1e-9 * max(fs, abs(g4[0])):
                    ctx.violation("total != underforecast + overforecast - spread (data of magnitude %s)" % d0["scale"], desc, g4[0], g4[1] + g4[2] - g4[3])
                # scaling relation: the same call on the unscaled data, times 2^k
                if base[meth][0] == "ok":
                    b4 = [fs * float(base[meth][1][c][i]) for c in COMPONENTS]
                    if not mag_same(g4, b4, fs).all():
                        ctx.violation("CRPS(a x + c, a y + c) != |a| CRPS(x, y) for a = %s (a power of two: exact in binary64)" % d0["scale"], desc, b4, g4)
                # lower tail / interval / upper tail: exact oracle of the clipped values, parts add up, scaling
                dt = dict(desc, fn="tail/interval/tail[magnitude]", lower_threshold=los[i], upper_threshold=his[i], thresholds=kind)
                wantp = [clip_exact(xs, y, None, slo[i], meth), clip_exact(xs, y, slo[i], shi[i], meth), clip_exact(xs, y, shi[i], None, meth)]
                gp = [float(v[i]) for v in pv]
                if not all(mag_ok(g, w, s) for g, w in zip(gp, wantp)):
                    ctx.violation("lower tail / interval / upper tail twCRPS of data of magnitude %s differ from the exact CRPS of the clipped values "
                                  "(relative to the unit of the data)" % d0["scale"], dt, [str(w) for w in wantp], gp)
                elif not any(np.isnan(g) for g in gp + [g4[0]]) and abs(sum(gp) - g4[0]) > 1e-9 * max(fs, abs(g4[0])):
                    ctx.violation("lower tail + interval + upper tail != unweighted CRPS (data of magnitude %s)" % d0["scale"], dt, g4[0], sum(gp))
                elif all(x[0] == "ok" for x in base_parts[meth]):
                    bp = [fs * float(x[1].values[i]) for x in base_parts[meth]]
                    if not mag_same(gp, bp, fs).all():
                        ctx.violation("tail / interval twCRPS(a x + c, a y + c; a t + c) != |a| twCRPS(x, y; t) for a = %s" % d0["scale"], dt, bp, gp)
        # threshold integral of the ensemble Brier score (cells are pure numbers: unchanged by the scaling; widths scale)
        if mids:
            tf = [float(t) for t in smid]
            for fair in (False, True):
                rb = brier_of(fc, ob, tf, fair)
                d1 = dict(d0, fn="brier_score_for_ensemble integral[magnitude]", fair=fair, breakpoints=pts)
                bs = ct_values(ctx, rb[1], dict(d1, members=cases[0][0], obs=cases[0][1])) if rb[0] == "ok" else None
                if bs is None:
                    if rb[0] != "ok":
                        ctx.violation("brier_score_for_ensemble fails for data of this magnitude", dict(d1, members=cases[0][0], obs=cases[0][1]), "values", rb[1])
                    continue
                b0 = ct_values(ctx, base_bs[fair][1], dict(d1, members=cases[0][0], obs=cases[0][1], scale="2^0")) if base_bs[fair][0] == "ok" else None
                for i, (xs, y) in enumerate(sc):
                    uxs, uy = cases[i]
                    desc = dict(d1, members=uxs, obs=uy, members_given=[fl(x) for x in xs], obs_given=fl(y))
                    nvalid = sum(1 for x in xs if not isnan(x))
                    cell_bad = False
                    for j, t in enumerate(smid):
                        wantc = brier_exact(xs, y, t, fair)
                        if not core.close(bs[i, j], wantc) or (b0 is not None and not same(bs[i, j], b0[i, j], 1e-12)):
                            ctx.violation("ensemble Brier score of data of magnitude %s at a threshold between the values differs from (i/m - 1{obs >= t})^2 "
                                          "[- fair correction] / from the score of the unscaled data" % d0["scale"], dict(desc, threshold=mids[j]), str(wantc), float(bs[i, j]))
                            cell_bad = True
                            break
                    if cell_bad or (fair and nvalid == 1):
                        continue
                    integ = sum(float(w * s) * bs[i, j] for j, w in enumerate(wid))
                    ref = kernel_form([x for x in xs if not isnan(x)], y, "fair" if fair else "ecdf")
                    if not mag_ok(integ, ref, s, rtol=Fraction(1, 10 ** 8)):
                        ctx.violation("threshold integral of the ensemble Brier score != exact CRPS (data of magnitude %s)" % d0["scale"], desc, str(ref), float(integ))
        ctx.count("magnitude:2^%d" % k if k in (-60, 40) else "magnitude:2^k")
        if c0 != 0:
            ctx.count("magnitude:offset")
    ctx.count(tag, n)


def magnitude_stream(ctx):
    rng = ctx.rng
    for r in range(ctx.n(4, 120)):
        if not ctx.time_left():
            break
        k = ctx.n(24, 40)
        chunk = [rand_case(rng) for _ in range(k)] if r % 4 != 1 else [rand_sized_case(rng, rng.choice([5, 7, 9, 51])) for _ in range(8)]      # short failing inputs first
        magnitude_level(ctx, chunk, "magnitude")
        # a nearly perfect forecast of ordinary-magnitude data: values c + j * 2^k / 2 with c of order 1 (exact in binary64 for k >= -45;
        # the differences member - member and member - obs the code takes are exact too)
        magnitude_level(ctx, chunk[:12], "magnitude-offset", ks=rng.sample(range(-45, -29), 2), offset=rng.choice([g for g in GRID if g != 0]))


# ---------------------------------------------------------------------------------------------------
# optional arguments: every optional argument of the five public functions OMITTED and EXPLICIT (at its documented default and at
# other values); the omitted call = the call with the documented default written out = the exact oracle for that default
# ---------------------------------------------------------------------------------------------------
def doc_defaults():
    import operator
    common = dict(method="ecdf", reduce_dims=None, preserve_dims=None, weights=None, include_components=False)
    return {"crps_for_ensemble": dict(common),
            "tw_crps_for_ensemble": dict(common, chaining_func_kwargs=None),
            "tail_tw_crps_for_ensemble": dict(common, tail="upper"),
            "interval_tw_crps_for_ensemble": dict(common),
            "brier_score_for_ensemble": dict(reduce_dims=None, preserve_dims=None, weights=None, fair_correction=True, event_threshold_operator=operator.ge,
                                             threshold_dim="threshold")}


DEFAULT_WEIGHTS = [Fraction(1, 2), Fraction(3, 2), NAN, Fraction(2), Fraction(0), Fraction(3)]      # a case without a weight (NaN) is not scored; weight 0 is


def case_components(xs, y, meth, lo=None, hi=None):
    """exact [total, underforecast, overforecast, spread] of one case (values clipped to [lo, hi])"""
    def g(v):
        v = v if lo is None else max(v, lo)
        return v if hi is None else min(v, hi)
    valid = [g(x) for x in xs if not isnan(x)]
    if not valid or isnan(y):
        return [NAN] * 4
    yy = g(y)
    tot = kernel_form(valid, yy, meth)
    du = sum((max(yy - x, 0) for x in valid), Fraction(0)) / len(valid)
    do = sum((max(x - yy, 0) for x in valid), Fraction(0)) / len(valid)
    return [tot, du, do, NAN if isnan(tot) else du + do - tot]


def wmean(vals, ws):
    """NaN-skipping mean of value x weight (the library's weighting rule)"""
    v = [a if ws is None else (NAN if isnan(a) or isnan(w) else a * w) for a, w in zip(vals, ws or vals)]
    v = [a for a in v if not isnan(a)]
    return sum(v, Fraction(0)) / len(v) if v else NAN


def defaults_level(ctx, cases, tag):
    import operator
    p = P()
    cases = pad(cases)
    n = len(cases)
    fc, ob = batch_arrays(cases)
    pts = sorted({v for xs, y in cases for v in xs + [y] if not isnan(v)})
    if len(pts) < 3:
        return
    # thresholds derived from the batch (a replay needs the cases only): t0 / t1 on values of the data, Brier thresholds on and between them
    t0, t1 = pts[len(pts) // 2], pts[1]
    lo, hi = pts[0] + Fraction(1, 4), pts[-1] - Fraction(1, 4)
    bts = sorted(set(pts[:4] + [(a + b) / 2 for a, b in zip(pts[:3], pts[1:4])]))
    ws = [DEFAULT_WEIGHTS[i % len(DEFAULT_WEIGHTS)] for i in range(n)]
    w = xr.DataArray([fl(v) for v in ws], dims=["case"])
    DOC = doc_defaults()
    alts = {"method": ["fair"], "include_components": [True], "weights": [w], "reduce_dims": ["case", ["case"], "all"], "preserve_dims": ["all", ["case"], "case"],
            "tail": ["lower"], "chaining_func_kwargs": [{}, {"t": float(t1)}], "fair_correction": [False],
            "event_threshold_operator": [operator.gt, operator.le, operator.lt], "threshold_dim": ["thr"]}
    positional = {"crps_for_ensemble": (), "tw_crps_for_ensemble": (chain_fn("upper", float(t0)),), "tail_tw_crps_for_ensemble": (float(t0),),
                  "interval_tw_crps_for_ensemble": (float(lo), float(hi)), "brier_score_for_ensemble": ([float(t) for t in bts],)}

    shown = {"crps_for_ensemble": [], "tw_crps_for_ensemble": ["def v(x, t=%s): return np.maximum(x, t)" % t0], "tail_tw_crps_for_ensemble": [t0],
             "interval_tw_crps_for_ensemble": [lo, hi], "brier_score_for_ensemble": [bts]}

    def is_doc(kw, doc):
        return all(v is doc[a] or (not isinstance(v, (xr.DataArray, dict)) and v == doc[a]) for a, v in kw.items())

    def show(kw):
        out = {}
        for a, v in kw.items():
            out[a] = [str(x) for x in ws] if isinstance(v, xr.DataArray) else v.__name__ if callable(v) else v
        return out

    def expected(fn, eff):
        """-> (set of dims, values) of the exact result for the effective (given or documented default) arguments"""
        per_case = eff["preserve_dims"] is not None
        wl = None if eff["weights"] is None else ws
        if fn == "brier_score_for_ensemble":
            opn = eff["event_threshold_operator"].__name__
            cells = [[brier_exact_op(xs, y, t, eff["fair_correction"], opn) for t in bts] for xs, y in cases]
            if per_case:
                val = [[c if wl is None or isnan(c) else (NAN if isnan(wl[i]) else c * wl[i]) for c in row] for i, row in enumerate(cells)]
                return ["case", eff["threshold_dim"]], val
            return [eff["threshold_dim"]], [wmean([row[j] for row in cells], wl) for j in range(len(bts))]
        meth = eff["method"]
        if fn == "crps_for_ensemble":
            a, b = None, None
        elif fn == "tw_crps_for_ensemble":
            a, b = Fraction((eff["chaining_func_kwargs"] or {}).get("t", t0)), None
        elif fn == "tail_tw_crps_for_ensemble":
            a, b = (t0, None) if eff["tail"] == "upper" else (None, t0)
        else:
            a, b = lo, hi
        comp = [case_components(xs, y, meth, a, b) for xs, y in cases]
        names = range(4) if eff["include_components"] else [0]
        if per_case:
            val = [[c[k] if wl is None or isnan(c[k]) else (NAN if isnan(wl[i]) else c[k] * wl[i]) for i, c in enumerate(comp)] for k in names]
            dims = ["case"]
        else:
            val = [wmean([c[k] for c in comp], wl) for k in names]
            dims = []
        if eff["include_components"]:
            return ["component"] + dims, val
        return dims, val[0]

    def flat(v):
        return [x for r in v for x in flat(r)] if isinstance(v, list) else [v]

    for fn, doc in DOC.items():
        f = getattr(p, fn)
        variants = [({}, "all omitted"), (dict(doc), "all explicit at the documented defaults")]
        for a in doc:
            variants.append(({b: v for b, v in doc.items() if b != a}, a + " omitted, the others explicit"))
            variants.append(({a: doc[a]}, a + " explicit at its documented default, the others omitted"))
            for v in alts[a]:
                variants.append(({a: v}, a + " explicit, the others omitted"))
                other = "preserve_dims" if a == "reduce_dims" else "reduce_dims" if a == "preserve_dims" else None
                variants.append((dict({b: x for b, x in doc.items() if b != other}, **{a: v}), a + " explicit, the others explicit at the documented defaults"))
        ref = None
        for kw, what in variants:
            eff = dict(doc, **kw)
            r = core.call_impl(f, fc, ob, "m", *positional[fn], **kw)
            desc = {"fn": fn + "[defaults]", "cases": [{"members": xs, "obs": y} for xs, y in cases], "positional": shown[fn], "arguments_given": show(kw), "which": what}
            ctx.case((tag, fn, what, repr(show(kw)), tuple((tuple(map(str, xs)), str(y)) for xs, y in cases)))
            ctx.count("defaults:" + fn)
            if r[0] != "ok":
                ctx.violation(fn + " fails with valid optional arguments (" + what + ")", desc, "a value", r[1])
                continue
            dims, val = expected(fn, eff)
            res = r[1]
            if not isinstance(res, xr.DataArray) or set(res.dims) != set(dims):
                ctx.violation(fn + ": dimensions of the result differ from those the (documented default) arguments ask for (" + what + ")", desc, dims,
                              [str(d) for d in getattr(res, "dims", [type(res).__name__])])
                continue
            if "component" in dims and list(res["component"].values) != COMPONENTS:
                ctx.violation(fn + ": component labels", desc, COMPONENTS, [str(v) for v in res["component"].values])
                continue
            if fn.startswith("brier") and [float(v) for v in res[eff["threshold_dim"]].values] != [float(t) for t in bts]:
                ctx.violation(fn + ": the threshold coordinate of the result is not the thresholds given", desc, [float(t) for t in bts],
                              [float(v) for v in res[eff["threshold_dim"]].values])
                continue
            gv = np.asarray(res.transpose(*dims).values, dtype=float)
            wv = flat(val)
            if not core.close_list(gv.ravel().tolist(), wv):
                ctx.violation(fn + " differs from the exact value for the arguments given / the documented defaults of the arguments omitted (" + what + ")",
                              desc, [str(v) for v in wv], gv.ravel().tolist())
                continue
            if is_doc(kw, doc):
                if ref is None:
                    ref = (what, dims, gv)
                elif ref[1] != dims or not np.array_equal(ref[2], gv, equal_nan=True):
                    ctx.violation(fn + ": a call with an argument omitted differs from the call with its documented default written out (" + what + " vs " + ref[0] + ")",
                                  desc, ref[2].ravel().tolist(), gv.ravel().tolist())
        # a scalar threshold is the one-element list
        if fn.startswith("brier"):
            ti = [t for t in pts if t.denominator == 1]
            ts1 = int(ti[len(ti) // 2]) if ti and n % 2 else float(t0)      # a Python int or a float
            r1 = core.call_impl(f, fc, ob, "m", ts1)
            rl = core.call_impl(f, fc, ob, "m", [ts1])
            ctx.case((tag, fn, "scalar threshold", str(ts1), tuple((tuple(map(str, xs)), str(y)) for xs, y in cases)))
            ctx.count("defaults:scalar-threshold=" + type(ts1).__name__)
            if r1[0] != "ok" or rl[0] != "ok" or r1[1].dims != rl[1].dims or not np.array_equal(r1[1].values, rl[1].values, equal_nan=True):
                ctx.violation("brier_score_for_ensemble: a scalar event threshold is not scored as the one-element list",
                              {"fn": fn + "[defaults]", "cases": [{"members": xs, "obs": y} for xs, y in cases], "positional": [repr(ts1)], "arguments_given": {}},
                              str(rl[1].values.tolist()) if rl[0] == "ok" else rl[1], str(r1[1].values.tolist()) if r1[0] == "ok" else r1[1])
    ctx.count(tag, n)


def exhaustive_cases(maxm=3):
    vals = SMALL + [NAN]
    out = []
    for m in range(1, maxm + 1):
        for xs in itertools.product(vals, repeat=m):
            for y in vals:
                out.append((list(xs), y))
    return out


def rand_sized_case(rng, M, grid=GRID):
    """exactly M stored slots (rand_case draws 1..6 and a batch is NaN-padded to its longest member list)"""
    pn = rng.choice([0.0, 0.0, 0.0, 0.2, 0.5])
    pool = rng.sample(grid, rng.randint(2, min(6, len(grid))))
    xs = [NAN if rng.random() < pn else rng.choice(pool) for _ in range(M)]
    y = NAN if rng.random() < 0.05 else (rng.choice(pool) if rng.random() < 0.5 else rng.choice(grid))
    return xs, y


def size_level(ctx):
    """every predicate of the per-case level for ensembles of a fixed stored size, odd and larger sizes included (what is stored
    along the member dimension matters to a loop over members, not only the number of valid members): 5, 7, 9, 51 always"""
    rng = ctx.rng
    sizes = [5, 7, 9, 51] + rng.sample([3, 4, 8, 10, 11, 13, 16, 25, 50], min(9, ctx.n(2, 9)))
    for M in sizes:
        if not ctx.time_left():
            break
        k = ctx.n(10, 60) if M <= 16 else ctx.n(5, 16)
        chunk = [rand_sized_case(rng, M) for _ in range(k)]
        case_level(ctx, chunk, "size-case")
        tw_level(ctx, chunk, "size-tw")
        invariance_level(ctx, chunk, "size-invariance")
        brier_level(ctx, chunk[:12], "size-brier")
        ctx.count("size:members=" + str(M), k)


def storage_level(ctx):
    """integer / bool / float32 storage of the ensemble and the observation (every dtype of STORAGE in every run, odd and large
    member counts included)"""
    rng = ctx.rng
    plan = [(d, rng.choice([2, 3, 4, 5])) for d in STORAGE] + [(None, M) for M in (3, 5, 7, 9, 51)]      # small ensembles first: short failing inputs
    plan += [(None, None)] * ctx.n(3, 180)
    for fdt, M in plan:
        if not ctx.time_left():
            break
        cases, fdt, odt = rand_typed_batch(rng, ctx.n(6, 10) if (M or 0) < 20 else 4, fdt=fdt, M=M)
        dtype_level(ctx, cases, fdt, odt, "storage")


def run_without_model(ctx):
    """the extracted model does not build (a site no longer translates): the predicates that relate public calls to each other
    and to the harness' own exact-rational oracles still run and look for a concrete failing input"""
    ctx.no_model = True
    run(ctx)


def run(ctx):
    rng = ctx.rng
    if has_model(ctx):
        # a model that was not built must show before any violation is on record (core then falls back to run_without_model: the full model-free run)
        core.dec_nums(ctx.model("c06_case", enc_list([enc_nums([Fraction(0)]), enc_num(Fraction(0)), enc_str("ecdf")])))
    # optional arguments omitted / explicit: first (cheap; its violations are on record before a changed default can trip another stream
    # over an unexpected result shape)
    for _ in range(ctx.n(3, 60)):
        defaults_level(ctx, [rand_case(rng, maxm=5) for _ in range(rng.randint(4, 7))], "defaults")
    ex = exhaustive_cases(4 if ctx.tier == "thorough" else 3)
    ctx.exhaustive = True
    for i in range(0, len(ex), 400):
        case_level(ctx, ex[i:i + 400], "sweep")
    nr = ctx.n(300, 12000)
    rc = [rand_case(rng) for _ in range(nr)]
    for i in range(0, nr, 300):
        if not ctx.time_left():
            break
        chunk = rc[i:i + 300]
        case_level(ctx, chunk, "random-case")
        tw_level(ctx, chunk[:150], "tw-case")
        invariance_level(ctx, chunk, "invariance")
        for j in range(0, len(chunk), 30):
            brier_level(ctx, chunk[j:j + 30], "brier-integral")
        for j in range(0, len(chunk), 60):
            brier_weights_level(ctx, chunk[j:j + 12], "brier-weights")
        kwargs_level(ctx, chunk[:100], "chain-kwargs")
    magnitude_stream(ctx)
    size_level(ctx)
    storage_level(ctx)
    inf_level(ctx)
    dataset_level(ctx, ctx.n(150, 4000))
    tw_level(ctx, [c for c in ex if len(c[0]) >= 2][:: (7 if ctx.tier == "quick" else 1)], "tw-sweep")
    if has_model(ctx):
        full_level(ctx, ctx.n(350, 12000))
    additivity_full(ctx, ctx.n(60, 2500))
    reduction_level(ctx, ctx.n(80, 3000))
    guard_level(ctx)
    corpus(ctx)
    ctx.sample({"theorem": "C06_crps_ecdf_is_integral", "meaning": "kernel form = integral of (F_ens - 1{y<=t})^2 for every ensemble"})
