"""C10 -- threshold-weighted scores are weighted integrals of elementary scores; consistent_* scores non-negative."""
import functools
import itertools
from fractions import Fraction as Fr

import numpy as np
import xarray as xr

import core
import gens
from core import enc_arr, enc_dimspec, enc_list, enc_num, enc_opt, enc_str

ID = "C10"
LEVEL = "proof"
LEVEL_TEXT = ("Coq theorems for all rational (resp. real) inputs about the kernels regenerated from the current source: the rows of Table B1 "
              "(g, phi, phi' for rectangular and trapezoidal weights) are antiderivatives of the weight (Coquelicot is_RInt), the three consistent "
              "kernels applied to them are the integral over theta of weight x Murphy elementary score, reduce to the textbook losses for weight one, "
              "add up over partitions of unity, are non-negative and vanish at fcst = obs; the replacement of infinite end points is shown to be "
              "immaterial. The array plumbing (_auxiliary_funcs, wrappers, dims, weights, mean) is a hand model tied by a correspondence check on "
              "every run. Proof is the right level because the decisive inputs are values exactly on interval end points, which no sample hits.")
LEVEL_NOTE = ("trusted: translator + Xval semantics (validated by correspondence), extraction, harness; the R-level integral theorems use the "
              "standard Reals/Coquelicot axioms reported by Print Assumptions; binary64 rounding is not modelled (tolerance 1e-9)")
TECHNIQUE = "Coq proof (Q-level algebra axiom-free; Coquelicot is_RInt for the integral representation) over translator-regenerated kernels + extracted-model correspondence"
SITES = ["C10.cq", "C10.ce", "C10.ch", "C10.ga", "C10.gh", "C10.g_rect", "C10.phi_rect", "C10.phip_rect", "C10.g_trap", "C10.phi_trap",
         "C10.phip_trap", "C11.q", "C11.h", "C11.e"]
RULE = ("kernel level: the full tie grid (every end point, every value exactly on / next to an end point, NaN, +-inf) for g, phi, phi' and the "
        "three consistent kernels; function level: structured random cases (1-3 dims of size 1-3, obs / weights / end-point arrays on random "
        "subsets of the dims or on an extra dim, values and end points on the dyadic grid k/2 so that values sit exactly on end points, "
        "finite / infinite / per-dimension end points, rectangular and trapezoidal shapes, alpha and Huber parameters from a grid, all "
        "request spellings, NaN injected) plus a malformed stream; a near-tie stream off the grid (arbitrary binary64 values of magnitude 1e-9 .. 1e9 "
        "and 0, forecast errors of relative size 1e-11 .. 1e-1 or absolute size 1e-14 .. 1e-8, exact ties) against the exact oracle; integer storage dtypes (one or BOTH operands unsigned / int8) against the oracle on the values; +-inf "
        "among forecasts / observations against the integral over theta on the extended reals (value or NaN where the closed formula is inf - inf, "
        "never another number); a case is distinct by the hash of (function, inputs, options) and "
        "non-trivial when it yields a finite value or exercises an error path")
ASSUMPTIONS = ["labelled inputs carry identical label sets along shared dimensions (storage order, dimension order and scalar / array end points vary freely)"]
TRUSTED = ["R-level theorems (coq/proofs/C10_RInt*.v): Coq Reals + Coquelicot 3.x and their standard axioms, as listed per theorem"]

INF = float("inf")
NAN = float("nan")
# counters every complete run must have incremented (one per predicate family / input class); see core.run_check
EXPECT_COUNTS = ["table_b1_oracle_points", "kernel_grid_points_g_phi", "kernel_grid_points_consistent", "coord_order_corpus", "guard_probes", "near_tie_rounds",
                 "near_tie_decisive_points", "replacement_rounds", "perdim_rounds", "means_rounds", "int_dtype_corpus", "int_dtype_rounds", "int_dtype:uint8",
                 "int_dtype:uint16", "int_dtype:int64", "int_dtype:both-narrow", "int_dtype:consistent", "integral_rounds", "pointwise_rounds",
                 "infinite_data_rounds", "infinite_data:defined", "infinite_data:consistent_quantile", "ok", "err:ValueError", "shape:trap", "shape:rect",
                 "fn:tw_squared_error", "fn:tw_absolute_error", "fn:tw_quantile_score", "fn:tw_expectile_score", "fn:tw_huber_loss", "ends:array",
                 "ends:scalar", "ends:infinite", "ends:scalar-and-array", "perdim:scalar-and-array", "defaults_corpus", "data:obs-only-dim", "malformed:", "data:infinite", "consistent:quantile", "consistent:expectile", "consistent:huber"]
# repaired by repo_fixes/consistent-scores-integer-dtype.diff: `obs - fcst` / `fcst - obs` were taken in the integer storage dtype of the data
KEY_INT_DIFF = "consistent-scores-integer-dtype"
FNS = ["tw_squared_error", "tw_absolute_error", "tw_quantile_score", "tw_expectile_score", "tw_huber_loss"]
ALPHAS = [Fr(1, 10), Fr(1, 4), Fr(1, 2), Fr(3, 4), Fr(9, 10)]
HUBERS = [Fr(1, 2), Fr(1), Fr(5, 2), Fr(4)]


def S():
    import scores.continuous as C
    return C


def TW():
    import scores.continuous.threshold_weighted_impl as T
    return T


# ------------------------------------------------------------------------------------------
# generators
# ------------------------------------------------------------------------------------------
def mk(rng, sizes, dims, perms, values=None, den=2, bound=4, nan_p=0.0):
    """array over `dims`; labels stored in the common per-dimension order perms[d]; random dim order"""
    dims = list(dims)
    da = gens.rand_da(rng, sizes, dims=dims, den=den, bound=bound, nan_p=nan_p, shuffle=False, values=values)
    da = da.isel({d: perms[d] for d in dims})
    order = dims[:]
    rng.shuffle(order)
    da = da.transpose(*order)
    # fresh C-ordered storage: bottleneck 1.6.0 (used by xarray for .min()/.max()) returns garbage for a transposed view
    # whose size-1 dimension keeps a non-standard stride -- a platform bug outside nci/scores, see docs/C10.md
    return xr.DataArray(np.array(da.values, dtype=float, order="C", copy=True), dims=da.dims, coords={d: da[d].values.copy() for d in da.dims})


def param_for(rng, fn, bad=False):
    if fn in ("tw_squared_error", "tw_absolute_error"):
        return None
    if fn == "tw_huber_loss":
        return rng.choice([Fr(0), Fr(-1)]) if bad else rng.choice(HUBERS)
    return rng.choice([Fr(0), Fr(1), Fr(-1, 2), Fr(3, 2)]) if bad else rng.choice(ALPHAS)


def gen_ends(rng, sizes, perms, trap, bad=False):
    """-> (one, pos) tuples of python scalars / DataArrays (pos None for rectangular)"""
    mode = rng.choice(["scalar", "scalar", "sub", "extra", "mixed"])
    if mode == "scalar":
        esz, edims = {}, []
    elif mode == "extra":
        esz, edims = {"z": rng.randint(1, 2)}, ["z"]
    else:
        edims = [d for d in sizes if rng.random() < 0.6] or [next(iter(sizes))]
        esz = {d: sizes[d] for d in edims}
    allsz = dict(sizes)
    allsz.update(esz)
    pm = dict(perms)
    pm.setdefault("z", list(range(allsz.get("z", 1))))
    n = int(np.prod([esz[d] for d in edims])) if edims else 1
    b, c, a, d = [], [], [], []
    for _ in range(n):
        lo = Fr(rng.randint(-8, 6), 2)
        hi = lo + Fr(rng.randint(1, 8), 2)
        r = rng.random()
        linf = r < 0.25
        rinf = 0.15 < r < 0.4
        b.append(-INF if linf else float(lo))
        c.append(INF if rinf else float(hi))
        a.append(-INF if linf else float(lo - Fr(rng.randint(1, 4), 2)))
        d.append(INF if rinf else float(hi + Fr(rng.randint(1, 4), 2)))
    if mode == "mixed" and n > 1 and rng.random() < 0.7:
        # one side of the interval(s) the same for every slice, so that it is given as ONE Python scalar next to a per-dimension array
        # for the other side: (-inf, t[station]), (t[station], inf), (0, t[station]) ...
        if rng.random() < 0.5:
            b, a = [min(b)] * n, [min(a)] * n
        else:
            c, d = [max(c)] * n, [max(d)] * n
    what = None
    if bad:
        i = rng.randrange(n)
        what = rng.choice(["b>=c", "a>=b", "c>=d", "ainf", "dinf", "len"] if trap else ["b>=c", "b==c", "len"])
        if what == "b>=c":
            b[i], c[i] = (1.0, 0.5)
            a[i], d[i] = 0.0, 2.0
        elif what == "b==c":
            b[i] = c[i] = 1.0
        elif what == "a>=b":
            b[i], a[i] = (0.0, rng.choice([0.0, 0.5]))
            c[i], d[i] = 2.0, 3.0
        elif what == "c>=d":
            c[i], d[i] = (2.0, rng.choice([2.0, 1.5]))
            b[i], a[i] = 0.0, -1.0
        elif what == "ainf":
            a[i] = -INF
            b[i] = 0.0
            c[i], d[i] = 2.0, 3.0
        elif what == "dinf":
            d[i] = INF
            c[i] = 2.0
            b[i], a[i] = 0.0, -1.0

    def arr(vals, scalar_ok):
        if not edims:
            v = vals[0]
            if scalar_ok and float(v).is_integer() and rng.random() < 0.3:
                return int(v)
            return v
        da = xr.DataArray(np.array(vals, dtype=float).reshape([esz[x] for x in edims]), dims=edims,
                          coords={x: list(range(esz[x])) for x in edims})
        # every end-point array in its own storage order (repaired by 471de49 / aeac0ee: aligned with the data by label)
        return da.isel({x: rng.sample(range(esz[x]), esz[x]) for x in edims})

    def pair(u, v):
        if mode == "mixed" and edims:
            # (scalar, array) and (array, scalar): both members are converted when either is a Python number (7c177ef)
            sc = lambda x: int(x) if (float(x).is_integer() and rng.random() < 0.3) else x      # noqa: E731
            if all(x == u[0] for x in u) and rng.random() < 0.6:
                return (sc(u[0]), arr(v, False))
            if all(x == v[0] for x in v):
                return (arr(u, False), sc(v[0]))
            return (arr(u, False), arr(v, False))
        su = arr(u, True)
        sv = arr(v, True)
        if not edims and isinstance(su, int) != isinstance(sv, int):
            su, sv = float(su), float(sv)
        return (su, sv)
    one = pair(b, c)
    pos = pair(a, d) if trap else None
    if what == "len":
        one = one + (one[1],)
    return one, pos, what


def gen_case(ctx, bad=False):
    rng = ctx.rng
    sizes = gens.rand_sizes(rng)
    perms = {d: rng.sample(range(sizes[d]), sizes[d]) for d in sizes}
    operms = {d: rng.sample(range(sizes[d]), sizes[d]) for d in sizes}      # obs in its own storage order (5f9b684)
    fdims = list(sizes)
    odims = gens.sub_dims(rng, sizes, p_drop=0.25)
    obs_only = len(sizes) > 1 and rng.random() < 0.2
    if obs_only:        # a dimension only the observations have: one standing forecast per station against a series of observations
        fdims = gens.sub_dims(rng, sizes, p_drop=0.5, keep_at_least=1)
        if len(fdims) == len(sizes):
            fdims.pop(rng.randrange(len(fdims)))
        odims = [d for d in sizes if d not in fdims] + [d for d in fdims if rng.random() < 0.6]
        ctx.count("data:obs-only-dim")
    fcst = mk(rng, sizes, fdims, perms, nan_p=0.12 if rng.random() < 0.4 else 0.0)
    obs = mk(rng, sizes, odims, operms, nan_p=0.12 if rng.random() < 0.3 else 0.0)
    if rng.random() < 0.4:
        obs = gens.force_ties(rng, fcst, obs)
    if rng.random() < 0.12:      # +-inf as valid data (model tie: the model evaluates the same closed formulas by IEEE rules, NaN for inf - inf)
        for da in (fcst, obs):
            v = da.values.ravel().copy()
            for q in range(v.size):
                if rng.random() < 0.3:
                    v[q] = rng.choice([INF, -INF])
            da.values = v.reshape(da.shape)
    w = None
    if rng.random() < 0.3:
        wd = gens.sub_dims(rng, sizes, p_drop=0.4)
        w = gens.rand_da(rng, sizes, dims=wd, lo=0, hi=3, nan_p=0.1 if rng.random() < 0.3 else 0.0)
    rd, pd = gens.rand_dimspec(rng, list(sizes), allow_bad=bad)
    fn = rng.choice(FNS)
    trap = rng.random() < 0.5
    badkind = rng.choice(["ends", "param", "dims"]) if bad else None
    one, pos, what = gen_ends(rng, sizes, perms, trap, bad=(badkind == "ends"))
    param = param_for(rng, fn, bad=(badkind == "param"))
    return dict(fn=fn, fcst=fcst, obs=obs, param=param, one=one, pos=pos, rd=rd, pd=pd, w=w, bad=what if badkind == "ends" else badkind)


def call_tw(fn, fcst, obs, param, one, pos, rd=None, pd=None, w=None):
    f = getattr(S(), fn)
    kw = {}
    if pos is not None:
        kw["interval_where_positive"] = pos
    if rd is not None:
        kw["reduce_dims"] = rd
    if pd is not None:
        kw["preserve_dims"] = pd
    if w is not None:
        kw["weights"] = w
    args = [fcst, obs] + ([float(param)] if param is not None else []) + [one]
    return core.call_impl(f, *args, **kw)


def enc_ends(t):
    return enc_list([enc_arr(x) for x in t])


def model_tw(ctx, fn, fcst, obs, param, one, pos, rd=None, pd=None, w=None):
    return ctx.model("c10_tw", enc_list([enc_str(fn), enc_arr(fcst), enc_arr(obs), enc_num(param if param is not None else Fr(1, 2)),
                                         enc_ends(one), enc_opt(pos, enc_ends), enc_dimspec(rd), enc_dimspec(pd), enc_opt(w, enc_arr)]))


def desc_case(c):
    def e(t):
        return None if t is None else [gens.da_repr(x) for x in t]
    return {"fn": c["fn"], "fcst": gens.da_repr(c["fcst"]), "obs": gens.da_repr(c["obs"]), "param": c["param"], "interval_where_one": e(c["one"]),
            "interval_where_positive": e(c["pos"]), "reduce_dims": c["rd"], "preserve_dims": c["pd"], "weights": gens.da_repr(c["w"])}


# ------------------------------------------------------------------------------------------
# exact-rational oracle of the documented formulas (independent of the Coq model: used by run_without_model, and
# cross-checked against the model's specification entry whenever the model is available)
# ------------------------------------------------------------------------------------------
def orc_g(ends, x):
    if len(ends) == 2:
        a, b = ends
        return Fr(0) if x < a else (x - a if x < b else b - a)
    a, b, c, d = ends
    if x < a:
        return Fr(0)
    if x < b:
        return (x - a) ** 2 / (2 * (b - a))
    if x < c:
        return x - (a + b) / 2
    if x < d:
        return -(d - x) ** 2 / (2 * (d - c)) + (d + c - a - b) / 2
    return (d + c - a - b) / 2


def orc_phi(ends, x):
    if len(ends) == 2:
        a, b = ends
        return Fr(0) if x < a else (2 * (x - a) ** 2 if x < b else 4 * (b - a) * x + 2 * (a * a - b * b))
    a, b, c, d = ends
    k = 2 * ((b - a) ** 2 + 3 * a * b - (d - c) ** 2 - 3 * c * d) / 3
    if x < a:
        return Fr(0)
    if x < b:
        return 2 * (x - a) ** 3 / (3 * (b - a))
    if x < c:
        return 2 * x * x - 2 * (a + b) * x + 2 * (b - a) ** 2 / 3 + 2 * a * b
    if x < d:
        return 2 * (d - x) ** 3 / (3 * (d - c)) + 2 * (d + c - a - b) * x + k
    return 2 * (d + c - a - b) * x + k


def orc_losses(alpha, v, f, o):
    """squared error, absolute error, pinball, asymmetric squared error, Huber loss"""
    w = (1 - alpha) if o < f else alpha
    d = abs(f - o)
    return [d * d, d, w * d, w * d * d, d * d / 2 if d <= v else v * (d - v / 2)]


def orc_tw(ends, alpha, v, f, o):
    """the five tw_* values at one point for finite end points (Taggart 2022, eq. 8, 10, 11 with Table B1); ends = () -> unweighted"""
    if not ends:
        return orc_losses(alpha, v, f, o)
    g = lambda x: orc_g(ends, x)          # noqa: E731
    phi = lambda x: orc_phi(ends, x)      # noqa: E731
    phip = lambda x: 4 * g(x)             # noqa: E731

    def cq(al):
        return (1 - al) * (g(f) - g(o)) if o < f else al * (g(o) - g(f))

    def ce(al):
        return ((1 - al) if o < f else al) * (phi(o) - phi(f) - phip(f) * (o - f))
    k = max(-v, min(f - o, v))
    ch = Fr(1, 2) * (phi(o) - phi(k + o) + k * phip(f))
    return [ce(Fr(1, 2)), 2 * cq(Fr(1, 2)), cq(alpha), ce(alpha) / 2, ch / 2]


def table_b1_oracle(ctx):
    """the private helpers against the exact oracle on the tie grid (every end point, values next to end points)"""
    T = TW()
    xs = [Fr(k, 2) for k in range(-7, 12)]
    X = xr.DataArray([float(x) for x in xs], dims="x")
    sets = [(Fr(a), Fr(b)) for a, b in [(-2, 1), (0, 2), (Fr(1, 2), 1), (-3, Fr(-1, 2)), (1, 4)]]
    sets += [tuple(Fr(v) for v in q) for q in [(-2, -1, 1, 3), (0, Fr(1, 2), 1, 2), (-3, -1, 0, Fr(1, 2)), (Fr(-1, 2), 1, Fr(5, 2), 3), (1, 2, 3, 5)]]
    for ends in sets:
        fe = [float(e) for e in ends]
        sfx = "rect" if len(ends) == 2 else "trap"
        got = {"g": getattr(T, f"_g_j_{sfx}")(*fe, X).values, "phi": getattr(T, f"_phi_j_{sfx}")(*fe, X).values,
               "phi'": getattr(T, f"_phi_j_prime_{sfx}")(*fe, X).values}
        for i, x in enumerate(xs):
            want = {"g": orc_g(ends, x), "phi": orc_phi(ends, x), "phi'": 4 * orc_g(ends, x)}
            ctx.case(("b1", ends, x))
            for nm in want:
                if not core.close(got[nm][i], want[nm]):
                    ctx.violation(f"{nm}_j_{sfx} differs from row of Table B1", {"ends": ends, "x": x}, want[nm], float(got[nm][i]))
    ctx.count("table_b1_oracle_points", len(sets) * len(xs))


# ------------------------------------------------------------------------------------------
# kernel level
# ------------------------------------------------------------------------------------------
def kernel_grids(ctx):
    T = TW()
    xs = [Fr(k, 2) for k in range(-7, 12)]
    xsf = [float(x) for x in xs] + [NAN, INF, -INF]
    X = xr.DataArray(xsf, dims="x")
    n = 0
    rect = [(Fr(a), Fr(b)) for a, b in [(-2, 1), (0, 2), (Fr(1, 2), 1), (-3, Fr(-1, 2)), (1, 4)]]
    for a, b in rect:
        ig = T._g_j_rect(float(a), float(b), X).values
        ip = T._phi_j_rect(float(a), float(b), X).values
        ipp = T._phi_j_prime_rect(float(a), float(b), X).values
        for i, x in enumerate(xsf):
            m = core.dec_nums(ctx.model("c10_k_rect", enc_list([enc_num(a), enc_num(b), enc_num(x)])))
            ctx.case(("krect", a, b, repr(x)))
            n += 1
            for name, iv, gv, sv in (("g", ig[i], m[0], m[3]), ("phi", ip[i], m[1], m[4]), ("phi'", ipp[i], m[2], None)):
                if not core.close(iv, gv):
                    ctx.tie_fail(f"gen {name}_rect vs _{name}_j_rect", {"a": a, "b": b, "x": x}, iv, gv)
                if sv is not None and np.isfinite(x) and not core.close(iv, sv):
                    ctx.violation(f"{name}_j_rect differs from row of Table B1", {"a": a, "b": b, "x": x}, sv, iv)
    trap = [(-2, -1, 1, 3), (0, Fr(1, 2), 1, 2), (-3, -1, 0, Fr(1, 2)), (Fr(-1, 2), 1, Fr(5, 2), 3), (1, 2, 3, 5)]
    for a, b, c, d in trap:
        a, b, c, d = Fr(a), Fr(b), Fr(c), Fr(d)
        fa = [float(v) for v in (a, b, c, d)]
        ig = T._g_j_trap(*fa, X).values
        ip = T._phi_j_trap(*fa, X).values
        ipp = T._phi_j_prime_trap(*fa, X).values
        for i, x in enumerate(xsf):
            m = core.dec_nums(ctx.model("c10_k_trap", enc_list([enc_num(v) for v in (a, b, c, d)] + [enc_num(x)])))
            ctx.case(("ktrap", a, b, c, d, repr(x)))
            n += 1
            for name, iv, gv, sv in (("g", ig[i], m[0], m[3]), ("phi", ip[i], m[1], m[4]), ("phi'", ipp[i], m[2], None)):
                if not core.close(iv, gv):
                    ctx.tie_fail(f"gen {name}_trap vs _{name}_j_trap", {"ends": (a, b, c, d), "x": x}, iv, gv)
                if sv is not None and np.isfinite(x) and not core.close(iv, sv):
                    ctx.violation(f"{name}_j_trap differs from row of Table B1", {"ends": (a, b, c, d), "x": x}, sv, iv)
    ctx.count("kernel_grid_points_g_phi", n)


CODES = {
    # name -> (python builder from params, arity)
    "id": lambda p: (lambda x: x),
    "lin": lambda p: (lambda x: p[0] * x),
    "sq": lambda p: (lambda x: p[0] * x ** 2),
    "cube": lambda p: (lambda x: x ** 3),
    "quart": lambda p: (lambda x: (x ** 2) ** 2),
    "step": lambda p: (lambda x: xr.where(x >= p[0], 1.0, 0.0).where(x.notnull())),
    "hinge": lambda p: (lambda x: np.maximum(x - p[0], 0.0)),
    "hinge2": lambda p: (lambda x: np.maximum(x - p[0], 0.0) ** 2),
    "abs": lambda p: (lambda x: np.abs(x)),
    "sign": lambda p: (lambda x: xr.where(x >= 0, 1.0, -1.0).where(x.notnull())),
}
# (g) for quantile; (phi, phi') convex pairs for expectile / huber
G_CODES = [("id", []), ("cube", []), ("step", [Fr(1, 2)]), ("hinge", [Fr(-1)]), ("lin", [Fr(3)])]
PHI_CODES = [(("sq", [Fr(1)]), ("lin", [Fr(2)])), (("quart", []), ("lin4cube", [])), (("hinge2", [Fr(1, 2)]), ("hinge2p", [Fr(1, 2)])),
             (("abs", []), ("sign", []))]


def py_code(code):
    name, ps = code
    p = [float(x) for x in ps]
    T = TW()
    if name in CODES:
        return CODES[name](p)
    if name == "lin4cube":
        return lambda x: 4 * x ** 3
    if name == "hinge2p":
        return lambda x: 2 * np.maximum(x - p[0], 0.0)
    return functools.partial(getattr(T, {"g_rect": "_g_j_rect", "phi_rect": "_phi_j_rect", "phip_rect": "_phi_j_prime_rect",
                                         "g_trap": "_g_j_trap", "phi_trap": "_phi_j_trap", "phip_trap": "_phi_j_prime_trap"}[name]), *p)


def enc_code(code):
    name, ps = code
    if name == "lin4cube":       # 4 x^3 is not in the model vocabulary as such: handled by the caller
        raise KeyError(name)
    if name == "hinge2p":
        raise KeyError(name)
    return enc_list([enc_str(name)] + [enc_num(x) for x in ps])


def code_sets(rng):
    """(g, phi, phi') code triples available in the model vocabulary"""
    ends2 = [Fr(-1), Fr(3, 2)]
    ends4 = [Fr(-2), Fr(-1), Fr(1), Fr(5, 2)]
    out = []
    for g in G_CODES + [("g_rect", ends2), ("g_trap", ends4)]:
        out.append((g, ("sq", [Fr(1)]), ("lin", [Fr(2)])))
    out.append((("id", []), ("abs", []), ("sign", [])))
    out.append((("id", []), ("phi_rect", ends2), ("phip_rect", ends2)))
    out.append((("id", []), ("phi_trap", ends4), ("phip_trap", ends4)))
    out.append((("id", []), ("sq", [Fr(2)]), ("lin", [Fr(4)])))
    return out


def consistent_grid(ctx):
    C = S()
    grid = [Fr(k, 2) for k in range(-5, 8)]
    pts = [(f, o) for f in grid for o in grid]
    F = xr.DataArray([float(f) for f, _ in pts] + [NAN, 1.0], dims="x")
    O = xr.DataArray([float(o) for _, o in pts] + [1.0, NAN], dims="x")
    pts = pts + [(NAN, Fr(1)), (Fr(1), NAN)]
    n = 0
    for g, phi, phip in code_sets(ctx.rng):
        for kind, param in (("quantile", Fr(1, 4)), ("expectile", Fr(7, 10)), ("huber", Fr(3, 2))):
            cargs = (py_code(g),) if kind == "quantile" else (py_code(phi), py_code(phip))
            st, impl = core.call_impl(getattr(C, f"consistent_{kind}_score"), F, O, float(param), *cargs, preserve_dims="all")
            if st != "ok":
                ctx.violation(f"consistent_{kind}_score raised on valid input", {"g": g, "phi": phi, "phi_prime": phip, "param": param, "fcst, obs": "grid k/2 and NaN"}, "values", impl)
                continue
            impl = impl.values
            for i, (f, o) in enumerate(pts):
                m = core.dec_num(ctx.model("c10_k_consistent", enc_list([enc_str(kind), enc_code(g), enc_code(phi), enc_code(phip),
                                                                         enc_num(f), enc_num(o), enc_num(param)])))
                ctx.case(("kcons", kind, g, phi, repr(f), repr(o)))
                n += 1
                if not core.close(impl[i], m):
                    ctx.tie_fail(f"gen_consistent_{kind} vs consistent_{kind}_score", {"g": g, "phi": phi, "phi_prime": phip, "fcst": f, "obs": o, "param": param},
                                 float(impl[i]), m)
                # property: non-negative, zero at fcst == obs (g non-decreasing / phi convex in every code set)
                if np.isfinite(impl[i]) and (impl[i] < -1e-12 or (f == o and abs(impl[i]) > 1e-12)):
                    ctx.violation(f"consistent_{kind}_score negative or non-zero at fcst=obs", {"g": g, "phi": phi, "fcst": f, "obs": o, "param": param},
                                  ">= 0 (0 at fcst=obs)", float(impl[i]))
    ctx.count("kernel_grid_points_consistent", n)


# ------------------------------------------------------------------------------------------
# property predicates on the implementation
# ------------------------------------------------------------------------------------------
def pointwise_props(ctx, rounds, use_model=True):
    """values on a small grid with end points exactly on grid values: specification value, weight one, partitions, non-negativity,
    zero at fcst = obs, immateriality of the finite replacement of infinite end points.  The specification value is the exact
    oracle `orc_tw`; with the model available it is cross-checked against the proved specification functions (`c10_spec_point`)."""
    C = S()
    rng = ctx.rng
    grid = [Fr(k, 2) for k in range(-6, 7)]
    pts = [(f, o) for f in grid for o in grid]
    F = xr.DataArray([float(f) for f, _ in pts], dims="x")
    O = xr.DataArray([float(o) for _, o in pts], dims="x")
    P = dict(preserve_dims="all")

    def run(fn, param, one, pos=None):
        st, v = call_tw(fn, F, O, param, one, pos, pd="all")
        if st != "ok":
            return None
        return np.asarray(v.values, dtype=float)

    def spec(ends, alpha, v):
        out = []
        for f, o in pts:
            want = orc_tw(tuple(ends), alpha, v, f, o)
            if use_model:
                m = core.dec_nums(ctx.model("c10_spec_point", enc_list([enc_list([enc_num(e) for e in ends]), enc_num(f), enc_num(o), enc_num(alpha), enc_num(v)])))
                if m != want:
                    ctx.tie_fail("harness oracle differs from the proved specification functions", {"ends": ends, "fcst": f, "obs": o, "alpha": alpha, "huber": v},
                                 [str(x) for x in want], [str(x) for x in m])
            out.append(want)
        return out

    for _ in range(rounds):
        if not ctx.time_left():
            break
        alpha = rng.choice(ALPHAS)
        hub = rng.choice(HUBERS)
        params = {"tw_squared_error": None, "tw_absolute_error": None, "tw_quantile_score": alpha, "tw_expectile_score": alpha, "tw_huber_loss": hub}
        b, c = sorted(rng.sample([Fr(k, 2) for k in range(-4, 5)], 2))
        a = b - Fr(rng.randint(1, 3), 2)
        d = c + Fr(rng.randint(1, 3), 2)
        sp_rect = spec([b, c], alpha, hub)
        sp_trap = spec([a, b, c, d], alpha, hub)
        sp_one = spec([], alpha, hub)
        for k, fn in enumerate(FNS):
            p = params[fn]
            base = {"fn": fn, "param": p, "alpha": alpha, "huber": hub}
            r = run(fn, p, (float(b), float(c)))
            t = run(fn, p, (float(b), float(c)), (float(a), float(d)))
            one = run(fn, p, (-INF, INF))
            lo = run(fn, p, (-INF, float(b)))
            hi = run(fn, p, (float(c), INF))
            tl = run(fn, p, (-INF, float(a)), (-INF, float(b)))
            th = run(fn, p, (float(d), INF), (float(c), INF))
            fin_lo = run(fn, p, (float(grid[0] - rng.randint(1, 9)), float(b)))
            fin_hi = run(fn, p, (float(c), float(grid[-1] + rng.randint(1, 9))))
            got = dict(r=r, t=t, one=one, lo=lo, hi=hi, tl=tl, th=th, fin_lo=fin_lo, fin_hi=fin_hi)
            if any(v is None for v in got.values()):
                ctx.violation("tw_* raised on valid end points", dict(base, ends=(a, b, c, d)), "values", {k2: v is None for k2, v in got.items()})
                continue
            for i, (f, o) in enumerate(pts):
                cs = dict(base, fcst=f, obs=o)
                ctx.case(("pp", fn, p, a, b, c, d, f, o))
                if not core.close(r[i], sp_rect[i][k]):
                    ctx.violation("tw_* (rectangular) differs from the proved specification value", dict(cs, interval_where_one=(b, c)), sp_rect[i][k], r[i])
                if not core.close(t[i], sp_trap[i][k]):
                    ctx.violation("tw_* (trapezoidal) differs from the proved specification value",
                                  dict(cs, interval_where_one=(b, c), interval_where_positive=(a, d)), sp_trap[i][k], t[i])
                if not core.close(one[i], sp_one[i][k]):
                    ctx.violation("tw_* with weight one differs from the unweighted loss", dict(cs, interval_where_one=("-inf", "inf")), sp_one[i][k], one[i])
                if abs(lo[i] + r[i] + hi[i] - one[i]) > 1e-9 * max(1, abs(one[i])):
                    ctx.violation("rectangular partition of unity does not add up", dict(cs, cuts=(b, c)), one[i], lo[i] + r[i] + hi[i])
                if abs(tl[i] + t[i] + th[i] - one[i]) > 1e-9 * max(1, abs(one[i])):
                    ctx.violation("trapezoidal partition of unity does not add up", dict(cs, ends=(a, b, c, d)), one[i], tl[i] + t[i] + th[i])
                for nm, arr in got.items():
                    if arr[i] < -1e-12 or (f == o and abs(arr[i]) > 1e-12):
                        ctx.violation("tw_* negative or non-zero at fcst=obs", dict(cs, which=nm, ends=(a, b, c, d)), ">= 0 (0 at fcst=obs)", arr[i])
                if abs(lo[i] - fin_lo[i]) > 1e-9 * max(1, abs(lo[i])) or abs(hi[i] - fin_hi[i]) > 1e-9 * max(1, abs(hi[i])):
                    ctx.violation("infinite end point differs from a finite end point beyond the data range", dict(cs, cuts=(b, c)), (lo[i], hi[i]), (fin_lo[i], fin_hi[i]))
        ctx.count("pointwise_rounds")
    # cross-check weight one against the library's own unweighted scores
    alpha = rng.choice(ALPHAS)
    for name, c1, b1 in (("mse", lambda: C.tw_squared_error(F, O, (-INF, INF), **P), C.mse(F, O, **P)),
                         ("mae", lambda: C.tw_absolute_error(F, O, (-INF, INF), **P), C.mae(F, O, **P)),
                         ("quantile_score", lambda: C.tw_quantile_score(F, O, float(alpha), (-INF, INF), **P), C.quantile_score(F, O, float(alpha), preserve_dims=["x"]))):
        st, a1 = core.call_impl(c1)
        if st != "ok":
            ctx.violation(f"tw with weight one raised on valid input ({name})", {"interval_where_one": ("-inf", "inf"), "alpha": alpha}, "values", a1)
            continue
        if not np.allclose(a1.values, b1.values, rtol=1e-9, atol=1e-12):
            i = int(np.argmax(np.abs(a1.values - b1.values)))
            ctx.violation(f"tw with weight one differs from {name}", {"fcst": pts[i][0], "obs": pts[i][1], "alpha": alpha}, float(b1.values[i]), float(a1.values[i]))


def weight_fn(ends):
    """the threshold weight of the docstrings: 1 on [b, c), linear ramps on [a, b] and [c, d] (trapezoid), 0 elsewhere"""
    if len(ends) == 2:
        b, c = ends
        return lambda t: Fr(1) if b <= t < c else Fr(0)
    a, b, c, d = ends

    def w(t):
        if t < a or t >= d:
            return Fr(0)
        if t < b:
            return (t - a) / (b - a)
        if t < c:
            return Fr(1)
        return (d - t) / (d - c)
    return w


def integral_props(ctx, rounds):
    """the property itself on the implementation: tw_* == integral over theta of weight(theta) x murphy_score(theta), evaluated exactly
    (between consecutive kinks the integrand is a polynomial of degree <= 3 in theta: open 3-point Newton-Cotes (Milne) is exact)"""
    rng = ctx.rng
    C = S()
    for _ in range(rounds):
        if not ctx.time_left():
            break
        f = Fr(rng.randint(-8, 8), 2)
        o = f if rng.random() < 0.15 else Fr(rng.randint(-8, 8), 2)
        alpha, hub = rng.choice(ALPHAS), rng.choice(HUBERS)
        b = Fr(rng.randint(-8, 6), 2)
        c = b + Fr(rng.randint(1, 8), 2)
        trap = rng.random() < 0.5
        ends = (b - Fr(rng.randint(1, 4), 2), b, c, c + Fr(rng.randint(1, 4), 2)) if trap else (b, c)
        w = weight_fn(ends)
        kinks = sorted({f, o, o + hub, o - hub, *ends, min(f, o, ends[0]) - 1, max(f, o, ends[-1]) + 1})
        nodes, hs = [], []
        for k0, k1 in zip(kinks, kinks[1:]):
            h = k1 - k0
            nodes += [k0 + h / 4, k0 + h / 2, k0 + 3 * h / 4]
            hs.append(h)
        F = xr.DataArray([float(f)], dims=["x"])
        O = xr.DataArray([float(o)], dims=["x"])

        def integral(functional, al):
            kw = {"huber_a": float(hub)} if functional == "huber" else {}
            st, ms = core.call_impl(C.murphy_score, F, O, [float(t) for t in nodes], functional=functional, alpha=float(al), preserve_dims="all", **kw)
            if st != "ok":
                ctx.violation("murphy_score raised on valid input (integrand of the integral representation)",
                              {"fcst": f, "obs": o, "thetas": nodes, "functional": functional, "alpha": al, **kw}, "values", ms)
                return None
            ms = ms["total"].values.ravel()
            tot = Fr(0)
            for j, h in enumerate(hs):
                g = [w(nodes[3 * j + i]) * Fr(float(ms[3 * j + i])) for i in range(3)]
                tot += h / 3 * (2 * g[0] - g[1] + 2 * g[2])
            return tot
        one = tuple(float(e) for e in (ends[1:3] if trap else ends))
        pos = (float(ends[0]), float(ends[3])) if trap else None
        ints = {key: integral(*key) for key in (("expectile", Fr(1, 2)), ("quantile", Fr(1, 2)), ("quantile", alpha), ("expectile", alpha), ("huber", Fr(1, 2)))}
        if any(v is None for v in ints.values()):
            continue
        want = {"tw_squared_error": 4 * ints[("expectile", Fr(1, 2))], "tw_absolute_error": 2 * ints[("quantile", Fr(1, 2))],
                "tw_quantile_score": ints[("quantile", alpha)], "tw_expectile_score": 2 * ints[("expectile", alpha)],
                "tw_huber_loss": 2 * ints[("huber", Fr(1, 2))]}
        for fn in FNS:
            p = {"tw_quantile_score": alpha, "tw_expectile_score": alpha, "tw_huber_loss": hub}.get(fn)
            st, v = call_tw(fn, F, O, p, one, pos, pd="all")
            ctx.case(("integral", fn, f, o, ends, p))
            if st != "ok" or not core.close(float(v.values.ravel()[0]), want[fn]):
                ctx.violation("tw_* differs from the integral over theta of weight x murphy_score",
                              {"fn": fn, "fcst": f, "obs": o, "param": p, "interval_where_one": one, "interval_where_positive": pos},
                              want[fn], float(v.values.ravel()[0]) if st == "ok" else v)
        ctx.count("integral_rounds")



def guard_probes(ctx):
    """documented boundaries of the parameters and end points: just inside must be accepted, on / outside must raise ValueError"""
    C = S()
    f = xr.DataArray([0.0, 1.0, 2.5], dims=["x"])
    o = xr.DataArray([0.5, 1.0, -1.0], dims=["x"])
    eps = 1.0 / 1024
    probes = []
    for a in (0.0, 1.0, -eps, 1 + eps):
        probes += [("tw_quantile_score", (a, (0.0, 1.0)), {}, False), ("tw_expectile_score", (a, (0.0, 1.0)), {}, False),
                   ("consistent_quantile_score", (a, lambda x: x), {}, False), ("consistent_expectile_score", (a, lambda x: x ** 2, lambda x: 2 * x), {}, False)]
    for a in (eps, 1 - eps):
        probes += [("tw_quantile_score", (a, (0.0, 1.0)), {}, True), ("tw_expectile_score", (a, (0.0, 1.0)), {}, True),
                   ("consistent_quantile_score", (a, lambda x: x), {}, True), ("consistent_expectile_score", (a, lambda x: x ** 2, lambda x: 2 * x), {}, True)]
    for v, ok in ((0.0, False), (-eps, False), (eps, True)):
        probes += [("tw_huber_loss", (v, (0.0, 1.0)), {}, ok), ("consistent_huber_score", (v, lambda x: x ** 2, lambda x: 2 * x), {}, ok)]
    # end points: b == c and b > c rejected, b < c accepted; trapezoid: a == b / c == d rejected unless both infinite
    for fn, pre in (("tw_squared_error", ()), ("tw_absolute_error", ()), ("tw_quantile_score", (0.5,)), ("tw_expectile_score", (0.5,)), ("tw_huber_loss", (1.0,))):
        probes += [(fn, pre + ((1.0, 1.0),), {}, False), (fn, pre + ((1.0 + eps, 1.0),), {}, False), (fn, pre + ((1.0, 1.0 + eps),), {}, True),
                   (fn, pre + ((-INF, INF),), {}, True), (fn, pre + ((INF, INF),), {}, False),
                   (fn, pre + ((0.0, 1.0),), {"interval_where_positive": (0.0, 2.0)}, False),
                   (fn, pre + ((0.0, 1.0),), {"interval_where_positive": (-1.0, 1.0)}, False),
                   (fn, pre + ((0.0, 1.0),), {"interval_where_positive": (-eps, 1.0 + eps)}, True),
                   (fn, pre + ((0.0, 1.0),), {"interval_where_positive": (-INF, 2.0)}, False),
                   (fn, pre + ((0.0, 1.0),), {"interval_where_positive": (-1.0, INF)}, False),
                   (fn, pre + ((-INF, 1.0),), {"interval_where_positive": (-INF, 2.0)}, True),
                   (fn, pre + ((0.0, INF),), {"interval_where_positive": (-1.0, INF)}, True),
                   (fn, pre + ((0.0, 1.0, 2.0),), {}, False),
                   (fn, pre + ((0.0, 1.0),), {"interval_where_positive": (-1.0, 2.0, 3.0)}, False)]
    for fn, args, kw, ok in probes:
        st, val = core.call_impl(getattr(C, fn), f, o, *args, **kw)
        ctx.case(("guard", fn, repr(args[:1]), repr(sorted(kw)), ok))
        good = (st == "ok") if ok else (st == "err" and val == "err:ValueError")
        if not good:
            shown = [a if not callable(a) else "<callable>" for a in args]
            ctx.violation(f"{fn}: parameter / end-point guard at the documented boundary", {"fn": fn, "args": shown, "kwargs": kw},
                          "accepted" if ok else "ValueError", st if st == "ok" else val)
    ctx.count("guard_probes", len(probes))


def replacement_props(ctx, rounds):
    """an infinite end point must give the same scores as ANY finite end point beyond the data, whatever the relative ranges of
    fcst and obs (rectangular and trapezoidal, one side or both)"""
    rng = ctx.rng
    for _ in range(rounds):
        if not ctx.time_left():
            break
        n = rng.randint(1, 4)
        fl, ol = rng.choice([(-8, 8), (-8, 0), (0, 8), (-2, 2)]), rng.choice([(-8, 8), (-8, 0), (0, 8), (-2, 2)])
        F = xr.DataArray([float(Fr(rng.randint(*fl), 2)) for _ in range(n)], dims=["x"])
        O = xr.DataArray([float(Fr(rng.randint(*ol), 2)) for _ in range(n)], dims=["x"])
        lo = min(float(F.min()), float(O.min()))
        hi = max(float(F.max()), float(O.max()))
        b = float(Fr(rng.randint(-6, 4), 2))
        c = b + float(Fr(rng.randint(1, 6), 2))
        L1 = min(lo, b) - rng.choice([0.5, 1.0, 7.0])
        L2 = L1 - rng.choice([0.5, 3.0])
        U1 = max(hi, c) + rng.choice([0.5, 1.0, 7.0])
        U2 = U1 + rng.choice([0.5, 3.0])
        a, d = b - 1.5, c + 0.5
        alpha, hub = rng.choice(ALPHAS), rng.choice(HUBERS)
        configs = [("rect -inf", (-INF, c), None, (L1, c), None), ("rect +inf", (b, INF), None, (b, U1), None), ("rect both", (-INF, INF), None, (L1, U1), None),
                   ("trap -inf", (-INF, c), (-INF, d), (L1, c), (L2, d)), ("trap +inf", (b, INF), (a, INF), (b, U1), (a, U2)),
                   ("trap both", (-INF, INF), (-INF, INF), (L1, U1), (L2, U2))]
        for fn in FNS:
            p = param_for(rng, fn)
            if fn in ("tw_quantile_score", "tw_expectile_score"):
                p = alpha
            elif fn == "tw_huber_loss":
                p = hub
            for name, one_i, pos_i, one_f, pos_f in configs:
                ri = call_tw(fn, F, O, p, one_i, pos_i, pd="all")
                rf = call_tw(fn, F, O, p, one_f, pos_f, pd="all")
                ctx.case(("repl", fn, name, repr(F.values.tolist()), repr(O.values.tolist()), b, c))
                if ri[0] != "ok" or rf[0] != "ok" or not np.allclose(ri[1].values, rf[1].values, rtol=1e-9, atol=1e-12):
                    ctx.violation("infinite end point differs from a finite end point beyond the data range",
                                  {"fn": fn, "param": p, "fcst": F.values.tolist(), "obs": O.values.tolist(), "config": name, "infinite": [one_i, pos_i], "finite": [one_f, pos_f]},
                                  str(rf[1].values.tolist() if rf[0] == "ok" else rf[1]), str(ri[1].values.tolist() if ri[0] == "ok" else ri[1]))
        ctx.count("replacement_rounds")



def perdim_props(ctx, rounds):
    """per-dimension end-point arrays MIXING finite and infinite end points (own storage order): every slice must get the value of the
    five scores for its own end points -- the exact oracle with each infinite end point replaced by a finite one far beyond the data --
    whatever the other slices' end points are"""
    rng = ctx.rng
    for _ in range(rounds):
        if not ctx.time_left():
            break
        n = rng.randint(2, 4)
        fv = [Fr(rng.randint(-8, 8), 2) for _ in range(n)]
        ov = [fv[i] if rng.random() < 0.15 else Fr(rng.randint(-8, 8), 2) for i in range(n)]
        trap = rng.random() < 0.6
        b, c, a, d = [], [], [], []
        for i in range(n):
            lo = Fr(rng.randint(-8, 2), 2)
            hi = lo + Fr(rng.randint(1, 6), 2)
            b.append(None if rng.random() < 0.35 else lo)
            c.append(None if rng.random() < 0.45 else hi)
            a.append(None if b[i] is None else lo - Fr(rng.randint(1, 3), 2))
            d.append(None if c[i] is None else hi + Fr(rng.randint(1, 3), 2))
        # one side given as ONE Python scalar (infinite, or finite beyond the other side's values) next to the per-dimension array of the other side
        scalar_side = rng.choice([None, None, "lo", "hi"])
        sval = None if rng.random() < 0.6 else (Fr(rng.randint(-12, -8), 2) if scalar_side == "lo" else Fr(rng.randint(9, 12), 2))
        if scalar_side == "lo":
            b, a = [sval] * n, [None if sval is None else sval - 1] * n
        elif scalar_side == "hi":
            c, d = [sval] * n, [None if sval is None else sval + 1] * n
        elif all(x is None for x in c) or all(x is not None for x in c):     # make the right end points mixed
            c[0], d[0] = None, None
            hi = Fr(rng.randint(-6, 0), 2)
            c[1], d[1] = max(hi, (b[1] if b[1] is not None else hi - 1) + Fr(1, 2)), None
            d[1] = c[1] + 1
        perm = {k: rng.sample(range(n), n) for k in "fobcad"}

        def arr(vals, key, lo_inf):
            inf = -INF if lo_inf else INF
            return xr.DataArray([inf if vals[i] is None else float(vals[i]) for i in perm[key]], dims=["x"], coords={"x": perm[key]})
        F = xr.DataArray([float(fv[i]) for i in perm["f"]], dims=["x"], coords={"x": perm["f"]})
        O = xr.DataArray([float(ov[i]) for i in perm["o"]], dims=["x"], coords={"x": perm["o"]})
        one = (arr(b, "b", True), arr(c, "c", False))
        pos = (arr(a, "a", True), arr(d, "d", False)) if trap else None
        if scalar_side is not None:
            sc = lambda da: (lambda x: int(x) if (float(x).is_integer() and rng.random() < 0.3) else x)(float(da.values[0]))      # noqa: E731
            one = (sc(one[0]), one[1]) if scalar_side == "lo" else (one[0], sc(one[1]))
            if trap:
                pos = (sc(pos[0]), pos[1]) if scalar_side == "lo" else (pos[0], sc(pos[1]))
            ctx.count("perdim:scalar-and-array")
        alpha, hub = rng.choice(ALPHAS), rng.choice(HUBERS)
        far_lo, far_hi = min(fv + ov) - 50, max(fv + ov) + 50
        for k, fn in enumerate(FNS):
            p = {"tw_quantile_score": alpha, "tw_expectile_score": alpha, "tw_huber_loss": hub}.get(fn)
            st, v = call_tw(fn, F, O, p, one, pos, pd="all")
            case = {"fn": fn, "param": p, "fcst": fv, "obs": ov, "interval_where_one": [["-inf" if x is None else x for x in b], ["inf" if x is None else x for x in c]],
                    "interval_where_positive": None if not trap else [["-inf" if x is None else x for x in a], ["inf" if x is None else x for x in d]],
                    "storage_order": perm, "given_as_one_python_scalar": {"lo": "left end point(s)", "hi": "right end point(s)"}.get(scalar_side)}
            ctx.case(("perdim", fn, repr(case)))
            if st != "ok":
                ctx.violation("tw_* raised on valid per-dimension end points", case, "values", v)
                continue
            got = v.sortby("x").values
            for i in range(n):
                bb = far_lo - 1 if b[i] is None else b[i]
                cc = far_hi + 1 if c[i] is None else c[i]
                ends = (bb, cc) if not trap else ((far_lo - 2 if a[i] is None else a[i]), bb, cc, (far_hi + 2 if d[i] is None else d[i]))
                want = orc_tw(ends, alpha, hub, fv[i], ov[i])[k]
                if not core.close(float(got[i]), want):
                    ctx.violation("tw_* with per-dimension end points mixing finite and infinite values differs from the score for the slice's own end points",
                                  dict(case, slice=i), want, float(got[i]))
                    break
        ctx.count("perdim_rounds")



def means_props(ctx, rounds):
    """reductions: the reduced score is the mean over the valid (fcst and obs present) cases of weight x pointwise score, paired by label
    (fcst, obs, weights in independent storage orders, NaN, exact hits fcst == obs), against the exact oracle"""
    rng = ctx.rng
    for _ in range(rounds):
        if not ctx.time_left():
            break
        na, nb = rng.randint(1, 3), rng.randint(1, 3)
        fv = [[None if rng.random() < 0.15 else Fr(rng.randint(-8, 8), 2) for _ in range(nb)] for _ in range(na)]
        full = rng.random() < 0.5
        ovf = [[None if rng.random() < 0.15 else (fv[i][l] if rng.random() < 0.2 else Fr(rng.randint(-8, 8), 2)) for l in range(nb)] for i in range(na)]
        if not full:
            ovf = [list(ovf[0]) for _ in range(na)]
        wv = [Fr(rng.randint(0, 6), 2) for _ in range(nb)] if rng.random() < 0.4 else None
        pa, pb, pao, pbo, pbw = (rng.sample(range(na), na), rng.sample(range(nb), nb), rng.sample(range(na), na), rng.sample(range(nb), nb), rng.sample(range(nb), nb))
        fl = lambda v: NAN if v is None else float(v)      # noqa: E731
        F = xr.DataArray([[fl(fv[i][l]) for l in pb] for i in pa], dims=["a", "b"], coords={"a": pa, "b": pb})
        if full:
            O = xr.DataArray([[fl(ovf[i][l]) for l in pbo] for i in pao], dims=["a", "b"], coords={"a": pao, "b": pbo})
        else:
            O = xr.DataArray([fl(ovf[0][l]) for l in pbo], dims=["b"], coords={"b": pbo})
        W = None if wv is None else xr.DataArray([float(wv[l]) for l in pbw], dims=["b"], coords={"b": pbw})
        lo = Fr(rng.randint(-6, 2), 2)
        hi = lo + Fr(rng.randint(1, 8), 2)
        inf_l, inf_r, trap = rng.random() < 0.3, rng.random() < 0.3, rng.random() < 0.5
        one = (-INF if inf_l else float(lo), INF if inf_r else float(hi))
        pos = ((-INF if inf_l else float(lo - 1), INF if inf_r else float(hi + Fr(3, 2))) if trap else None)
        vals = [v for row in fv for v in row if v is not None] + [v for row in ovf for v in row if v is not None]
        far_lo, far_hi = (min(vals) if vals else Fr(0)) - 50, (max(vals) if vals else Fr(0)) + 50
        bb, cc = (far_lo if inf_l else lo), (far_hi if inf_r else hi)
        ends = (bb, cc) if not trap else ((far_lo - 1 if inf_l else lo - 1), bb, cc, (far_hi + 1 if inf_r else hi + Fr(3, 2)))
        alpha, hub = rng.choice(ALPHAS), rng.choice(HUBERS)
        red = rng.choice([None, ["a"], ["b"], ["a", "b"]])
        rset = {"a", "b"} if red is None else set(red)
        keep = [d for d in ("a", "b") if d not in rset]
        for k, fn in enumerate(FNS):
            p = {"tw_quantile_score": alpha, "tw_expectile_score": alpha, "tw_huber_loss": hub}.get(fn)
            st, v = call_tw(fn, F, O, p, one, pos, rd=red, w=W)
            case = {"fn": fn, "param": p, "fcst[a][b]": fv, "obs[a][b]": ovf, "weights[b]": wv, "interval_where_one": one, "interval_where_positive": pos,
                    "reduce_dims": red, "storage_order": {"fcst": [pa, pb], "obs": [pao if full else None, pbo], "weights": pbw}}
            ctx.case(("means", fn, repr(case)))
            if st != "ok":
                ctx.violation("tw_* raised on valid input", case, "values", v)
                continue
            da = v
            if set(da.dims) != set(keep):
                ctx.violation("tw_*: dimensions of the result are not the preserved dimensions (a dimension was left un-averaged / dropped)", case, keep, list(da.dims))
                break
            for dname in keep:
                da = da.sortby(dname)
            got = da.transpose(*keep).values
            cell = {}
            for i in range(na):
                for l in range(nb):
                    key = tuple(x for x, dname in ((i, "a"), (l, "b")) if dname not in rset)
                    cell.setdefault(key, [])
                    if fv[i][l] is not None and ovf[i][l] is not None:
                        cell[key].append((1 if wv is None else wv[l]) * orc_tw(ends, alpha, hub, fv[i][l], ovf[i][l])[k])
            bad = False
            for key, vs in cell.items():
                want = sum(vs) / len(vs) if vs else NAN
                if not core.close(float(got[key]), want):
                    ctx.violation("reduced tw_* differs from the mean over the valid cases of weight x pointwise score", dict(case, cell=key), want, float(got[key]))
                    bad = True
                    break
            if bad:
                break
        ctx.count("means_rounds")



def int_dtype_props(ctx, rounds):
    """integer storage dtypes (uint8 / uint16 / int64; minimum 0 and maximum 255 included) for fcst or obs, the other float64, int64 or ALSO a
    narrow integer type (two unsigned arrays, two int8 arrays: the difference of the stored values does not fit the storage dtype); rectangular and
    trapezoidal weights with finite, -inf / +inf, scalar and per-dimension end points: the scores are those of the same VALUES in float64
    (exact oracle).  The stand-ins for infinite end points must not be computed in the storage dtype (0 - 1 wraps for unsigned data)."""
    rng = ctx.rng
    for _ in range(rounds):
        if not ctx.time_left():
            break
        n = rng.randint(1, 4)
        dt = rng.choice(["uint8", "uint8", "uint16", "int64"])
        big = rng.random() < 0.3
        hi_v = {"uint8": 255, "uint16": 300, "int64": 40}[dt] if big else 12
        iv = [rng.randint(0 if dt != "int64" else -6, hi_v) for _ in range(n)]
        if rng.random() < 0.6:
            iv[rng.randrange(n)] = 0
        if big and dt == "uint8" and rng.random() < 0.5:
            iv[rng.randrange(n)] = 255
        other_int = rng.random() < 0.25
        xv = [Fr(rng.randint(-4, 24), 1) if other_int else Fr(rng.randint(-8, 48), 2) for _ in range(n)]
        int_is_obs = rng.random() < 0.6
        # BOTH operands in a narrow integer storage dtype whose difference does not fit (two unsigned types of any widths: 3 - 5 wraps;
        # two int8 arrays: 100 - (-100) overflows): the scores are still those of the VALUES
        both = rng.random() < 0.35
        odt = "int64"
        if both:
            if rng.random() < 0.2:
                dt = odt = "int8"
                iv = [rng.randint(-128, 127) if big else rng.randint(-12, 12) for _ in range(n)]
                xv = [Fr(rng.randint(-128, 127) if big else rng.randint(-12, 12)) for _ in range(n)]
            else:
                if dt == "int64":
                    dt = "uint8"
                    iv = [max(0, v) for v in iv]
                odt = rng.choice(["uint8", "uint16", "uint32"])
                xv = [Fr(rng.randint(0, 255 if big else 24)) for _ in range(n)]
            if rng.random() < 0.4:
                q = rng.randrange(n)
                if np.iinfo(odt).min <= iv[q] <= np.iinfo(odt).max:
                    xv[q] = Fr(iv[q])            # exact hits
            other_int = True
            ctx.count("int_dtype:both-narrow")
        I = xr.DataArray(np.array(iv, dtype=dt), dims=["x"])
        X = xr.DataArray(np.array([int(v) for v in xv], dtype=odt) if other_int else [float(v) for v in xv], dims=["x"])
        F, O = (X, I) if int_is_obs else (I, X)
        fv, ov = ([Fr(v) for v in xv], [Fr(v) for v in iv]) if int_is_obs else ([Fr(v) for v in iv], [Fr(v) for v in xv])
        trap = rng.random() < 0.6
        inf_l, inf_r = rng.random() < 0.5, rng.random() < 0.4
        lo = Fr(rng.randint(-4, 10), 2)
        hi = lo + Fr(rng.randint(1, 30), 2)
        allv = fv + ov
        far_lo, far_hi = min(allv) - 50, max(allv) + 50
        bb, cc = (far_lo if inf_l else lo), (far_hi if inf_r else hi)
        ends = (bb, cc) if not trap else ((far_lo - 1 if inf_l else lo - 1), bb, cc, (far_hi + 1 if inf_r else hi + Fr(3, 2)))
        arrays = rng.random() < 0.4

        def ep(v):
            return xr.DataArray([v] * n, dims=["x"]) if arrays else v
        one = (ep(-INF if inf_l else float(lo)), ep(INF if inf_r else float(hi)))
        pos = (ep(-INF if inf_l else float(lo - 1)), ep(INF if inf_r else float(hi + Fr(3, 2)))) if trap else None
        alpha, hub = rng.choice(ALPHAS), rng.choice(HUBERS)
        ctx.count("int_dtype:" + dt + (":trap" if trap else ":rect"))
        for k, fn in enumerate(FNS):
            p = {"tw_quantile_score": alpha, "tw_expectile_score": alpha, "tw_huber_loss": hub}.get(fn)
            st, v = call_tw(fn, F, O, p, one, pos, pd="all")
            case = {"fn": fn, "param": p, "fcst": [str(x) for x in fv], "fcst_dtype": str(F.dtype), "obs": [str(x) for x in ov], "obs_dtype": str(O.dtype),
                    "interval_where_one": ["-inf" if inf_l else lo, "inf" if inf_r else hi],
                    "interval_where_positive": None if not trap else ["-inf" if inf_l else lo - 1, "inf" if inf_r else hi + Fr(3, 2)], "end_points_as": "arrays" if arrays else "scalars"}
            ctx.case(("intdtype", fn, repr(case)))
            want = [orc_tw(ends, alpha, hub, fv[i], ov[i])[k] for i in range(n)]
            got = None if st != "ok" else [float(x) for x in np.asarray(v.values, dtype=float).ravel()]
            if got is None or not all(core.close(g, w) for g, w in zip(got, want)):
                ctx.violation("tw_* on integer-typed data differs from the score of the same values in float64", case, [str(w) for w in want],
                              got if got is not None else v,
                              finding_key=KEY_INT_DIFF if (both and got is not None and fn in ("tw_squared_error", "tw_expectile_score", "tw_huber_loss")) else None)
                break
        if both or rng.random() < 0.3:
            # the public consistent_* functions on the same integer-typed data with textbook callables: g(x) = x, phi(x) = x^2, phi'(x) = 2x
            # (pinball loss, asymmetric squared error, Huber loss of the VALUES); the callables themselves work in floating point, so the
            # only arithmetic in the storage dtype is the library's own
            C = S()
            ctx.count("int_dtype:consistent")
            sq, two = (lambda x: (1.0 * x) ** 2), (lambda x: 2.0 * x)
            calls = [("consistent_quantile_score", (float(alpha), lambda x: x), [orc_losses(alpha, hub, fv[i], ov[i])[2] for i in range(n)]),
                     ("consistent_expectile_score", (float(alpha), sq, two), [orc_losses(alpha, hub, fv[i], ov[i])[3] for i in range(n)]),
                     ("consistent_huber_score", (float(hub), sq, two), [orc_losses(alpha, hub, fv[i], ov[i])[4] for i in range(n)])]
            for cname, args, want in calls:
                st, v = core.call_impl(getattr(C, cname), F, O, *args, preserve_dims="all")
                case = {"fn": cname, "alpha": alpha, "huber_param": hub, "g / phi / phi'": "x / (1.0 x)^2 / 2.0 x", "fcst": [str(x) for x in fv], "fcst_dtype": str(F.dtype),
                        "obs": [str(x) for x in ov], "obs_dtype": str(O.dtype)}
                ctx.case(("intdtype-consistent", repr(case)))
                got = None if st != "ok" else [float(x) for x in np.asarray(v.values, dtype=float).ravel()]
                if got is None or not all(core.close(g, w) for g, w in zip(got, want)):
                    ctx.violation(cname + " on integer-typed data differs from the score of the same values in float64 (and may be negative)", case,
                                  [str(w) for w in want], got if got is not None else v,
                                  finding_key=KEY_INT_DIFF if (F.dtype.kind in "iu" and O.dtype.kind in "iu" and got is not None) else None)
                    break
        ctx.count("int_dtype_rounds")



def int_dtype_corpus(ctx):
    """repaired defect ff792f5: trapezoidal weights on unsigned / narrow integer data (stand-ins for infinite end points and 2*x**2 were
    computed in the storage dtype)"""
    C = S()
    f = xr.DataArray([1.0, 3.0, 2.0], dims=["x"])
    cases = [("uint8", [0, 2, 5], (-INF, 4.0), (-INF, 6.0)), ("uint16", [0, 2, 5], (-INF, 4.0), (-INF, 6.0)), ("uint8", [255, 2, 0], (1.0, INF), (0.0, INF)),
             ("uint8", [20, 3, 0], (1.0, 30.0), (0.0, 31.0)), ("uint8", [0, 2, 5], (xr.DataArray([-INF] * 3, dims=["x"]), xr.DataArray([4.0] * 3, dims=["x"])),
                                                                  (xr.DataArray([-INF] * 3, dims=["x"]), xr.DataArray([6.0] * 3, dims=["x"])))]
    for dt, vals, one, pos in cases:
        o = xr.DataArray(np.array(vals, dtype=dt), dims=["x"])
        for name, args in (("tw_squared_error", ()), ("tw_absolute_error", ()), ("tw_quantile_score", (0.25,)), ("tw_expectile_score", (0.25,)), ("tw_huber_loss", (1.0,))):
            fn = getattr(C, name)
            for ff, oo in ((f, o), (o, f)):
                want = core.call_impl(fn, ff.astype(float), oo.astype(float), *args, one, interval_where_positive=pos, preserve_dims="all")
                got = core.call_impl(fn, ff, oo, *args, one, interval_where_positive=pos, preserve_dims="all")
                ctx.case(("int-dtype-corpus", dt, repr(vals), name, ff is f))
                ctx.count("int_dtype_corpus")
                if not (want[0] == got[0] == "ok" and np.allclose(want[1].values, got[1].values, rtol=1e-12, atol=1e-12)):
                    ctx.violation(f"{name} (trapezoidal) depends on the integer storage dtype of the data (regression of ff792f5)",
                                  {"fn": name, "dtype": dt, "values": vals, "integer_operand": "obs" if ff is f else "fcst", "other": f.values.tolist(),
                                   "interval_where_one": [gens.da_repr(e) for e in one], "interval_where_positive": [gens.da_repr(e) for e in pos]},
                                  str(want[1].values.tolist() if want[0] == "ok" else want[1]), str(got[1].values.tolist() if got[0] == "ok" else got[1]))



# magnitude classes of real data for the near-tie stream: (name, low, high) of |obs|; the forecast error is drawn RELATIVE to it
MAGNITUDES = [("kelvin", 200.0, 330.0), ("pascal", 9.0e4, 1.1e5), ("geopotential_m", 4.0e3, 6.0e4), ("epoch_s", 1.5e9, 1.8e9),
              ("order_one", 0.1, 10.0), ("tiny", 1e-9, 1e-3), ("zero", 0.0, 0.0)]
EPS64 = 2.0 ** -52


def near_tie_props(ctx, rounds):
    """forecast errors that are SMALL COMPARED WITH THE MAGNITUDE OF THE DATA (relative error 1e-11 .. 1e-1 at magnitudes 1e-9 .. 1e9 of
    either sign, absolute errors 1e-14 .. 1e-8 around 0, exact ties, arbitrary binary64 values instead of the dyadic grid): the five tw_*
    scores and the public consistent_* functions are evaluated against the exact rational oracle AT THE FLOATS GIVEN (Fraction(float) is
    exact), for weight one, finite end points covering the data, an end point cutting the tiny interval between forecast and observation,
    data inside a ramp of the trapezoid, one-sided infinite end points; pointwise and reduced.  The only tolerance beyond 1e-9 relative is
    the rounding of the implementation's own binary64 operations, bounded by a few units in the last place of the largest operand
    (linear family: 16 eps S; quadratic family: 64 eps S^2 with S = largest |value| or |end point| involved): a score for
    fcst != obs that is far above this bound cannot come out as 0 (or as anything but the documented value)."""
    rng = ctx.rng
    C = S()
    T = TW()
    decisive = bad_rounds = 0
    for _ in range(rounds):
        if not ctx.time_left():
            break
        cls, mlo, mhi = rng.choice(MAGNITUDES)
        n = rng.randint(2, 5)
        sign = rng.choice([1.0, 1.0, -1.0])
        ov, fv, kinds = [], [], []
        for i in range(n):
            o = sign * rng.uniform(mlo, mhi)
            kind = rng.choice(["tie", "near", "near", "near", "near", "abs", "far", "far"])
            if cls == "zero" and kind in ("near", "far"):
                kind = "abs" if kind == "near" else "farabs"
            if kind == "tie":
                f = o
            elif kind == "near":
                f = o + rng.choice([-1, 1]) * abs(o) * 10.0 ** -rng.uniform(5.05, 11.0)
            elif kind == "abs":
                f = o + rng.choice([-1, 1]) * 10.0 ** -rng.uniform(8.05, 14.0)
            elif kind == "farabs":
                f = o + rng.choice([-1, 1]) * 10.0 ** -rng.uniform(0.0, 7.0)
            else:
                f = o + rng.choice([-1, 1]) * abs(o) * 10.0 ** -rng.uniform(1.0, 4.9)
            ov.append(o)
            fv.append(f)
            kinds.append(kind if f != o else "tie")
        nan_at = rng.randrange(n) if rng.random() < 0.12 else None
        nan_in_f = rng.random() < 0.5
        allv = fv + ov
        lo_d, hi_d = min(allv), max(allv)
        scale = max(abs(lo_d), abs(hi_d), 1e-6)
        pad = rng.choice([1.0, 0.01 * scale, 3.0 * scale, 0.5])
        pad2 = rng.choice([1.0, 0.02 * scale, 2.0 * scale])
        j = rng.randrange(n)
        mid = fv[j] + (ov[j] - fv[j]) * rng.choice([0.25, 0.5, 0.75])        # an end point inside the tiny interval (or on the tie)
        configs = {
            "weight one": ((-INF, INF), None),
            "weight one (trapezoid)": ((-INF, INF), (-INF, INF)),
            "rect covering the data": ((lo_d - pad, hi_d + pad), None),
            "trap plateau covering the data": ((lo_d - pad, hi_d + pad), (lo_d - pad - pad2, hi_d + pad + pad2)),
            "rect cut below": ((mid, hi_d + pad), None),
            "rect cut above": ((lo_d - pad, mid), None),
            "rect cut, half-line": rng.choice([((mid, INF), None), ((-INF, mid), None)]),
            "trap cut": ((mid, hi_d + pad), (mid - pad2, hi_d + pad + pad2)),
            "data inside the left ramp": ((hi_d + pad, hi_d + pad + pad2), (lo_d - pad, hi_d + 2 * pad + pad2)),
            "data inside the right ramp": ((lo_d - 2 * pad - pad2, lo_d - pad), (lo_d - 3 * pad - 2 * pad2, hi_d + pad)),
            "half-line below": ((-INF, hi_d + pad), rng.choice([None, (-INF, hi_d + pad + pad2)])),
            "half-line above": ((lo_d - pad, INF), rng.choice([None, (lo_d - pad - pad2, INF)])),
        }
        picked = ["weight one", rng.choice(sorted(set(configs) - {"weight one"}))]
        perm_f = rng.sample(range(n), n)
        perm_o = rng.sample(range(n), n) if rng.random() < 0.3 else perm_f     # (re-ordering by label is the expensive part of a call)
        fa = [NAN if (nan_at == i and nan_in_f) else fv[i] for i in range(n)]
        oa = [NAN if (nan_at == i and not nan_in_f) else ov[i] for i in range(n)]
        F = xr.DataArray([fa[i] for i in perm_f], dims=["x"], coords={"x": perm_f})
        O = xr.DataArray([oa[i] for i in perm_o], dims=["x"], coords={"x": perm_o})
        valid = [i for i in range(n) if i != nan_at]
        d0 = abs(Fr(fv[j]) - Fr(ov[j]))
        alpha = rng.choice(ALPHAS)
        hub = rng.choice(HUBERS + [None, None])
        if hub is None:                     # Huber parameter of the size of the forecast error: both branches of the loss near a tie
            hub = Fr(float(d0) * rng.choice([0.5, 2.0])) if d0 > 0 else Fr(1)
        ctx.count("near_tie:" + cls)
        far_lo, far_hi = Fr(lo_d) - 50, Fr(hi_d) + 50

        def judge(what, case, got, wants, quad, s):
            """got: floats per label; wants: exact values; the rounding allowance of the implementation's own operations"""
            nonlocal decisive
            allow = (64 * EPS64 * s * s) if quad else (16 * EPS64 * s)
            for i in range(n):
                if i == nan_at:
                    ok = np.isnan(got[i])
                    w = NAN
                else:
                    w = wants[i]
                    ok = np.isfinite(got[i]) and abs(Fr(float(got[i])) - w) <= Fr(1, 10 ** 9) * abs(w) + Fr(allow)
                    if w > 1000 * Fr(allow):
                        decisive += 1
                    if ok:
                        used = float(abs(Fr(float(got[i])) - w) / (Fr(1, 10 ** 9) * abs(w) + Fr(allow)))
                        ctx.dist["near_tie_max_fraction_of_allowance_used"] = round(max(ctx.dist.get("near_tie_max_fraction_of_allowance_used", 0.0), used), 4)
                if not ok:
                    ctx.violation(what, dict(case, label=i, fcst_minus_obs=float(Fr(fv[i]) - Fr(ov[i])), rounding_allowance=allow),
                                  "nan" if i == nan_at else float(w), float(got[i]))
                    return False
            return True

        base = {"fcst": fa, "obs": oa, "magnitude_class": cls, "storage_order": {"fcst": perm_f, "obs": perm_o}}
        stop = False
        for name in picked:
            one, pos = configs[name]
            fin = [abs(e) for e in one + (pos or ()) if abs(e) != INF]
            s = max([abs(v) for v in allv] + fin) + 1.0
            bb = far_lo if one[0] == -INF else Fr(one[0])
            cc = far_hi if one[1] == INF else Fr(one[1])
            if pos is None:
                ends = (bb, cc)
            else:
                ends = ((far_lo - 1 if pos[0] == -INF else Fr(pos[0])), bb, cc, (far_hi + 1 if pos[1] == INF else Fr(pos[1])))
            if not all(x < y for x, y in zip(ends, ends[1:])):
                continue                                             # degenerate after rounding (pad below one ulp): not a valid weight
            wants = {i: orc_tw(ends, alpha, hub, Fr(fv[i]), Fr(ov[i])) for i in valid}
            # the two scores linear in the forecast error (decisive down to relative errors of 1e-11) and one of the three quadratic ones
            fns = ["tw_absolute_error", "tw_quantile_score", rng.choice(["tw_squared_error", "tw_expectile_score", "tw_huber_loss"])]
            kmean = FNS.index(rng.choice(fns))
            for k, fn in enumerate(FNS):
                if fn not in fns:
                    continue
                p = {"tw_quantile_score": alpha, "tw_expectile_score": alpha, "tw_huber_loss": hub}.get(fn)
                case = dict(base, fn=fn, param=p if p is None or fn != "tw_huber_loss" else float(p), config=name, interval_where_one=one, interval_where_positive=pos)
                st, v = call_tw(fn, F, O, p, one, pos, pd="all")
                ctx.case(("neartie", fn, repr(case)))
                if st != "ok":
                    ctx.violation("tw_* raised on valid input", case, "values", v)
                    stop = True
                    break
                got = v.sortby("x").values
                quad = fn in ("tw_squared_error", "tw_expectile_score", "tw_huber_loss")
                if not judge("tw_* of a forecast close to (not equal to) the observation differs from the documented value (exact oracle at the given floats)",
                             case, got, {i: wants[i][k] for i in valid}, quad, s):
                    stop = True
                    break
                if name == "weight one" and k == kmean:
                    st2, v2 = call_tw(fn, F, O, p, one, pos)
                    want = sum(wants[i][k] for i in valid) / len(valid)
                    allow = (64 * EPS64 * s * s) if quad else (16 * EPS64 * s)
                    if st2 != "ok" or abs(Fr(float(v2)) - want) > Fr(1, 10 ** 9) * abs(want) + Fr(allow):
                        ctx.violation("mean tw_* over forecasts close to the observations differs from the mean of the documented values", dict(case, reduce_dims=None),
                                      float(want), float(v2) if st2 == "ok" else v2)
                        stop = True
                        break
            if stop:
                break
        if stop:
            bad_rounds += 1
            if bad_rounds >= 3:
                break
            continue
        # the public consistent_* functions with textbook callables: pinball / asymmetric squared error / Huber loss at the same data
        s = max(abs(v) for v in allv) + 1.0
        glin = rng.choice([1.0, 3.0, 0.5])
        gb, gc = lo_d - pad, hi_d + pad
        g_choices = {"identity": (lambda x: x, lambda q: q, s), "linear": (lambda x: glin * x, lambda q: Fr(glin) * q, 3 * s),
                     "rect weight antiderivative": (functools.partial(T._g_j_rect, gb, gc), lambda q: orc_g((Fr(gb), Fr(gc)), q), s + abs(gb) + abs(gc))}
        gname = rng.choice(sorted(g_choices))
        gpy, gq, gs = g_choices[gname]
        pk = rng.choice([1.0, 2.0, 0.5])
        calls = [("consistent_quantile_score", (float(alpha), gpy), False, gs,
                  lambda f, o: ((1 - alpha) * (gq(f) - gq(o)) if o < f else alpha * (gq(o) - gq(f))), {"g": gname, "alpha": alpha}),
                 ("consistent_expectile_score", (float(alpha), lambda x: pk * x ** 2, lambda x: 2 * pk * x), True, s * max(1.0, pk) ** 0.5,
                  lambda f, o: ((1 - alpha) if o < f else alpha) * Fr(pk) * (f - o) ** 2, {"phi": f"{pk} x^2", "alpha": alpha}),
                 ("consistent_huber_score", (float(hub), lambda x: pk * x ** 2, lambda x: 2 * pk * x), True, s * max(1.0, pk) ** 0.5,
                  lambda f, o: Fr(pk) * orc_losses(alpha, hub, f, o)[4], {"phi": f"{pk} x^2", "huber_param": float(hub)})]
        for fn, args, quad, sc, orc, extra in [calls[0], rng.choice(calls[1:])]:
            st, v = core.call_impl(getattr(C, fn), F, O, *args, preserve_dims="all")
            case = dict(base, fn=fn, **extra)
            ctx.case(("neartie", fn, repr(case)))
            if st != "ok":
                ctx.violation("consistent_* raised on valid input", case, "values", v)
                bad_rounds += 1
                break
            if not judge(f"{fn} of a forecast close to (not equal to) the observation differs from the documented scoring function (exact oracle at the given floats)",
                         case, v.sortby("x").values, {i: orc(Fr(fv[i]), Fr(ov[i])) for i in valid}, quad, sc):
                bad_rounds += 1
                break
        if bad_rounds >= 3:
            break
        ctx.count("near_tie_rounds")
    ctx.count("near_tie_decisive_points", decisive)


def same_scalar(want, got):
    """both calls returned, both results are 0-d (every dimension averaged out), and they agree"""
    return (want[0] == got[0] == "ok" and np.ndim(want[1]) == 0 and np.ndim(got[1]) == 0
            and (abs(float(want[1]) - float(got[1])) < 1e-12 or (np.isnan(float(want[1])) and np.isnan(float(got[1])))))


def coord_order_finding(ctx):
    """corpus of repaired defects (5f9b684, 471de49, aeac0ee, 7c177ef): results must not depend on the storage order of a shared coordinate, and
    an end-point pair may mix arrays and Python scalars; a regression is a violation"""
    C = S()
    f = xr.DataArray([1.0, 2.0, 3.0], dims=["b"], coords={"b": [2, 0, 1]})
    o = xr.DataArray([1.0, 0.5, 3.0], dims=["b"], coords={"b": [0, 1, 2]})
    o_same = o.sel(b=f.b)
    # fcst / obs in different order: repaired in /repo by 5f9b684 (consistent_quantile_score); a regression is a violation
    calls = [("consistent_quantile_score", lambda ob: C.consistent_quantile_score(f, ob, 0.25, lambda x: x)),
             ("tw_quantile_score", lambda ob: C.tw_quantile_score(f, ob, 0.25, (0, 2))),
             ("tw_absolute_error", lambda ob: C.tw_absolute_error(f, ob, (0, 2))),
             ("consistent_expectile_score", lambda ob: C.consistent_expectile_score(f, ob, 0.25, lambda x: x ** 2, lambda x: 2 * x)),
             ("consistent_huber_score", lambda ob: C.consistent_huber_score(f, ob, 1.0, lambda x: x ** 2, lambda x: 2 * x)),
             ("tw_squared_error", lambda ob: C.tw_squared_error(f, ob, (0, 2))),
             ("tw_expectile_score", lambda ob: C.tw_expectile_score(f, ob, 0.25, (0, 2))),
             ("tw_huber_loss", lambda ob: C.tw_huber_loss(f, ob, 1.0, (0, 2)))]
    for name, call in calls:
        want = core.call_impl(call, o_same)
        got = core.call_impl(call, o)
        ctx.case(("coord-order", name))
        ctx.count("coord_order_corpus")
        same = same_scalar(want, got)
        if not same:
            ctx.violation(f"{name} depends on the storage order of a coordinate shared by fcst and obs",
                          {"fn": name, "fcst": gens.da_repr(f), "obs": gens.da_repr(o)}, str(want[1]), str(got[1]))
    # per-dimension end-point arrays stored in another order than fcst / obs (471de49)
    A = xr.DataArray([0.0, -1.0, 1.0], dims=["b"], coords={"b": [1, 2, 0]})
    B = A + 2
    A0, B0 = A.sel(b=f.b), B.sel(b=f.b)
    for name, args in (("tw_quantile_score", (0.25,)), ("tw_squared_error", ()), ("tw_absolute_error", ()), ("tw_expectile_score", (0.25,)), ("tw_huber_loss", (1.0,))):
        fn = getattr(C, name)
        for pos in (False, True):
            kw0 = {"interval_where_positive": (A0 - 1, B0 + 1)} if pos else {}
            kw1 = {"interval_where_positive": (A - 1, B + 1)} if pos else {}
            want = core.call_impl(fn, f, o_same, *args, (A0, B0), **kw0)
            got = core.call_impl(fn, f, o_same, *args, (A, B), **kw1)
            ctx.case(("endpoint-order", name, pos))
            same = same_scalar(want, got)
            if not same:
                ctx.violation(f"{name} depends on the storage order of the coordinate of a per-dimension end-point array",
                              {"fn": name, "fcst": gens.da_repr(f), "obs": gens.da_repr(o_same), "interval_where_one": [gens.da_repr(A), gens.da_repr(B)], "trapezoidal": pos},
                              str(want[1]), str(got[1]))
    # the shared dimension is missing from obs (or fcst) and the end points are stored in another order (aeac0ee)
    f1 = xr.DataArray([-1.5, 1.0, -3.5], dims=["d"], coords={"d": [1, 0, 2]})
    o1 = xr.DataArray(2.5)
    A1 = xr.DataArray([-3.5, 1.0, 0.0], dims=["d"], coords={"d": [0, 1, 2]})
    B1 = xr.DataArray([3.5, -2.5, 3.0], dims=["d"], coords={"d": [1, 0, 2]})
    for name, args in (("tw_quantile_score", (0.25,)), ("tw_squared_error", ()), ("tw_absolute_error", ()), ("tw_expectile_score", (0.25,)), ("tw_huber_loss", (1.0,))):
        fn = getattr(C, name)
        for ff, oo in ((f1, o1), (o1, f1)):
            want = core.call_impl(fn, ff, oo, *args, (A1.sel(d=f1.d), B1.sel(d=f1.d)))
            got = core.call_impl(fn, ff, oo, *args, (A1, B1))
            ctx.case(("endpoint-order-one-sided", name, ff is f1))
            if not (same_scalar(want, got)):
                ctx.violation(f"{name} depends on the storage order of an end-point array along a dimension only one of fcst / obs has",
                              {"fn": name, "fcst": gens.da_repr(ff), "obs": gens.da_repr(oo), "interval_where_one": [gens.da_repr(A1), gens.da_repr(B1)]},
                              str(want[1]), str(got[1]))
    # (array, scalar) end-point pair
    Z = xr.DataArray([0.0, -1.0], dims=["z"], coords={"z": [0, 1]})
    want = core.call_impl(C.tw_quantile_score, f, o_same, 0.25, (Z, xr.DataArray(2.0)))
    got = core.call_impl(C.tw_quantile_score, f, o_same, 0.25, (Z, 2.0))
    ctx.case(("endpoint-array-scalar",))
    if not (want[0] == got[0] == "ok" and np.allclose(want[1].values, got[1].values)):
        ctx.violation("tw_* with an (array, scalar) end-point pair", {"interval_where_one": "(DataArray over z, 2.0)"}, str(want[1])[:80], str(got[1]))


# ------------------------------------------------------------------------------------------
# +-inf among the data: the integral over theta of weight x elementary score on the extended reals (exact)
# ------------------------------------------------------------------------------------------
def isinf(v):
    return isinstance(v, float) and v in (INF, -INF)


def weight_pieces(ends):
    """the threshold weight as pieces (x0, x1, c0, c1): w(t) = c0 + c1 * t on [x0, x1); end points may be +-inf (plateau only)"""
    if len(ends) == 2:
        return [(ends[0], ends[1], Fr(1), Fr(0))]
    a, b, c, d = ends
    out = []
    if not isinf(b):
        out.append((a, b, -a / (b - a), 1 / (b - a)))
    out.append((b, c, Fr(1), Fr(0)))
    if not isinf(c):
        out.append((c, d, d / (d - c), -1 / (d - c)))
    return out


def integ(ends, u, v, kernel):
    """int_u^v w(t) k(t) dt in [0, +inf] for a piecewise linear k >= 0 given as pieces (y0, y1, k0, k1): k(t) = k0 + k1 * t on [y0, y1)"""
    tot = Fr(0)
    for (x0, x1, c0, c1) in weight_pieces(ends):
        for (y0, y1, k0, k1) in kernel:
            lo, hi = max(x0, y0, u), min(x1, y1, v)
            if not lo < hi:
                continue
            if isinf(lo) or isinf(hi):          # an unbounded piece: the weight is the constant 1 there
                if k1 != 0 or c0 * k0 > 0:
                    return INF
                continue
            A, B, C = c0 * k0, c0 * k1 + c1 * k0, c1 * k1
            F = lambda t: A * t + B * t * t / 2 + C * t ** 3 / 3      # noqa: E731
            tot += F(hi) - F(lo)
    return tot


def orc_tw_ext(ends, alpha, hub, f, o):
    """the five tw_* values (order of FNS) as the integral over theta of weight(theta) x elementary score, on the extended reals: f, o and
    the end points are Fractions or +-inf; values in [0, +inf].  For finite arguments this is orc_tw (checked on every run)."""
    if f == o:
        return [Fr(0)] * 5
    over = o < f
    u, v = (o, f) if over else (f, o)
    W = integ(ends, u, v, [(-INF, INF, Fr(1), Fr(0))])
    wt = (1 - alpha) if over else alpha
    if isinf(o):        # |theta - obs| = inf on the whole region
        M1 = INF if W > 0 else Fr(0)
        H = INF if isinf(W) else hub * W
    else:
        M1 = integ(ends, u, v, [(-INF, o, o, Fr(-1)), (o, INF, -o, Fr(1))])
        H = integ(ends, u, v, [(-INF, o - hub, hub, Fr(0)), (o - hub, o, o, Fr(-1)), (o, o + hub, -o, Fr(1)), (o + hub, INF, hub, Fr(0))])
    mul = lambda k, x: INF if isinf(x) else k * x      # noqa: E731
    return [mul(2, M1), W, mul(wt, W), mul(2 * wt, M1), H]


def closed_form_defined(k, ends, f, o, neg_inf_datum):
    """the classes of infinite data on which the documented closed formulas (Table B1 rows inside the consistent scoring functions),
    evaluated by IEEE rules, are defined (no inf - inf): there the implementation must return the integral; elsewhere it may return NaN,
    but never another number.  k = index into FNS; neg_inf_datum: some fcst / obs of the call is -inf."""
    left_inf, right_inf = isinf(ends[0]), isinf(ends[-1])
    if left_inf and neg_inf_datum:
        return False        # the stand-in for the -inf end point is taken below the data: -inf (reported, docs/C10.md)
    if k in (1, 2):         # tw_absolute_error, tw_quantile_score: weight x |g(fcst) - g(obs)|, g(+inf) = inf only for a +inf end point
        return not (right_inf and f == INF and o == INF)
    if k == 4:              # tw_huber_loss: phi(obs) is inf for obs = +inf
        if left_inf:
            return f == INF and not isinf(o)
        return not isinf(o) or (o == -INF and f != -INF)
    return False            # tw_squared_error, tw_expectile_score: phi(x) - phi'(x) x is inf - inf for infinite data


def infinite_data_props(ctx, rounds):
    """+-inf among the forecasts / observations (valid data: the integral over theta of weight x elementary score is a value in
    [0, +inf]): every value the five tw_* return for such a case is either that integral or NaN (the closed formulas of Table B1 are
    inf - inf there), never another number; on the classes where the closed formulas are defined by IEEE rules (closed_form_defined) it is
    the integral; the finite cases of the same call are unaffected; consistent_quantile_score with g(x) = x gives the pinball loss."""
    rng = ctx.rng
    C = S()
    for _ in range(rounds):
        if not ctx.time_left():
            break
        n = rng.randint(1, 4)
        val = lambda: rng.choice([INF, -INF]) if rng.random() < 0.3 else Fr(rng.randint(-8, 8), 2)      # noqa: E731
        fv = [val() for _ in range(n)]
        ov = [fv[i] if rng.random() < 0.1 else val() for i in range(n)]
        if not any(isinf(x) for x in fv + ov):
            (fv if rng.random() < 0.5 else ov)[rng.randrange(n)] = rng.choice([INF, -INF])
        lo = Fr(rng.randint(-6, 2), 2)
        hi = lo + Fr(rng.randint(1, 8), 2)
        r = rng.random()
        inf_l, inf_r = r < 0.2, 0.1 < r < 0.35
        trap = rng.random() < 0.5
        b, c = (-INF if inf_l else lo), (INF if inf_r else hi)
        ends = (b, c) if not trap else ((-INF if inf_l else lo - 1), b, c, (INF if inf_r else hi + Fr(3, 2)))
        one = (float(b), float(c))
        pos = (float(ends[0]), float(ends[3])) if trap else None
        alpha, hub = rng.choice(ALPHAS), rng.choice(HUBERS)
        F = xr.DataArray([float(x) for x in fv], dims=["x"])
        O = xr.DataArray([float(x) for x in ov], dims=["x"])
        neg = any(x == -INF for x in fv + ov)
        # sanity of the oracle itself on the finite cases of this call
        for i in range(n):
            if not isinf(fv[i]) and not isinf(ov[i]) and not any(isinf(e) for e in ends):
                assert orc_tw_ext(ends, alpha, hub, fv[i], ov[i]) == orc_tw(ends, alpha, hub, fv[i], ov[i])
        for k, fn in enumerate(FNS):
            p = {"tw_quantile_score": alpha, "tw_expectile_score": alpha, "tw_huber_loss": hub}.get(fn)
            st, v = call_tw(fn, F, O, p, one, pos, pd="all")
            case = {"fn": fn, "param": p, "fcst": fv, "obs": ov, "interval_where_one": one, "interval_where_positive": pos}
            ctx.case(("infdata", fn, repr(case)))
            if st != "ok":
                ctx.violation("tw_* raised on data containing +-inf", case, "values", v)
                continue
            got = [float(x) for x in np.asarray(v.values, dtype=float).ravel()]
            for i in range(n):
                want = orc_tw_ext(ends, alpha, hub, fv[i], ov[i])[k]
                finite_case = not isinf(fv[i]) and not isinf(ov[i])
                must = (finite_case and not (neg and isinf(ends[0]))) or (not finite_case and closed_form_defined(k, ends, fv[i], ov[i], neg))
                if must:
                    ctx.count("infinite_data:defined")
                if (must or got[i] == got[i]) and not core.close(got[i], want):
                    ctx.violation("tw_* on data containing +-inf differs from the integral over theta of weight x elementary score" if must else
                                  "tw_* on data containing +-inf returns a number that is neither the integral over theta of weight x elementary score nor NaN",
                                  dict(case, case_index=i), want, got[i])
                    break
        # pinball loss through the public consistent_quantile_score (g the identity): weight x |fcst - obs|, +inf for exactly one infinite
        # member of the pair or two of opposite sign
        st, v = core.call_impl(C.consistent_quantile_score, F, O, float(alpha), lambda x: x, preserve_dims="all")
        ctx.count("infinite_data:consistent_quantile")
        if st != "ok":
            ctx.violation("consistent_quantile_score raised on data containing +-inf", {"fcst": fv, "obs": ov, "alpha": alpha}, "values", v)
        else:
            got = [float(x) for x in np.asarray(v.values, dtype=float).ravel()]
            for i in range(n):
                if isinf(fv[i]) and fv[i] == ov[i]:
                    continue        # inf - inf
                want = INF if (isinf(fv[i]) or isinf(ov[i])) else orc_losses(alpha, hub, fv[i], ov[i])[2]
                if not core.close(got[i], want):
                    ctx.violation("consistent_quantile_score (g the identity) on data containing +-inf differs from the pinball loss",
                                  {"fcst": fv, "obs": ov, "alpha": alpha, "case_index": i}, want, got[i])
                    break
        ctx.count("infinite_data_rounds")


# ------------------------------------------------------------------------------------------
def defaults_corpus(ctx):
    """DEFAULTS: every optional argument of the five tw_* (interval_where_positive, reduce_dims, preserve_dims, weights: all None) and of the
    three consistent_* (reduce_dims, preserve_dims, weights) OMITTED gives exactly the call with the documented default written out, and
    the exact oracle of that default: rectangular weight, unweighted mean over every dimension of forecast AND observations (the
    observations carry a dimension t the forecast does not have); the reduction requests naming either dimension; weights given"""
    C = S()
    fv = [Fr(0), Fr(2), Fr(3, 2)]
    ov = [[Fr(1), Fr(2), Fr(-1, 2)], [Fr(3), None, Fr(3, 2)]]
    wv = [Fr(1), Fr(0), Fr(5, 2)]
    F = xr.DataArray([float(v) for v in fv], dims=["b"], coords={"b": [0, 1, 2]})
    O = xr.DataArray([[NAN if v is None else float(v) for v in row] for row in ov], dims=["t", "b"], coords={"t": [0, 1], "b": [0, 1, 2]})
    W = xr.DataArray([float(v) for v in wv], dims=["b"], coords={"b": [0, 1, 2]})
    alpha, hub = Fr(1, 4), Fr(3, 2)
    ends = (Fr(1, 2), Fr(2))
    one = (0.5, 2.0)
    pairs = [(i, l) for i in range(2) for l in range(3) if ov[i][l] is not None]
    sq, two = (lambda x: x ** 2), (lambda x: 2 * x)
    calls = [(fn, ({"tw_quantile_score": (float(alpha),), "tw_expectile_score": (float(alpha),), "tw_huber_loss": (float(hub),)}.get(fn, ()) + (one,)),
              {"interval_where_positive": None}, (lambda f, o, k=k: orc_tw(ends, alpha, hub, f, o)[k])) for k, fn in enumerate(FNS)]
    calls += [("consistent_quantile_score", (float(alpha), lambda x: x), {}, lambda f, o: orc_losses(alpha, hub, f, o)[2]),
              ("consistent_expectile_score", (float(alpha), sq, two), {}, lambda f, o: orc_losses(alpha, hub, f, o)[3]),
              ("consistent_huber_score", (float(hub), sq, two), {}, lambda f, o: orc_losses(alpha, hub, f, o)[4])]
    for name, args, extra, orc in calls:
        f = getattr(C, name)
        case = {"fn": name, "args": [x if not callable(x) else "<x / x^2 / 2x>" for x in args], "fcst[b]": fv, "obs[t][b]": ov}
        pt = {(i, l): orc(fv[l], ov[i][l]) for i, l in pairs}
        r0 = core.call_impl(f, F, O, *args)
        r1 = core.call_impl(f, F, O, *args, reduce_dims=None, preserve_dims=None, weights=None, **extra)
        want = sum(pt.values()) / len(pt)
        ctx.case(("defaults", name))
        ctx.count("defaults_corpus")
        if not (r0[0] == r1[0] == "ok" and r0[1].dims == () and r0[1].identical(r1[1]) and core.close(float(r0[1]), want)):
            ctx.violation(name + " with the optional arguments omitted is not the documented default (None: rectangular weight, unweighted mean over every "
                          "dimension of forecast and observations) / differs from the call with the defaults written out", case, want,
                          {"omitted": str(r0[1])[:160], "written out": str(r1[1])[:160]})
            continue
        # the reduction requests naming either dimension (t is a dimension only the observations have), without and with weights
        for kw, keep in (({"preserve_dims": ["b"]}, "b"), ({"reduce_dims": ["t"]}, "b"), ({"preserve_dims": "t"}, "t"), ({"reduce_dims": "b"}, "t"),
                         ({"preserve_dims": ["b"], "weights": W}, "b"), ({"reduce_dims": ["b"], "weights": W}, "t")):
            st, r = core.call_impl(f, F, O, *args, **kw)
            ctx.case(("defaults", name, repr(sorted(kw))))
            wts = wv if "weights" in kw else [Fr(1)] * 3
            ok = st == "ok" and r.dims == (keep,)
            wantv = None
            if ok:
                wantv = []
                for c in range(3 if keep == "b" else 2):
                    vals = [wts[l] * pt[(i, l)] for i, l in pairs if (l if keep == "b" else i) == c]
                    wantv.append(sum(vals) / len(vals) if vals else NAN)
                ok = all(core.close(float(g), w) for g, w in zip(r.sortby(keep).values, wantv))
            if not ok:
                ctx.violation(name + ": reduction request over forecast / observation-only dimensions differs from the (weighted) mean over the valid cases",
                              dict(case, **{k2: (v if k2 != "weights" else wv) for k2, v in kw.items()}), wantv if wantv is not None else [keep],
                              str(r if st != "ok" else r.values.tolist())[:200])
                break


def model_available(ctx):
    b = getattr(ctx, "build", None) or {}
    return "C10" not in (b.get("excluded_models") or []) and b.get("files", {}).get("model/C10.v", {}).get("ok", True)


def run_without_model(ctx):
    """used when a site no longer translates / the extracted model does not build: implementation-only predicates with the exact
    rational oracle (Table B1 values, value of the five scores, weight one, partitions of unity, non-negativity, replacement of infinite
    end points, integral of weight x murphy_score, guards, corpus of repaired defects)"""
    table_b1_oracle(ctx)
    coord_order_finding(ctx)
    guard_probes(ctx)
    defaults_corpus(ctx)
    near_tie_props(ctx, ctx.n(30, 300))
    replacement_props(ctx, ctx.n(6, 80))
    perdim_props(ctx, ctx.n(25, 400))
    means_props(ctx, ctx.n(25, 400))
    int_dtype_corpus(ctx)
    int_dtype_props(ctx, ctx.n(40, 600))
    infinite_data_props(ctx, ctx.n(40, 600))
    integral_props(ctx, ctx.n(25, 400))
    pointwise_props(ctx, ctx.n(3, 40), use_model=False)


def run(ctx):
    rng = ctx.rng
    if not model_available(ctx):
        ctx.tie_fail("coq/model/C10.v does not build against the current source (a translator site is untranslatable or changed shape)",
                     {"files": {k: v for k, v in (ctx.build.get("files") or {}).items() if not v.get("ok")}}, "-", "-")
        return run_without_model(ctx)
    table_b1_oracle(ctx)
    kernel_grids(ctx)
    coord_order_finding(ctx)
    guard_probes(ctx)
    defaults_corpus(ctx)
    near_tie_props(ctx, ctx.n(30, 300))
    replacement_props(ctx, ctx.n(6, 80))
    perdim_props(ctx, ctx.n(25, 400))
    means_props(ctx, ctx.n(25, 400))
    int_dtype_corpus(ctx)
    int_dtype_props(ctx, ctx.n(40, 600))
    infinite_data_props(ctx, ctx.n(40, 600))
    integral_props(ctx, ctx.n(25, 400))
    # ---- public functions vs model, structured random cases ----
    for i in range(ctx.n(260, 4000)):
        if not ctx.time_left():
            break
        bad = rng.random() < 0.15
        c = gen_case(ctx, bad=bad)
        impl = call_tw(c["fn"], c["fcst"], c["obs"], c["param"], c["one"], c["pos"], c["rd"], c["pd"], c["w"])
        m = model_tw(ctx, c["fn"], c["fcst"], c["obs"], c["param"], c["one"], c["pos"], c["rd"], c["pd"], c["w"])
        ok, why = core.compare_result(impl, m)
        d = desc_case(c)
        nontrivial = impl[0] == "err" or bool(np.isfinite(np.asarray(impl[1])).any())
        ctx.case(d, nontrivial)
        ctx.count("ok" if impl[0] == "ok" else impl[1])
        ctx.count("shape:" + ("trap" if c["pos"] is not None else "rect"))
        ctx.count("fn:" + c["fn"])
        ctx.count("ends:" + ("array" if any(isinstance(x, xr.DataArray) for x in c["one"]) else "scalar"))
        if len({isinstance(x, xr.DataArray) for x in c["one"][:2]}) == 2 and impl[0] == "ok":
            ctx.count("ends:scalar-and-array")
        if any((not isinstance(x, xr.DataArray) and abs(x) == INF) or (isinstance(x, xr.DataArray) and bool(np.isinf(x).any())) for x in c["one"]):
            ctx.count("ends:infinite")
        if c["bad"]:
            ctx.count("malformed:" + str(c["bad"]))
        if bool(np.isinf(c["fcst"].values).any()) or bool(np.isinf(np.asarray(c["obs"].values, dtype=float)).any()):
            ctx.count("data:infinite")
        if i < 3:
            ctx.sample(d)
        if not ok:
            ctx.tie_fail(c["fn"] + " vs model: " + why, d, str(impl[1])[:300], str(m)[:300])
        elif impl[0] == "ok" and c["w"] is None:
            v = np.asarray(impl[1], dtype=float)
            if (v[np.isfinite(v)] < -1e-12).any():
                ctx.violation("negative threshold-weighted score", d, ">= 0", float(np.nanmin(v)))
    # ---- public consistent_* with coded callables vs model ----
    C = S()
    sets = code_sets(rng)
    for i in range(ctx.n(60, 800)):
        if not ctx.time_left():
            break
        sizes = gens.rand_sizes(rng)
        perms = {d: rng.sample(range(sizes[d]), sizes[d]) for d in sizes}
        fcst = mk(rng, sizes, sizes, perms, nan_p=0.12 if rng.random() < 0.4 else 0.0)
        obs = mk(rng, sizes, gens.sub_dims(rng, sizes, p_drop=0.25), perms, nan_p=0.12 if rng.random() < 0.3 else 0.0)
        w = gens.rand_da(rng, sizes, dims=gens.sub_dims(rng, sizes, p_drop=0.4), lo=0, hi=3) if rng.random() < 0.3 else None
        rd, pd = gens.rand_dimspec(rng, list(sizes), allow_bad=True)
        g, phi, phip = rng.choice(sets)
        kind = rng.choice(["quantile", "expectile", "huber"])
        badp = rng.random() < 0.1
        param = param_for(rng, "tw_huber_loss" if kind == "huber" else "tw_quantile_score", bad=badp)
        kw = {}
        if rd is not None:
            kw["reduce_dims"] = rd
        if pd is not None:
            kw["preserve_dims"] = pd
        if w is not None:
            kw["weights"] = w
        if kind == "quantile":
            impl = core.call_impl(C.consistent_quantile_score, fcst, obs, float(param), py_code(g), **kw)
        elif kind == "expectile":
            impl = core.call_impl(C.consistent_expectile_score, fcst, obs, float(param), py_code(phi), py_code(phip), **kw)
        else:
            impl = core.call_impl(C.consistent_huber_score, fcst, obs, float(param), py_code(phi), py_code(phip), **kw)
        m = ctx.model("c10_consistent", enc_list([enc_str(kind), enc_arr(fcst), enc_arr(obs), enc_num(param), enc_code(g), enc_code(phi), enc_code(phip),
                                                  enc_dimspec(rd), enc_dimspec(pd), enc_opt(w, enc_arr)]))
        ok, why = core.compare_result(impl, m)
        d = {"fn": f"consistent_{kind}_score", "fcst": gens.da_repr(fcst), "obs": gens.da_repr(obs), "param": param, "g": g, "phi": phi, "phi_prime": phip,
             "reduce_dims": rd, "preserve_dims": pd, "weights": gens.da_repr(w)}
        ctx.case(d, impl[0] == "err" or bool(np.isfinite(np.asarray(impl[1])).any()))
        ctx.count("consistent:" + kind)
        if i < 1:
            ctx.sample(d)
        if not ok:
            ctx.tie_fail(f"consistent_{kind}_score vs model: " + why, d, str(impl[1])[:300], str(m)[:300])
    consistent_grid(ctx)
    pointwise_props(ctx, ctx.n(3, 40))


def _unj(x):
    """numbers come back from a replay file as strings ('3/2', 'inf', 'nan') or floats"""
    if isinstance(x, str):
        return float(Fr(x)) if x not in ("nan", "inf", "-inf") else float(x)
    return x


def _end(e):
    return gens.da_from_repr(e) if isinstance(e, dict) else _unj(e)


def replay(ctx, rec):
    """./check C10 --replay <file>: re-evaluate the recorded failing input.  A recorded public-function case (correspondence or
    negativity) is rebuilt and run through implementation and model again; every other record is reproduced by re-running the
    deterministic check with the recorded seed and tier."""
    import random
    items = [rec["violation"]] if "violation" in rec else list((rec.get("no_longer_checks") or {}).get("correspondence") or [])
    done = False
    for v in items:
        c = v.get("case") or {}
        if c.get("fn") in FNS and isinstance(c.get("fcst"), dict) and "interval_where_one" in c and isinstance(c.get("obs"), (dict, float, int, str)):
            fcst, obs = gens.da_from_repr(c["fcst"]), gens.da_from_repr(c["obs"])
            one = tuple(_end(e) for e in c["interval_where_one"])
            pos = None if c.get("interval_where_positive") is None else tuple(_end(e) for e in c["interval_where_positive"])
            param = None if c.get("param") is None else Fr(str(c["param"]))
            w = None if c.get("weights") is None else gens.da_from_repr(c["weights"])
            impl = call_tw(c["fn"], fcst, obs, param, one, pos, c.get("reduce_dims"), c.get("preserve_dims"), w)
            m = model_tw(ctx, c["fn"], fcst, obs, param, one, pos, c.get("reduce_dims"), c.get("preserve_dims"), w)
            ok, why = core.compare_result(impl, m)
            ctx.case(("replay", repr(c)))
            if not ok:
                ctx.tie_fail(c["fn"] + " vs model (replay): " + why, c, str(impl[1])[:300], str(m)[:300])
            elif impl[0] == "ok" and w is None and (np.asarray(impl[1], dtype=float)[np.isfinite(np.asarray(impl[1], dtype=float))] < -1e-12).any():
                ctx.violation("negative threshold-weighted score (replay)", c, ">= 0", float(np.nanmin(np.asarray(impl[1], dtype=float))))
            done = True
    if not done:
        ctx.rng = random.Random(rec.get("seed", ctx.seed))
        ctx.tier = rec.get("tier", ctx.tier)
        run(ctx)
