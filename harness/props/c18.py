"""C18 -- flip-flop index is total variation minus range (linear and angular), selections, proportion exceeding."""
from fractions import Fraction

import numpy as np
import xarray as xr

import core
import gens
from core import enc_bool, enc_dimspec, enc_list, enc_num, enc_nums, enc_str

ID = "C18"
LEVEL = "proof"
LEVEL_TEXT = ("Coq theorems for all rational sequences: the modelled index equals (sum|successive changes| - (max-min))/(N-2), is non-negative, "
              "zero exactly for monotone sequences, invariant under shift/negation/reversal, scales with |c|, is NaN iff a NaN is present; the "
              "angular range lies in [0,180]; the code-faithful model of the sector routine equals 360 minus the largest circular gap and is "
              "rotation invariant; proportion-exceeding is the fraction of valid indices >= the threshold for every threshold that is not NaN "
              "(1 at -inf, 0 at +inf). The model (reductions along the "
              "sampling dimension, selections, sector routine, discretisation) is a hand model tied to flip_flop_impl.py by a correspondence "
              "check on every run; angular_difference is regenerated from functions.py (site S1). Proof is the right level because the "
              "deciding inputs are ties (equal gaps, exactly-180 gaps, antipodal pairs, duplicates) that samples seldom hit.")
LEVEL_NOTE = ("trusted: hand model of the xarray plumbing (shift/sum skipna, max/min skipna=False, sel, mean) validated by correspondence; "
              "translator for S1; binary64 rounding not modelled (inputs are dyadic, tolerance 1e-9; 1e-12 of the data's magnitude for scaled linear series)")
TECHNIQUE = "Coq proof over an executable model + extracted-model correspondence check + invariance predicates on the implementation"
SITES = ["S1", "C18.exceed"]
RULE = ("sequences of length 1-8 on the dyadic grid k/4 (|k|<=32) with forced ties, monotone runs and NaN slots; angle sets on a 22.5-degree "
        "grid shifted beyond +-360 with antipodal pairs, duplicates and dyadic rotations (non-multiples of 10 degrees); arrays with 1-2 extra "
        "dims stored in shuffled coordinate order; selections by coordinate label (repeats, absent labels); thresholds including exact index "
        "values and the catch-all bin edges -inf / +inf (also repeated, which is refused), non-decreasing lists with a repeated finite value, and a plain "
        "number (forced autosqueeze) on data with non-sampling dimensions of length 1 (leading / trailing) with the result dimensions checked; every "
        "optional argument (is_angular, skipna, reduce_dims, preserve_dims) both omitted and written out at its documented default; linear series, arrays, selections and proportion-exceeding inputs (data and thresholds) multiplied by 2**e, -40 <= e <= 40 and a few "
        "exponents up to +-200 (exact in binary64), plus factors that are not powers of two from 1e-12 to 1e12, compared relative to the "
        "magnitude of the data with no absolute floor. A case is distinct by the hash of (function, inputs, options) and non-trivial when at least one output value is finite")
ASSUMPTIONS = ["labels along the sampling dimension are unique integers (xarray .sel on a unique index)",
               "infinite DATA values are outside the property's domain for the theorems (the model and the tie do cover them); infinite THRESHOLDS are "
               "inside (C18_proportion_exceeding_any_threshold)"]
TRUSTED = ["hand model of xarray shift / sum(skipna) / max,min(skipna=False) / sel / mean used by flip_flop_impl.py (validated by correspondence)"]

# counters every complete run must have incremented (one per predicate family / input class; core.run_check reports a
# family that silently never ran)
EXPECT_COUNTS = ["known_corpus", "kernel_grid_points", "kernel:exceed:infinite", "grid45_sequences", "seq:angular", "seq:linear", "seq:with_nan",
                 "invariance", "rotation", "seq:int-dtype:", "array_oracle", "magnitude:2^", "magnitude:selections", "magnitude:proportion",
                 "magnitude:proportion:infinite-threshold", "ff_array", "ff_array:scaled", "ff_selections", "sector:ok", "prop:ok", "prop:scaled",
                 "prop:infinite-threshold", "prop:spec", "prop:repeated-threshold", "prop:scalar-threshold", "prop:scalar-threshold:size1-dim",
                 "prop:size1-dim", "prop:size1-dim:leading", "prop:scalar-vs-list", "prop:defaults:omitted", "prop:defaults:explicit",
                 "magnitude:proportion:size1-dim", "magnitude:proportion:repeated-threshold", "magnitude:proportion:scalar-threshold",
                 "magnitude:proportion:scalar-threshold", "magnitude:proportion:options:omitted", "magnitude:proportion:options:explicit",
                 "ff_array:is_angular:omitted", "ff_array:is_angular:explicit", "sector:skipna:omitted", "sector:skipna:explicit", "sector:skipna-omitted:nan"]

NAN = float("nan")
INF = float("inf")


def S():
    import scores.continuous.flip_flop_impl as ff
    return ff


# ------------------------------------------------------------------------------------------
# generators
# ------------------------------------------------------------------------------------------
def gen_seq(rng, n=None, angular=False, nan_p=0.0):
    n = n or rng.randint(1, 8)
    kind = rng.random()
    if angular:
        base = Fraction(rng.randint(-64, 64) * 45, 2) if rng.random() < 0.7 else Fraction(rng.randint(-2000, 2000), 4)
        pool = [base + Fraction(rng.randint(0, 15) * 45, 2) for _ in range(rng.randint(1, 4))]
        if rng.random() < 0.5:
            pool.append(pool[0] + 180)          # antipodal pair
        if rng.random() < 0.3:
            pool.append(pool[0] + 360)          # same direction, other representative
        if rng.random() < 0.3:
            pool += [Fraction(rng.randint(-1600, 3200), 4) for _ in range(3)]
        vals = [rng.choice(pool) for _ in range(n)]
        if rng.random() < 0.4:
            rot = Fraction(rng.randint(-1440, 1440), 4) + Fraction(1, 8) * rng.randint(0, 7)
            vals = [v + rot for v in vals]
    elif kind < 0.2:      # monotone
        vals = sorted(gens.grid_value(rng, 4, 8) for _ in range(n))
        if rng.random() < 0.5:
            vals.reverse()
    elif kind < 0.5:      # few levels: heavy ties
        pool = [gens.grid_value(rng, 4, 8) for _ in range(rng.randint(1, 3))]
        vals = [rng.choice(pool) for _ in range(n)]
    else:
        vals = [gens.grid_value(rng, 4, 8) for _ in range(n)]
    out = [float(v) for v in vals]
    for i in range(n):
        if nan_p and rng.random() < nan_p:
            out[i] = NAN
    return out


def seq_da(vals, labels=None):
    labels = list(range(len(vals))) if labels is None else labels
    return xr.DataArray(np.array(vals, dtype=float), dims=["t"], coords={"t": labels})


def enc_data(da, sd):
    """model array: storage order along the sampling dim (the index depends on it), sorted labels elsewhere"""
    if sd in da.dims:
        da = da.assign_coords({sd: np.arange(da.sizes[sd])})
    return core.enc_arr(da)


def gen_array(rng, angular, nan_p, min_len=1, max_len=6):
    sd = rng.choice(["t", "lead", "a"])
    others = rng.sample([d for d in ["x", "y", "b"] if d != sd], rng.randint(0, 2))
    sizes = {d: rng.randint(1, 3) for d in others}
    n = rng.randint(min_len, max_len)
    dims = others + [sd]
    rng.shuffle(dims)
    shape = [sizes.get(d, n) for d in dims]
    cells = int(np.prod([sizes[d] for d in others])) if others else 1
    cols = [gen_seq(rng, n, angular, nan_p) for _ in range(cells)]
    arr = np.array(cols, dtype=float).reshape([sizes[d] for d in others] + [n])
    da = xr.DataArray(arr, dims=others + [sd])
    coords = {}
    for d in others:
        lab = list(range(sizes[d]))
        rng.shuffle(lab)
        coords[d] = lab
    labels = rng.sample(range(-3, 12), n)
    coords[sd] = labels
    da = da.assign_coords(coords).transpose(*dims)
    return da, sd, labels


def gen_selections(rng, labels, bad_p=0.08):
    sels = {}
    for k in range(rng.randint(1, 3)):
        m = rng.randint(1, min(6, len(labels) + 2))
        vals = [rng.choice(labels) for _ in range(m)] if rng.random() < 0.3 else rng.sample(labels, min(m, len(labels)))
        if rng.random() < bad_p:
            vals.append(99)
        sels["sel%d" % k] = vals
    return sels


def enc_sels(labels, sels):
    return enc_list([str(int(x)) for x in labels]), enc_list([enc_list([str(int(v)) for v in vals]) for vals in sels.values()])


# ------------------------------------------------------------------------------------------
# exact oracles in python (Fractions): the documented formulas, independent of the Coq model
# ------------------------------------------------------------------------------------------
def _fr(v):
    return Fraction(float(v))


def o_linear(vals):
    if any(np.isnan(v) for v in vals) or len(vals) == 2:
        return NAN
    q = [_fr(v) for v in vals]
    tv = sum(abs(a - b) for a, b in zip(q, q[1:]))
    return (tv - (max(q) - min(q))) / (len(q) - 2)


def o_sector(vals):
    if not vals or any(not np.isfinite(v) for v in vals):
        return NAN
    r = sorted(_fr(v) % 360 for v in vals)
    gaps = [b - a for a, b in zip(r, r[1:])] + [r[0] + 360 - r[-1]]
    return 360 - max(gaps)


def o_angdiff(a, b):
    d = abs(_fr(a) - _fr(b)) % 360
    return d if d <= 180 else 360 - d


def o_angular(vals):
    if any(not np.isfinite(v) for v in vals) or len(vals) == 2:
        return NAN
    tv = sum(o_angdiff(a, b) for a, b in zip(vals, vals[1:]))
    return (tv - min(o_sector(vals), Fraction(180))) / (len(vals) - 2)


FINDING_INT = "sector-integer-dtype"
INT_DTYPES = ["uint8", "uint16", "uint32", "int16", "int64"]


def seq_oracle(ctx, ff, vals, dtype=None):
    """1-D sequence (optionally stored with an integer dtype): public functions vs the exact python oracles"""
    arr = np.array(vals, dtype=float) if dtype is None else np.array([int(v) for v in vals], dtype=dtype)
    da = xr.DataArray(arr, dims=["t"], coords={"t": list(range(len(vals)))})
    case = {"values": vals, "dtype": dtype or "float64"}
    ctx.case(("oracle", tuple(vals), dtype))
    if any(np.isinf(v) for v in vals):
        return
    finite = all(np.isfinite(v) for v in vals)
    tol = 1e-5 if dtype in ("uint8", "uint16", "int8", "int16") else core.TOL      # xarray promotes small integers to float32
    lin = core.call_impl(ff.flip_flop_index, da, "t")
    if lin[0] != "ok" or not core.close(float(lin[1]), o_linear(vals), tol):
        ctx.violation("flip_flop_index differs from (sum|dx| - (max-min))/(N-2) (NaN iff a NaN is present)", case, str(o_linear(vals)),
                      lin[1] if lin[0] != "ok" else float(lin[1]))
    if not finite:
        # skipna OMITTED (documented default False): NaN; skipna=True: the sector of the directions that are present
        ctx.count("sector:skipna-omitted:nan")
        sec = core.call_impl(ff.encompassing_sector_size, da, [])
        if sec[0] != "ok" or not np.isnan(float(sec[1])):
            ctx.violation("encompassing_sector_size with skipna omitted (documented default False): a NaN direction gives NaN", case, "nan",
                          sec[1] if sec[0] != "ok" else float(sec[1]))
        present = [v for v in vals if not np.isnan(v)]
        if present:
            sec = core.call_impl(ff.encompassing_sector_size, da, [], skipna=True)
            if sec[0] != "ok" or not core.close(float(sec[1]), o_sector(present), tol):
                ctx.violation("encompassing_sector_size(skipna=True) differs from 360 - largest circular gap of the directions that are present",
                              case, str(o_sector(present)), sec[1] if sec[0] != "ok" else float(sec[1]))
        return
    # unsigned / 8-bit integer storage on the directional path: recorded defect until repaired
    key = FINDING_INT if dtype in ("uint8", "uint16", "uint32", "uint64", "int8") else None
    sec = core.call_impl(ff.encompassing_sector_size, da, [])
    if sec[0] != "ok" or not core.close(float(sec[1]), o_sector(vals), tol):
        ctx.violation("encompassing_sector_size differs from 360 - largest circular gap", case, str(o_sector(vals)),
                      sec[1] if sec[0] != "ok" else float(sec[1]), finding_key=key)
    if len(vals) >= 3:
        ang = core.call_impl(ff.flip_flop_index, da, "t", is_angular=True)
        if ang[0] != "ok" or not core.close(float(ang[1]), o_angular(vals), tol):
            ctx.violation("angular flip_flop_index differs from (sum of circular differences - min(360 - largest gap, 180))/(N-2)", case,
                          str(o_angular(vals)), ang[1] if ang[0] != "ok" else float(ang[1]), finding_key=key)


def int_seq(rng):
    n = rng.randint(3, 7)
    r = rng.random()
    if r < 0.3:
        vals = sorted(rng.randint(0, 100) for _ in range(n))
        if rng.random() < 0.5:
            vals.reverse()
    else:
        vals = [rng.randint(0, 100) for _ in range(n)]
    return [float(v) for v in vals]


def array_oracle(ctx, ff, rng):
    """public functions on arrays with the sampling dimension in EVERY position (square shapes included), cell by cell
    against the list-level oracles"""
    angular = rng.random() < 0.6
    sd = "lead_day"
    others = rng.sample(["station", "member"], rng.randint(1, 2))
    n = rng.randint(3, 4)
    sizes = {d: (n if rng.random() < 0.6 else rng.randint(1, 4)) for d in others}          # often square
    cols = int(np.prod([sizes[d] for d in others]))
    data = np.array([gen_seq(rng, n, angular, 0.0) for _ in range(cols)], dtype=float).reshape([sizes[d] for d in others] + [n])
    base = xr.DataArray(data, dims=others + [sd], coords={**{d: list(range(sizes[d])) for d in others}, sd: list(range(n))})
    import itertools
    for perm in itertools.permutations(others + [sd]):
        da = base.transpose(*perm)
        case = {"data": gens.da_repr(da), "sampling_dim": sd, "is_angular": angular}
        ctx.case(("array-oracle", repr(case)))
        calls = [("flip_flop_index", core.call_impl(ff.flip_flop_index, da, sd, is_angular=angular), o_angular if angular else o_linear)]
        if angular:
            calls.append(("encompassing_sector_size", core.call_impl(ff.encompassing_sector_size, da, [d for d in perm if d != sd]), o_sector))
        for name, impl, oracle in calls:
            if impl[0] != "ok":
                ctx.violation(name + " raises on a plain array", case, "values", impl[1])
                continue
            if set(impl[1].dims) != set(others):
                ctx.violation(name + ": wrong result dimensions", case, sorted(others), list(impl[1].dims))
                continue
            res = impl[1].transpose(*others)
            for idx in np.ndindex(*[sizes[d] for d in others]):
                seq = [float(v) for v in base.values[idx]]
                got = float(res.sel({d: i for d, i in zip(others, idx)}).values)
                if not core.close(got, oracle(seq)):
                    ctx.violation(name + " on an array differs from the value of the sequence along the sampling dimension",
                                  dict(case, cell=dict(zip(others, idx)), sequence=seq), str(oracle(seq)), got)
                    break


# ------------------------------------------------------------------------------------------
# magnitudes: the same dyadic series multiplied by 2**e, -40 <= e <= 40.  The scaled values, every successive difference,
# every partial sum of the differences and max - min are exact in binary64, so the numerator of the index is the exact
# rational and the only rounding is the final division by N - 2: the exact model / the Fraction oracle apply unchanged to
# the scaled rational inputs and the comparison needs no absolute tolerance at all
# ------------------------------------------------------------------------------------------
EXPONENTS = list(range(-40, 41))
# factors that are not powers of two (units: m/s, kg/kg, Pa, J/kg ...): the product rounds, relations hold to ~1e-16 relative
FACTORS = [1e-12, -1e-12, 1e-10, 1e-9, -1e-9, 3.7e-8, 1e-6, -2.5e-4, 1e-3, 1e3, -4.2e5, 1e6, 1e9, -1e9, 6.02e11, 1e12]


def rel_close(x, q, scale, tol=1e-12):
    """implementation float x vs exact value q (Fraction / nan); the tolerance is RELATIVE TO THE MAGNITUDE OF THE DATA
    (`scale` = largest |value| of the series), there is no absolute floor"""
    x = float(x)
    if isinstance(q, float) and np.isnan(q):
        return bool(np.isnan(x))
    if not np.isfinite(x):
        return False
    return abs(Fraction(x) - Fraction(q)) <= Fraction(tol) * Fraction(scale)


def magnitude_of(vals):
    f = [abs(v) for v in vals if np.isfinite(v)]
    return max(f) if f else 0.0


def gen_exponent(rng):
    r = rng.random()
    if r < 0.3:
        return rng.choice([-40, -36, -33, -30, -27, 27, 30, 33, 40])         # 1e-12 .. 1e-8 and 1e8 .. 1e12
    if r < 0.38:
        return rng.choice([-200, -100, -60, -50, 50, 60, 100, 200])          # far from 1 but far from under/overflow as well
    return rng.choice(EXPONENTS)


def pow2(e):
    return float(Fraction(2) ** e)


def is_monotone(vals):
    return all(a <= b for a, b in zip(vals, vals[1:])) or all(a >= b for a, b in zip(vals, vals[1:]))


def compare_scaled(impl, tree, e, names=None):
    """core.compare_result / compare_dataset for data that was multiplied by 2**e: implementation and model values are
    both divided by 2**e first (exact on both sides), which makes core's 1e-9 tolerance relative to the magnitude of the data"""
    if e == 0 or impl[0] != "ok" or core.is_err(tree):
        return core.compare_dataset(impl, tree, names) if names is not None else core.compare_result(impl, tree)
    inv = pow2(-e)

    def one(val, t):
        dims, shape, qs = core.dec_arr(t)
        xs = core.da_flat(val * inv, dims)
        if xs is None:
            return False, f"dims differ: impl {getattr(val, 'dims', None)} model {dims}"
        qs = [q if isinstance(q, float) else q * Fraction(inv) for q in qs]
        if not core.close_list(xs, qs):
            return False, f"values (divided by 2**{e}) differ: impl {xs[:8]} model {[str(q) for q in qs[:8]]}"
        return True, ""
    if names is None:
        return one(impl[1], tree)
    for n, t in zip(names, tree):
        ok, d = one(impl[1][n], t)
        if not ok:
            return False, f"{n}: {d}"
    return True, ""


def magnitude_seq(ctx, ff, vals0, e, rng, model=True, factors=None):
    """linear index of a dyadic series times 2**e: formula (exact), model, sign, zero iff monotone, scaling by 2**e and by
    factors that are not powers of two, selections"""
    s = pow2(e)
    vals = [v * s for v in vals0]
    n = len(vals)
    scale = magnitude_of(vals)
    case = {"values": vals, "unscaled": vals0, "exponent_of_two": e}
    got = core.call_impl(ff.flip_flop_index, seq_da(vals), "t")
    finite = all(np.isfinite(vals))
    ctx.case(("mag", tuple(vals0), e), nontrivial=finite and n >= 3)
    ctx.count("magnitude:2^%+04d..%+04d" % (10 * (e // 10), 10 * (e // 10) + 9) if abs(e) <= 40 else "magnitude:beyond 2^+-40")
    if got[0] != "ok":
        ctx.violation("flip_flop_index raises on a plain sequence", case, "a value", got[1])
        return
    v = float(got[1])
    want = o_linear(vals)                                # N = 1: (0 - 0)/(-1) = 0; N = 2: 0/0 = NaN
    if not rel_close(v, want, scale):
        ctx.violation("flip_flop_index differs from (sum|dx| - (max-min))/(N-2) relative to the magnitude of the data "
                      "(series scaled by a power of two)", case, str(want), v)
    if model:
        m_lin = core.dec_nums(ctx.model("c18_seq", enc_list([enc_nums(vals)])))[0]
        if not rel_close(v, m_lin, scale):
            ctx.tie_fail("flip_flop_index vs model (scaled series)", case, v, str(m_lin))
    if not finite or n < 3:
        return
    if v < 0:
        ctx.violation("flip_flop_index is negative", case, ">= 0", v)
    mono = is_monotone(vals)
    if mono != (v == 0.0):
        ctx.violation("flip_flop_index is zero exactly for monotone sequences (series scaled by a power of two)", case,
                      "zero" if mono else "positive", v)
    # scaling: index(2**e x) = 2**e index(x), exactly
    base = float(ff.flip_flop_index(seq_da(vals0), "t"))
    if not rel_close(v, Fraction(base) * Fraction(s), scale):
        ctx.violation("flip_flop_index invariance: scale (power of two)", {"values": vals0, "k": s, "transformed": vals},
                      base * s, v)
    # ... and by factors that are not powers of two (the products round: relative tolerance, no absolute floor)
    for k in (rng.sample(FACTORS, 2) if factors is None else factors):
        w = [k * x for x in vals0]
        g = float(ff.flip_flop_index(seq_da(w), "t"))
        sc = magnitude_of(w)
        ctx.case(("mag-factor", tuple(vals0), k))
        if not rel_close(g, Fraction(abs(k)) * Fraction(base), sc, 1e-9):
            ctx.violation("flip_flop_index invariance: scale", {"values": vals0, "k": k, "transformed": w}, abs(k) * base, g)
        if not rel_close(g, o_linear(w), sc, 1e-9):
            ctx.violation("flip_flop_index differs from (sum|dx| - (max-min))/(N-2) relative to the magnitude of the data",
                          {"values": w, "unscaled": vals0, "factor": k}, str(o_linear(w)), g)
    # selections on the scaled series: the index of exactly the selected sub-sequence
    labels = rng.sample(range(-3, 12), n)
    sels = gen_selections(rng, labels, bad_p=0.0)
    res = core.call_impl(ff.flip_flop_index, seq_da(vals, labels), "t", **sels)
    ctx.case(("mag-sel", tuple(vals0), e, repr(sels)))
    ctx.count("magnitude:selections")
    if res[0] != "ok":
        ctx.violation("flip_flop_index with selections raises", dict(case, labels=labels, selections=sels), "values", res[1])
        return
    for name, lab in sels.items():
        sub = [vals[labels.index(x)] for x in lab]
        w_sub = o_linear(sub)
        g = float(res[1][name])
        if not rel_close(g, w_sub, scale):
            ctx.violation("selection differs from the index of the selected sub-sequence (series scaled by a power of two)",
                          dict(case, labels=labels, selection=lab, sub_sequence=sub), str(w_sub), g)


def exact_thresholds(rng, idx):
    """thresholds that separate / hit the exact index values: mid-points, half the smallest positive one, and the values
    themselves when the division by N - 2 is exact in binary64"""
    pos = sorted({q for q in idx if not isinstance(q, float)})
    cand = set()
    for a, b in zip(pos, pos[1:]):
        cand.add((a + b) / 2)
    for q in pos:
        if q > 0:
            cand.add(q / 2)
            break
    for q in pos:
        if Fraction(float(q)) == q:
            cand.add(q)
    if pos:
        cand.add(pos[-1] * 2 + 1)
    cand = sorted(c for c in cand if Fraction(float(c)) == c)
    if not cand:
        return []
    return sorted(rng.sample(cand, min(len(cand), rng.randint(1, 4))))


def magnitude_proportion(ctx, ff, rng):
    """flip_flop_index_proportion_exceeding (with and without selections) on several series of one small / large magnitude:
    the fraction of valid exact index values >= threshold"""
    n = rng.randint(3, 7)
    m = rng.randint(1, 6)                     # a single station: a non-sampling dimension of length 1
    e = gen_exponent(rng)
    mixed = rng.random() < 0.25               # the stations do not share one magnitude
    rows0 = [gen_seq(rng, n, False, nan_p=0.1 if rng.random() < 0.2 else 0.0) for _ in range(m)]
    es = [e + (rng.randint(-3, 3) if mixed else 0) for _ in range(m)]
    rows = [[v * pow2(ei) for v in r] for r, ei in zip(rows0, es)]
    labels = rng.sample(range(-3, 12), n)
    da = xr.DataArray(np.array(rows, dtype=float), dims=["x", "t"], coords={"x": list(range(m)), "t": labels})
    if rng.random() < 0.5:
        da = da.transpose("t", "x")
    # an extra dimension of length 1 (a single model), leading or trailing
    one = rng.random() < 0.4
    if one:
        da = da.expand_dims(model=[7])
        if rng.random() < 0.4:
            da = da.transpose(..., "model")
    if one or m == 1:
        ctx.count("magnitude:proportion:size1-dim")
    sels = {"all": None}
    if rng.random() < 0.6:
        sels.update(gen_selections(rng, labels, bad_p=0.0))
    sub = {k: [[r[labels.index(x)] for x in lab] if lab is not None else r for r in rows] for k, lab in sels.items()}
    idx = {k: [o_linear(r) for r in rs] for k, rs in sub.items()}
    thr = exact_thresholds(rng, [q for qs in idx.values() for q in qs])
    if not thr:
        return
    # catch-all bin edges: -inf below / +inf above the finite thresholds (half of the cases)
    r = rng.random()
    if r < 0.5:
        thr = ([-INF] if r < 0.35 else []) + thr + ([INF] if r > 0.15 else [])
        ctx.count("magnitude:proportion:infinite-threshold")
    # the argument forms of `thresholds`: a non-decreasing list with a repeated (finite) value -- the proportion for each
    # threshold --, and a plain number (forced autosqueeze: only 'threshold' is squeezed out)
    scalar = False
    r = rng.random()
    if r < 0.25:
        j = rng.randrange(len(thr))
        if thr[j] not in (INF, -INF):
            thr = thr[:j + 1] + thr[j:]
            ctx.count("magnitude:proportion:repeated-threshold")
    elif r < 0.5:
        thr = [rng.choice(thr)]
        scalar = True
        ctx.count("magnitude:proportion:scalar-threshold")
        if one or m == 1:
            ctx.count("magnitude:proportion:scalar-threshold:size1-dim")
    tf = [float(t) for t in thr]
    targ = tf[0] if scalar else tf
    kw = {k: v for k, v in sels.items() if v is not None}
    # optional arguments omitted / explicit at the documented defaults / the length-1 dimension preserved (same values)
    opt = {}
    r = rng.random()
    if r < 0.3:
        opt = {"is_angular": False, "reduce_dims": None, "preserve_dims": None}
    elif r < 0.5 and one:
        opt = {"preserve_dims": ["model"]} if rng.random() < 0.5 else {"reduce_dims": ["x"]}
    keep = ("model",) if ("preserve_dims" in opt and opt["preserve_dims"]) or ("reduce_dims" in opt and opt["reduce_dims"]) else ()
    want_dims = keep + (() if scalar else ("threshold",))
    case = {"data": gens.da_repr(da), "sampling_dim": "t", "thresholds": targ, "selections": kw, "exponents_of_two": es, "options": opt}
    res = core.call_impl(ff.flip_flop_index_proportion_exceeding, da, "t", targ, **opt, **kw)
    ctx.case(("mag-prop", repr(case)))
    ctx.count("magnitude:proportion")
    ctx.count("magnitude:proportion:options:" + ("explicit" if opt else "omitted"))
    if res[0] != "ok":
        ctx.violation("flip_flop_index_proportion_exceeding raises (non-decreasing thresholds / a plain-number threshold, data may have "
                      "dimensions of length 1)", case, "values", res[1])
        return
    from scores.processing import proportion_exceeding
    outs = {k: (res[1][k] if kw else res[1]) for k in sels if not (k == "all" and kw)}
    for k, out in outs.items():
        if tuple(out.dims) != want_dims:
            ctx.violation("proportion exceeding: wrong result dimensions (a plain-number threshold removes only 'threshold'; a preserved "
                          "dimension of length 1 stays)", dict(case, selection=k), list(want_dims), list(out.dims))
            return
    if scalar:
        scalar_vs_list(ctx, ff, da, "t", tf[0], opt, kw, res[1], case)
    if not kw and not keep:
        # the building block itself on the index values (a public function of scores.processing)
        direct = core.call_impl(lambda: proportion_exceeding(ff.flip_flop_index(da, "t"), targ))
        if direct[0] != "ok":
            ctx.violation("proportion_exceeding raises on valid thresholds", case, "values", direct[1])
        else:
            outs["all[proportion_exceeding]"] = direct[1]
            idx["all[proportion_exceeding]"] = idx["all"]
    for k, out in outs.items():
        valid = [q for q in idx[k] if not isinstance(q, float)]
        gs = []
        for j, (t, t_f) in enumerate(zip(thr, tf)):
            want = Fraction(sum(1 for q in valid if q >= t), len(valid)) if valid else NAN
            g = float((out if scalar else out.isel(threshold=j)).values.ravel()[0])
            gs.append(g)
            if not core.close(g, want):
                ctx.violation("proportion exceeding differs from the fraction of valid indices >= threshold (small / large magnitude data; "
                              "only a NaN index is invalid, -inf / +inf are ordinary thresholds)",
                              dict(case, selection=k, threshold=t_f, exact_index_values=[str(q) for q in idx[k]]), str(want), g)
                break
        else:
            if valid and (any(np.isnan(gs)) or any(b > a for a, b in zip(gs, gs[1:]))):
                ctx.violation("proportion exceeding is NaN although valid indices exist, or increases with the threshold",
                              dict(case, selection=k, exact_index_values=[str(q) for q in idx[k]]), "non-increasing, not NaN", gs)


def magnitude_stream(ctx, ff, rng, nseq, nprop, model=True):
    for i in range(nseq):
        if not ctx.time_left():
            break
        vals0 = gen_seq(rng, rng.randint(3, 8) if rng.random() < 0.9 else rng.randint(1, 2), False, nan_p=0.15 if rng.random() < 0.15 else 0.0)
        magnitude_seq(ctx, ff, vals0, gen_exponent(rng), rng, model)
    for i in range(nprop):
        if not ctx.time_left():
            break
        magnitude_proportion(ctx, ff, rng)



# ------------------------------------------------------------------------------------------
# checks
# ------------------------------------------------------------------------------------------
def seq_level(ctx, ff, vals, note):
    """1-D sequence: implementation vs model vs proved specifications"""
    da = seq_da(vals)
    m_lin, s_lin, m_ang, m_sec, s_gap, s_arc, s_ang = core.dec_nums(ctx.model("c18_seq", enc_list([enc_nums(vals)])))
    case = {"values": vals, "note": note}
    i_lin = core.call_impl(ff.flip_flop_index, da, "t")
    i_ang = core.call_impl(ff.flip_flop_index, da, "t", is_angular=True)
    i_sec = core.call_impl(ff.encompassing_sector_size, da, [])
    finite = all(np.isfinite(vals))
    ctx.case(("seq", tuple(vals)), nontrivial=finite and len(vals) >= 3)
    for name, impl, model in (("flip_flop_index", i_lin, m_lin), ("flip_flop_index[angular]", i_ang, m_ang),
                              ("encompassing_sector_size", i_sec, m_sec)):
        if impl[0] != "ok":
            ctx.tie_fail(name + " raises on a plain sequence", case, impl[1], str(model))
        elif not core.close(float(impl[1]), model):
            ctx.tie_fail(name + " vs model", case, float(impl[1]), str(model))
    if not any(np.isinf(vals)):
        if i_lin[0] == "ok" and not core.close(float(i_lin[1]), s_lin):
            ctx.violation("flip_flop_index differs from (sum|dx| - (max-min))/(N-2) (NaN iff a NaN is present)", case, str(s_lin), float(i_lin[1]))
        if any(np.isnan(vals)) and i_sec[0] == "ok":
            ctx.count("sector:skipna-omitted:nan")
            if not np.isnan(float(i_sec[1])):
                ctx.violation("encompassing_sector_size with skipna omitted (documented default False): a NaN direction gives NaN", case, "nan", float(i_sec[1]))
        if finite and i_sec[0] == "ok":
            if not core.close(float(i_sec[1]), s_gap):
                ctx.violation("encompassing_sector_size differs from 360 - largest circular gap", case, str(s_gap), float(i_sec[1]))
            if not core.close(float(i_sec[1]), s_arc):
                ctx.violation("encompassing_sector_size differs from the smallest covering arc", case, str(s_arc), float(i_sec[1]))
        if finite and len(vals) >= 3 and i_lin[0] == "ok":
            v = float(i_lin[1])
            if v < -1e-12:
                ctx.violation("flip_flop_index is negative", case, ">= 0", v)
            mono = all(a <= b for a, b in zip(vals, vals[1:])) or all(a >= b for a, b in zip(vals, vals[1:]))
            if mono != (abs(v) <= 1e-12):
                ctx.violation("flip_flop_index is zero exactly for monotone sequences", case, "zero" if mono else "positive", v)
        if finite and len(vals) >= 3 and i_ang[0] == "ok":
            v = float(i_ang[1])
            if not core.close(v, s_ang):
                ctx.violation("angular flip_flop_index differs from (sum of circular differences - min(360 - largest gap, 180))/(N-2)", case, str(s_ang), v)
            if v < -1e-9 or v > 180 * (len(vals) - 1) / (len(vals) - 2) + 1e-9:
                ctx.violation("angular flip_flop_index outside its range", case, "0 <= v", v)


def invariances(ctx, ff, vals, rng, c=None, k=None):
    """relations between public calls on the implementation"""
    n = len(vals)
    if n < 3:
        return
    da = seq_da(vals)
    base = float(ff.flip_flop_index(da, "t"))
    c = float(gens.grid_value(rng, 4, 8)) if c is None else c
    k = float(Fraction(rng.randint(-12, 12), 4)) if k is None else k
    ctx.count("invariance")
    rel = [("shift", [v + c for v in vals], base), ("negate", [-v for v in vals], base),
           ("reverse", list(reversed(vals)), base), ("scale", [k * v for v in vals], abs(k) * base)]
    for name, w, expect in rel:
        got = float(ff.flip_flop_index(seq_da(w), "t"))
        ctx.case(("inv", name, tuple(vals), c, k))
        ok = (np.isnan(got) and np.isnan(expect)) or abs(got - expect) <= 1e-9 * max(1.0, abs(expect))
        if not ok:
            ctx.violation("flip_flop_index invariance: " + name, {"values": vals, "c": c, "k": k, "transformed": w}, expect, got)


FINDING = "sector-near-duplicate-angles"


def near_duplicates(vals):
    """two directions that differ (mod 360) by floating-point noise but are not equal"""
    r = sorted(float(v) % 360.0 for v in vals)
    gaps = [b - a for a, b in zip(r, r[1:])] + [r[0] + 360.0 - r[-1]]
    return any(0.0 < g < 1e-9 for g in gaps)


def exact_sector(ctx, vals):
    """proved specification (360 - largest circular gap) on the exact rational values of the floats"""
    return o_sector(vals)


def known_cases(ctx, ff):
    """deterministic corpus: the repros of the recorded defects, evaluated on every run (a regression of a repaired one is a VIOLATION)"""
    for vals in ([10.0, 10.000000000000002, 50.0], [176.75099999999998, 176.751, 244.251]):
        spec = exact_sector(ctx, vals)
        got = float(ff.encompassing_sector_size(seq_da(vals), []))
        idx = float(ff.flip_flop_index(seq_da(vals), "t", is_angular=True))
        ctx.case(("known", tuple(vals)))
        if not core.close(got, spec):
            ctx.violation("encompassing_sector_size differs from 360 - largest circular gap (near-duplicate directions)",
                          {"values": vals, "angular_index": idx}, str(spec), got, finding_key=FINDING)
        elif idx < -1e-9:
            ctx.violation("angular flip_flop_index is negative", {"values": vals}, ">= 0", idx)
    for dtype in ("uint16", "uint8", "uint32"):
        seq_oracle(ctx, ff, [10.0, 20.0, 30.0], dtype)          # uint16: sector 4 / index 16 instead of 20 / 0; uint8: OverflowError
    seq_oracle(ctx, ff, [50.0, 20.0, 40.0, 80.0], "uint8")      # docstring example stored as uint8: linear index 15
    ctx.count("known_corpus", 6)


def rotation(ctx, ff, vals, rng, rot=None):
    if len(vals) < 3:
        return
    if rot is None:
        rot = float(Fraction(rng.randint(-2880, 2880), 8))
        if rng.random() < 0.3:
            rot = rng.choice([7.3, 123.456, -359.9, 1e-3, 181.0, 33.3])      # not a dyadic number: predicate on the implementation only
    w = [v + rot for v in vals]
    a = float(ff.flip_flop_index(seq_da(vals), "t", is_angular=True))
    b = float(ff.flip_flop_index(seq_da(w), "t", is_angular=True))
    sa = float(ff.encompassing_sector_size(seq_da(vals), []))
    sb = float(ff.encompassing_sector_size(seq_da(w), []))
    ctx.case(("rot", tuple(vals), rot))
    ctx.count("rotation")
    # rounding in `+ rot` / `% 360` can split one direction into two that differ by noise: the recorded defect
    key = FINDING if near_duplicates(w) and not near_duplicates(vals) else None
    for name, x, y in (("angular flip_flop_index", a, b), ("encompassing_sector_size", sa, sb)):
        ok = (np.isnan(x) and np.isnan(y)) or abs(x - y) <= 1e-9 * max(1.0, abs(x))
        if not ok:
            ctx.violation(name + " changes when all directions are rotated", {"values": vals, "rotation": rot}, x, y, finding_key=key)
    if not np.isnan(sa) and not (-1e-12 <= min(sa, 180.0) <= 180.0):
        ctx.violation("angular range outside [0,180]", {"values": vals}, "[0,180]", sa)


def array_level(ctx, ff, rng, i):
    angular = rng.random() < 0.5
    da, sd, labels = gen_array(rng, angular, nan_p=0.1 if rng.random() < 0.4 else 0.0)
    e = gen_exponent(rng) if (not angular and rng.random() < 0.35) else 0       # linear data of small / large magnitude (exact scaling)
    if e:
        da = da * pow2(e)
        ctx.count("ff_array:scaled")
    desc = {"fn": "flip_flop_index", "data": gens.da_repr(da), "sampling_dim": sd, "is_angular": angular, "exponent_of_two": e}
    bad_dim = rng.random() < 0.05
    sdq = "zz" if bad_dim else sd
    # is_angular OMITTED (documented default False) or EXPLICIT: the model always receives the documented value
    akw = {"is_angular": angular} if (angular or rng.random() < 0.5) else {}
    desc["keywords_passed"] = sorted(akw)
    ctx.count("ff_array:is_angular:" + ("explicit" if akw else "omitted"))
    if rng.random() < 0.5:
        impl = core.call_impl(ff.flip_flop_index, da, sdq, **akw)
        m = ctx.model("c18_ff", enc_list([enc_data(da, sd), enc_str(sdq), enc_bool(angular)]))
        ok, why = compare_scaled(impl, m, e)
        ctx.count("ff_array")
    else:
        sels = gen_selections(rng, labels)
        desc["selections"] = sels
        impl = core.call_impl(ff.flip_flop_index, da, sdq, **akw, **sels)
        el, es = enc_sels(labels, sels)
        m = ctx.model("c18_ff_sel", enc_list([enc_data(da, sd), enc_str(sdq), enc_bool(angular), el, es]))
        ok, why = compare_scaled(impl, m, e, list(sels))
        ctx.count("ff_selections")
        # selections = index of the selected sub-sequence (relation between public calls)
        for name, vals in sels.items():
            direct = core.call_impl(lambda: ff.flip_flop_index(da.sel({sd: vals}), sd, is_angular=angular))
            if direct[0] == "err":
                if impl[0] == "ok" and not bad_dim:
                    ctx.violation("a selection with a label that is not on the sampling dimension must raise", dict(desc, selection=name), direct[1], "a value")
                continue
            if impl[0] != "ok":
                continue
            got = impl[1][name]
            if set(got.dims) != set(direct[1].dims) or not np.allclose(np.asarray(direct[1].values, float) * pow2(-e), np.asarray(got.transpose(*direct[1].dims).values, float) * pow2(-e), rtol=1e-9, atol=1e-12, equal_nan=True):
                ctx.violation("selection differs from the index of the selected sub-sequence", dict(desc, selection=name), str(direct[1].values), str(got.values))
    ctx.count("ok" if impl[0] == "ok" else impl[1])
    nontrivial = impl[0] == "ok" and (bool(np.isfinite(np.asarray(impl[1].to_array() if isinstance(impl[1], xr.Dataset) else impl[1])).any()))
    ctx.case(desc, nontrivial)
    if i < 2:
        ctx.sample(desc)
    if not ok:
        ctx.tie_fail("flip_flop_index vs model: " + why, desc, str(impl[1])[:300], str(m)[:300])


def sector_level(ctx, ff, rng, i):
    da, sd, _ = gen_array(rng, True, nan_p=0.15 if rng.random() < 0.5 else 0.0)
    keep = [d for d in da.dims if d != sd]
    r = rng.random()
    if r < 0.06 and keep:
        keep = keep[:-1]                     # two dims to collapse -> DimensionError
    elif r < 0.1:
        keep = list(da.dims)                 # not a proper superset
    elif r < 0.13:
        keep = keep + ["zz"]
    skipna = rng.random() < 0.5
    rng.shuffle(keep)
    # skipna OMITTED (documented default False: a NaN gives NaN) or EXPLICIT
    skw = {"skipna": skipna} if (skipna or rng.random() < 0.5) else {}
    ctx.count("sector:skipna:" + ("explicit" if skw else "omitted"))
    desc = {"fn": "encompassing_sector_size", "data": gens.da_repr(da), "dims": keep, "skipna": skipna, "keywords_passed": sorted(skw)}
    impl = core.call_impl(ff.encompassing_sector_size, da, keep, **skw)
    m = ctx.model("c18_sector", enc_list([enc_data(da, sd), enc_list([enc_str(d) for d in keep]), enc_bool(skipna)]))
    ok, why = core.compare_result(impl, m)
    ctx.count("sector:" + ("ok" if impl[0] == "ok" else impl[1]) + (":skipna" if skipna else ""))
    ctx.case(desc, impl[0] == "ok" and bool(np.isfinite(np.asarray(impl[1])).any()))
    if i < 1:
        ctx.sample(desc)
    if not ok:
        ctx.tie_fail("encompassing_sector_size vs model: " + why, desc, str(impl[1])[:300], str(m)[:300])


def drop_threshold(tree):
    """model array with a 'threshold' dimension of length 1 -> the same array without it (what the forced autosqueeze of a
    plain-number threshold does: ONLY that dimension goes, every other dimension of length 1 stays)"""
    return [[p for p in tree[0] if core.dec_str(p[0]) != "threshold"], tree[1]]


def scalar_vs_list(ctx, ff, da, sd, t, kw, sels, got, case):
    """relation between public calls: the result for the plain number t is the result for [t] with the 'threshold'
    dimension (and nothing else) squeezed out -- same remaining dimensions in the same order, same values"""
    ref = core.call_impl(ff.flip_flop_index_proportion_exceeding, da, sd, [t], **kw, **sels)
    ctx.count("prop:scalar-vs-list")
    if ref[0] != "ok":
        ctx.violation("proportion exceeding returns for the plain number t but raises for [t]", case, "a value", ref[1])
        return
    for name in (list(sels) if sels else [None]):
        a = got[name] if name is not None else got
        b = ref[1][name] if name is not None else ref[1]
        want = tuple(d for d in b.dims if d != "threshold")
        if tuple(a.dims) != want:
            ctx.violation("proportion exceeding a plain-number threshold: the result must have the dimensions of the list-threshold result "
                          "without 'threshold' (a data dimension of length 1 is kept)", dict(case, selection=name), list(want), list(a.dims))
            return
        if not np.array_equal(np.asarray(a.values, float), np.asarray(b.squeeze("threshold").values, float), equal_nan=True):
            ctx.violation("proportion exceeding a plain-number threshold differs from the list-threshold result squeezed",
                          dict(case, selection=name), str(b.squeeze("threshold").values), str(a.values))
            return


def prop_level(ctx, ff, rng, i):
    angular = rng.random() < 0.4
    da, sd, labels = gen_array(rng, angular, nan_p=0.1 if rng.random() < 0.4 else 0.0, min_len=3)
    e = gen_exponent(rng) if (not angular and rng.random() < 0.35) else 0       # data and thresholds of small / large magnitude
    if e:
        da = da * pow2(e)
        ctx.count("prop:scaled")
    others = [d for d in da.dims if d != sd]
    base = core.call_impl(ff.flip_flop_index, da, sd, is_angular=angular)
    pool = [float(Fraction(rng.randint(0, 40), 4)) * pow2(e) for _ in range(4)]
    if base[0] == "ok":
        # thresholds equal to index values (only dyadic ones: a threshold must be the same rational for code and model)
        pool += [float(v) for v in np.asarray(base[1].values, float).ravel() if np.isfinite(v) and float(v * pow2(-e) * 64).is_integer()]
    thr = sorted(rng.sample(pool, min(len(pool), rng.randint(1, 3))))
    # -inf / +inf are legitimate thresholds (catch-all bin edges): every valid index is >= -inf, none is >= +inf; only a
    # NaN index is missing.  (A repeated infinite threshold is refused: inf - inf is not >= 0.)
    r = rng.random()
    if r < 0.3:
        thr = ([-INF] if r < 0.2 else []) + thr + ([INF] if r > 0.1 else [])
        if rng.random() < 0.06:
            thr = thr + [thr[-1]]
        ctx.count("prop:infinite-threshold")
    scalar = False
    r = rng.random()
    if r < 0.05:
        thr = list(reversed(thr)) + [thr[0] + pow2(e), thr[0]]
    elif r < 0.2:
        # a non-decreasing list in which a (finite) threshold is repeated: the proportion for EACH threshold
        k = rng.randrange(len(thr))
        if np.isfinite(thr[k]):
            thr = thr[:k + 1] + thr[k:]
            ctx.count("prop:repeated-threshold")
    elif r < 0.42:
        # a plain number: autosqueeze is forced, ONLY the 'threshold' dimension is squeezed out
        thr = [rng.choice(thr)]
        scalar = True
        ctx.count("prop:scalar-threshold")
    size1 = [d for d in others if da.sizes[d] == 1]
    if size1:
        ctx.count("prop:size1-dim")
        if da.dims[0] in size1:
            ctx.count("prop:size1-dim:leading")
        if scalar:
            ctx.count("prop:scalar-threshold:size1-dim")
    rd, pd = gens.rand_dimspec(rng, others, allow_bad=True)
    if rng.random() < 0.06:
        rd, pd = ([sd], None) if rng.random() < 0.5 else (None, [sd])
    # every optional argument both OMITTED and EXPLICIT at its documented default (is_angular=False, reduce_dims=None,
    # preserve_dims=None): the model always receives the documented value
    kw = {}
    if rd is not None or rng.random() < 0.3:
        kw["reduce_dims"] = rd
    if pd is not None or rng.random() < 0.3:
        kw["preserve_dims"] = pd
    if angular or rng.random() < 0.5:
        kw["is_angular"] = angular
    ctx.count("prop:defaults:" + ("omitted" if len(kw) < 3 else "explicit"))
    sels = gen_selections(rng, labels) if rng.random() < 0.4 else {}
    thr_arg = thr[0] if scalar else thr
    desc = {"fn": "flip_flop_index_proportion_exceeding", "data": gens.da_repr(da), "sampling_dim": sd, "thresholds": thr_arg, "is_angular": angular,
            "reduce_dims": rd, "preserve_dims": pd, "selections": sels, "exponent_of_two": e, "keywords_passed": sorted(kw)}
    impl = core.call_impl(ff.flip_flop_index_proportion_exceeding, da, sd, thr_arg, **kw, **sels)
    el, es = enc_sels(labels, sels)
    m = ctx.model("c18_prop_exc", enc_list([enc_data(da, sd), enc_str(sd), enc_nums(thr), enc_bool(angular), enc_dimspec(rd), enc_dimspec(pd), el, es]))
    if scalar and not core.is_err(m):
        m = [drop_threshold(t) for t in m]
    # model-free: a non-decreasing threshold list without NaN (a repeated finite value included) / a plain number is inside
    # the domain: with everything reduced and every selected label present the call must return
    valid_thr = all(b - a >= 0 for a, b in zip(thr, thr[1:])) and not any(np.isnan(thr))
    if (impl[0] != "ok" and valid_thr and base[0] == "ok" and rd is None and pd is None
            and all(x in labels for lab in sels.values() for x in lab)):
        ctx.violation("flip_flop_index_proportion_exceeding raises on thresholds that are non-decreasing (a repeated value / a plain number "
                      "is valid; data may have dimensions of length 1)", desc, "the proportion for each threshold", impl[1])
    if scalar and impl[0] == "ok":
        scalar_vs_list(ctx, ff, da, sd, thr[0], kw, sels, impl[1], desc)
    if sels:
        ok, why = core.compare_dataset(impl, m, list(sels))
    else:
        ok, why = core.compare_result(impl, m if core.is_err(m) else m[0])
    ctx.count("prop:" + ("ok" if impl[0] == "ok" else impl[1]))
    ctx.case(desc, impl[0] == "ok")
    if i < 1:
        ctx.sample(desc)
    if not ok:
        ctx.tie_fail("flip_flop_index_proportion_exceeding vs model: " + why, desc, str(impl[1])[:300], str(m)[:300])
    # property: with everything reduced, the proportion is the fraction of valid index values >= threshold
    if impl[0] == "ok" and not sels and base[0] == "ok" and rd is None and pd is None:
        flat = [float(v) for v in np.asarray(base[1].values, float).ravel()]
        for k, t in enumerate(thr):
            spec = core.dec_num(ctx.model("c18_prop_spec", enc_list([enc_nums(flat), enc_num(t)])))
            want_dims = () if scalar else ("threshold",)
            if tuple(impl[1].dims) != want_dims:
                ctx.violation("proportion exceeding with everything reduced: wrong result dimensions", desc, list(want_dims), list(impl[1].dims))
                break
            got = float((impl[1] if scalar else impl[1].isel(threshold=k)).values.ravel()[0])
            ctx.count("prop:spec")
            if not core.close(got, spec):
                ctx.violation("proportion exceeding differs from the fraction of valid indices >= threshold",
                              dict(desc, index_values=flat, threshold=t), str(spec), got)
            if np.isinf(t) and any(np.isfinite(flat)) and not any(np.isinf(flat)) and got != (1.0 if t < 0 else 0.0):
                ctx.violation("proportion exceeding an infinite threshold: must be 1 at -inf and 0 at +inf whenever a valid index exists",
                              dict(desc, index_values=flat, threshold=t), 1.0 if t < 0 else 0.0, got)


def _num(x):
    if isinstance(x, str):
        return float("nan") if x == "nan" else (float("inf") if x == "inf" else (float("-inf") if x == "-inf" else float(Fraction(x))))
    return float(x)


def replay(ctx, obj):
    """re-evaluate the recorded failing input(s) of a replay file on the current tree"""
    import random
    ff = S()
    rng = random.Random(0)
    vs = obj.get("all_violations") or ([obj["violation"]] if "violation" in obj else [])
    vs = vs + [c for c in (obj.get("no_longer_checks") or {}).get("correspondence", []) if "case" in c]
    for v in vs:
        c = v["case"]
        if isinstance(c, dict) and "unscaled" in c:
            # magnitude stream: the dyadic series, its power of two and every non-dyadic factor
            extra = [_num(c["factor"])] if "factor" in c else []
            magnitude_seq(ctx, ff, [_num(x) for x in c["unscaled"]], int(c.get("exponent_of_two", 0)), rng, factors=FACTORS + extra)
        elif isinstance(c, dict) and "values" in c and "k" in c and "c" not in c:
            magnitude_seq(ctx, ff, [_num(x) for x in c["values"]], 0, rng, factors=FACTORS + [_num(c["k"])])
        elif isinstance(c, dict) and "values" in c:
            vals = [_num(x) for x in c["values"]]
            seq_level(ctx, ff, vals, "replay")
            if all(np.isfinite(vals)):
                if "rotation" in c:
                    rotation(ctx, ff, vals, rng, rot=_num(c["rotation"]))
                if "c" in c:
                    invariances(ctx, ff, vals, rng, c=_num(c["c"]), k=_num(c["k"]))
        else:
            ctx.note("replay: case kind not replayable individually; running the full check instead")
            run(ctx)
            return


def kernel_sweeps(ctx):
    """regenerated kernels on their full tie grids: angular_difference (S1) and the >= comparison (C18.exceed)"""
    import scores.functions as F
    from scores.processing.discretise import comparative_discretise
    angles = [Fraction(45 * k, 2) for k in range(-20, 37)]                 # -450 .. 810 in 22.5-degree steps: differences hit 0, 180, 360, 540
    base = [Fraction(0), Fraction(45, 2), Fraction(180), Fraction(725, 2)]
    for a in base:
        for b in angles:
            gen = core.dec_num(ctx.model("k_angular_difference", enc_list([enc_num(a), enc_num(b)])))
            impl = float(F.angular_difference(xr.DataArray([float(a)]), xr.DataArray([float(b)])).values[0])
            d = abs(a - b) % 360
            spec = d if d <= 180 else 360 - d
            ctx.case(("kang", a, b))
            if not core.close(impl, spec):
                ctx.violation("angular_difference differs from min(|a-b| mod 360, 360 - |a-b| mod 360)", {"a": a, "b": b}, spec, impl)
            if not core.close(impl, gen):
                ctx.tie_fail("gen_angular_difference vs implementation", {"a": a, "b": b}, impl, str(gen))
    grid = [NAN, -INF, INF] + [float(Fraction(k, 2)) for k in range(-3, 4)]
    for x in grid:
        for t in grid:
            gen = core.dec_num(ctx.model("c18_k_exceed", enc_list([enc_num(x), enc_num(t)])))
            impl = float(comparative_discretise(xr.DataArray([x]), float(t), ">=").values[0])
            spec = NAN if (np.isnan(x) or np.isnan(t)) else (1.0 if x >= t else 0.0)
            ctx.case(("kexc", x, t))
            if np.isinf(x) or np.isinf(t):
                ctx.count("kernel:exceed:infinite")
            if not core.close(impl, spec):
                ctx.violation("comparative_discretise(>=) differs from 1{x >= t} with NaN preserved (only NaN is missing: an infinite value or "
                              "threshold compares as usual)", {"x": x, "t": t}, spec, impl)
            if not core.close(impl, gen):
                ctx.tie_fail("gen_c18_exceed vs implementation", {"x": x, "t": t}, impl, str(gen))
    ctx.count("kernel_grid_points", 4 * len(angles) + len(grid) ** 2)


def run(ctx):
    ff = S()
    rng = ctx.rng
    known_cases(ctx, ff)
    kernel_sweeps(ctx)
    # exhaustive small angle sets on a 45-degree grid: every multiset of 1..4 directions (ties between gaps, 180 gaps)
    grid = [45.0 * k for k in range(8)]
    import itertools
    for n in (1, 2, 3, 4):
        for combo in itertools.product(range(8), repeat=n):
            if combo[0] != 0 and n > 2 and ctx.tier != "thorough":
                continue
            seq_level(ctx, ff, [grid[k] for k in combo], "grid45")
    ctx.count("grid45_sequences", ctx.evaluations)
    if ctx.tier == "thorough":
        ctx.exhaustive = True          # every sequence of 1-4 directions on the 45-degree grid was enumerated
        ctx.note("exhaustive: all 8 + 64 + 512 + 4096 sequences of 1-4 directions on the 45-degree grid (model, implementation and specifications agree)")
    for i in range(ctx.n(500, 16000)):
        if not ctx.time_left():
            break
        angular = rng.random() < 0.5
        vals = gen_seq(rng, None, angular, nan_p=0.15 if rng.random() < 0.25 else 0.0)
        if rng.random() < 0.03:
            vals[rng.randrange(len(vals))] = float("inf") * rng.choice([1, -1])
        seq_level(ctx, ff, vals, "angular" if angular else "linear")
        ctx.count("seq:" + ("angular" if angular else "linear"))
        if any(np.isnan(vals)):
            ctx.count("seq:with_nan")
        if i < 2:
            ctx.sample({"values": vals})
        if all(np.isfinite(vals)):
            if angular:
                rotation(ctx, ff, vals, rng)
            else:
                invariances(ctx, ff, vals, rng)
    oracle_stream(ctx, ff, rng, ctx.n(60, 1500), ctx.n(25, 400))
    magnitude_stream(ctx, ff, rng, ctx.n(160, 4000), ctx.n(60, 1500))
    for i in range(ctx.n(250, 8000)):
        if not ctx.time_left():
            break
        array_level(ctx, ff, rng, i)
    for i in range(ctx.n(160, 5000)):
        if not ctx.time_left():
            break
        sector_level(ctx, ff, rng, i)
    for i in range(ctx.n(200, 6000)):
        if not ctx.time_left():
            break
        prop_level(ctx, ff, rng, i)


def oracle_stream(ctx, ff, rng, nseq, narr):
    """model-free predicates: integer storage dtypes, and arrays with the sampling dimension in every position"""
    for _ in range(nseq):
        if not ctx.time_left():
            break
        dtype = rng.choice(INT_DTYPES)
        seq_oracle(ctx, ff, int_seq(rng), dtype)
        ctx.count("seq:int-dtype:" + dtype)
    for _ in range(narr):
        if not ctx.time_left():
            break
        array_oracle(ctx, ff, rng)
        ctx.count("array_oracle")


def run_without_model(ctx):
    """used when the extracted model does not build against the current source: oracles and relations between public calls only"""
    ff = S()
    rng = ctx.rng
    known_cases(ctx, ff)
    for i in range(ctx.n(400, 6000)):
        if not ctx.time_left():
            break
        angular = rng.random() < 0.5
        vals = gen_seq(rng, None, angular, nan_p=0.15 if rng.random() < 0.25 else 0.0)
        seq_oracle(ctx, ff, vals)
        if all(np.isfinite(vals)):
            if angular:
                rotation(ctx, ff, vals, rng)
            else:
                invariances(ctx, ff, vals, rng)
    oracle_stream(ctx, ff, rng, ctx.n(100, 2000), ctx.n(60, 600))
    magnitude_stream(ctx, ff, rng, ctx.n(250, 5000), ctx.n(100, 2000), model=False)
