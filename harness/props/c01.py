"""C01 -- every score reduces exactly the dimensions asked for, and nothing else."""
import itertools

import core
import gens
import scorelib
from core import enc_dimspec, enc_list, enc_opt, enc_str
from scorelib import REGISTRY

ID = "C01"
LEVEL = "proof"
LEVEL_TEXT = ("Coq theorems about the line-by-line model of gather_dimensions (both options -> ValueError, absent name -> ValueError, "
              "None = 'all', string = singleton, reduce=R = preserve=all-R for every R, score-specific dims excluded) and about the "
              "reduction functional (result dims, reduced value = NaN-skipping mean of the pointwise result), for arbitrary lists of "
              "names; the model is tied to the code by an exhaustive correspondence of the rule over a small universe of names and by "
              "running every registered public function under every subset x spelling of the request.")
LEVEL_NOTE = ("gather model and the Larr reduction functional are hand models (correspondence-checked); 'data dimensions' are the dims a "
              "function forwards to the rule (fcst u obs, plus weights where it passes weights_dims); a weights-only dimension elsewhere "
              "is the documented pass-through of apply_weights and is only required to behave consistently")
TECHNIQUE = "Coq proof about the dimension-rule model + exhaustive/sampled correspondence with gather_dimensions and all public functions"
TIE_IS_SPEC = True
SITES = ["C01.plumb.mse", "C01.plumb.mae", "C01.plumb.additive_bias", "C01.plumb.multiplicative_bias", "C01.plumb.pbias", "C01.plumb.quantile_score",
         "C01.plumb.quantile_interval_score", "C01.plumb.consistent_expectile_score", "C01.plumb.consistent_huber_score",
         "C01.plumb.consistent_quantile_score", "C01.plumb.crps_for_ensemble", "C01.plumb.brier_score_for_ensemble", "C01.plumb.murphy_score",
         "C01.plumb.firm", "C01.plumb.probability_of_detection", "C01.plumb.probability_of_false_detection", "C01.plumb.crps_cdf", "C01.plumb.crps_cdf_brier_decomposition", "C01.plumb.risk_matrix_score", "C01.plumb.contingency_counts",
         "C01.plumb.pearsonr", "C01.plumb.kge"]
RULE = ("rule: every configuration (fcst dims, obs dims, weights dims|None, reduce, preserve, score-specific) over a universe of names, "
        "requests in every spelling (None, 'all', bare string, list incl. empty, absent name, both options); public functions: random "
        "labelled arrays x every subset R of the data dims x spellings. distinct = distinct configuration / call; non-trivial = the "
        "rule returns a set (not an error) or the call returns a value")


# counters that every complete run must have incremented (harness self-check, see core.run_check)
EXPECT_COUNTS = ['fn:', 'recipe:', 'manager_multistep', 'gather_exhaustive_configs', 'gather_sampled', 'gather_after_calls', 'weights_with_own_dim']

def utils():
    import scores.utils as U
    return U


def subsets(U):
    return [list(c) for r in range(len(U) + 1) for c in itertools.combinations(U, r)]


def spec_choices(U):
    return [None, "all"] + list(U) + subsets(U)


def enc_names(l):
    return enc_list([enc_str(x) for x in l])


def check_gather(ctx, f, o, w, rd, pd, sp):
    U = utils()
    kw = {}
    if w is not None:
        kw["weights_dims"] = w
    if rd is not None:
        kw["reduce_dims"] = rd
    if pd is not None:
        kw["preserve_dims"] = pd
    if sp is not None:
        kw["score_specific_fcst_dims"] = sp
    impl = core.call_impl(U.gather_dimensions, f, o, **kw)
    m = ctx.model("gather", enc_list([enc_names(f), enc_names(o), enc_opt(w, enc_names), enc_dimspec(rd), enc_dimspec(pd), enc_dimspec(sp)]))
    if core.is_err(m):
        ok = impl[0] == "err" and impl[1] == m
    else:
        ok = impl[0] == "ok" and set(impl[1]) == {core.dec_str(x) for x in m}
    ctx.case(("g", tuple(f), tuple(o), None if w is None else tuple(w), repr(rd), repr(pd), repr(sp)), impl[0] == "ok")
    if not ok:
        ctx.tie_fail("gather_dimensions vs model", {"fcst": f, "obs": o, "weights": w, "reduce": rd, "preserve": pd, "specific": sp},
                     str(impl[1]), str(m))
    return impl


def gather_sweep(ctx):
    rng = ctx.rng
    # exhaustive over a 2-name universe (+ absent name 'z') in quick, 3-name in thorough
    U = ["a", "b"] if ctx.tier == "quick" else ["a", "b", "c"]
    reqs = spec_choices(U + ["z"])
    n = 0
    complete = True
    for f in subsets(U):
        for o in subsets(U):
            if not ctx.time_left():
                complete = False
                break
            for w in [None] + subsets(U):
                for rd in reqs:
                    for pd in (reqs if rd is None else [None, "all", U[:1]]):
                        for sp in (None, [U[0]], U[0], [U[-1]], U):
                            check_gather(ctx, f, o, w, rd, pd, sp)
                            n += 1
    ctx.count("gather_exhaustive_configs", n)
    ctx.exhaustive = complete
    ctx.note(f"gather rule enumerated exhaustively over the universe {U} + absent name 'z' ({n} configurations, complete={complete})")
    # sampled over a 4-name universe with absent names, 'all', empty string and empty lists
    U4 = ["a", "b", "c", "d"]
    pool = ["all", "", "z"] + U4

    def pick():
        return [x for x in U4 if rng.random() < 0.5]

    def req():
        r = rng.random()
        if r < 0.35:
            return None
        if r < 0.55:
            return rng.choice(pool)
        l = pick()
        if rng.random() < 0.1:
            l = l + ["z"]
        return l
    for _ in range(ctx.n(3000, 60000)):
        if not ctx.time_left():
            break
        check_gather(ctx, pick(), pick(), None if rng.random() < 0.4 else pick(), req(), req() if rng.random() < 0.5 else None,
                     None if rng.random() < 0.5 else (rng.choice(U4) if rng.random() < 0.5 else pick()))
        ctx.count("gather_sampled")


def public_functions(ctx, names=None):
    rng = ctx.rng
    names = names or list(REGISTRY)
    for it in range(ctx.n(8, 60)):
        for name in names:
            if not ctx.time_left():
                return
            fn = REGISTRY[name]
            arrs, w, sizes = scorelib.gen_arrays(rng, fn, nan_p=0.1 if rng.random() < 0.5 else 0.0)
            extra = fn.gen_extra(rng)
            dd = scorelib.data_dims(fn, arrs)
            alld = list(dd) + ([d for d in w.dims if d not in dd] if w is not None else [])

            def call(rd, pd):
                return core.call_impl(fn.impl, arrs, extra, rd, pd, w)
            desc0 = fn.describe(arrs, extra, None, None, w)
            ctx.count("fn:" + name)
            # tie of the default call through the model
            impl, m, ok, why = fn.run(ctx, arrs, extra, None, None, w)
            if not ok:
                ctx.tie_fail(name + " vs model (default dims): " + why, desc0, str(impl[1])[:200], str(m)[:200])
            base_all = call("all", None)
            ok, why = scorelib.same_result(call(None, None), base_all)
            ctx.case((name, "none=all", desc0))
            if not ok:
                ctx.violation(f"{name}: omitting both options differs from reduce_dims='all': {why}", desc0, "equal results", why)
            pw = call(None, "all")
            for R in gens.subsets(dd):
                P = [d for d in dd if d not in R]
                a = call(R, None)
                b = call(None, P)
                ctx.case((name, "R", tuple(R), desc0))
                ok, why = scorelib.same_result(a, b)
                if not ok:
                    ctx.violation(f"{name}: reduce_dims={R} differs from preserve_dims={P}: {why}", dict(desc0, R=R), "identical values", why)
                if a[0] == "ok":
                    got = set(a[1].dims)
                    want = set(alld) - set(R)
                    if got != want:
                        ctx.violation(f"{name}: result dims {sorted(got)} but data dims minus reduced = {sorted(want)}", dict(desc0, R=R), sorted(want), sorted(got))
                    # mean-type: reduced value = NaN-skipping mean of the pointwise result
                    if fn.kind == "mean" and pw[0] == "ok" and R and name != "rmse":
                        mean_pw = pw[1].mean(dim=R)
                        ok, why = scorelib.same_value(a[1], mean_pw)
                        if not ok:
                            ctx.violation(f"{name}: reduce_dims={R} is not the NaN-skipping mean of the preserve_dims='all' result: {why}", dict(desc0, R=R), "mean of pointwise", why)
                else:
                    ctx.violation(f"{name}: reduce_dims={R} (a subset of the data dims) raises {a[1]}", dict(desc0, R=R), "a value", a[1])
                if len(R) == 1:
                    ok, why = scorelib.same_result(call(R[0], None), a)
                    if not ok:
                        ctx.violation(f"{name}: reduce_dims='{R[0]}' differs from reduce_dims=['{R[0]}']: {why}", dict(desc0, R=R), "identical", why)
                if len(P) == 1:
                    ok, why = scorelib.same_result(call(None, P[0]), b)
                    if not ok:
                        ctx.violation(f"{name}: preserve_dims='{P[0]}' differs from preserve_dims=['{P[0]}']: {why}", dict(desc0, P=P), "identical", why)
            # errors: both options / absent name
            for rd_, pd_ in ((dd[:1], dd[:1]), (dd[:1], "all"), ("all", dd[:1]), ("all", []), ([], "all"), (dd[0], dd[0])):
                both = call(rd_, pd_)
                if both != ("err", "err:ValueError"):
                    ctx.violation(f"{name}: naming both options (reduce_dims={rd_!r}, preserve_dims={pd_!r}) does not raise ValueError",
                                  dict(desc0, reduce_dims=rd_, preserve_dims=pd_), "err:ValueError", str(both[1])[:100])
            for bad in (call(["zz"], None), call(None, ["zz"])):
                if bad != ("err", "err:ValueError"):
                    ctx.violation(f"{name}: naming a dimension that is not in the data does not raise ValueError", desc0, "err:ValueError", str(bad[1])[:100])
            if it == 0 and name in ("mse", "quantile_interval_score"):
                ctx.sample(desc0, limit=8)


def recipe_functions(ctx):
    """the same relations on ~40 public functions through call recipes (no model needed: relations between calls)"""
    import recipes
    rng = ctx.rng
    R = [rc for rc in recipes.recipes() if rc.dims_kw]
    for it in range(ctx.n(2, 12)):
        for rc in R:
            if not ctx.time_left():
                return
            xs = [recipes.mat(x) for x in rc.gen(rng)]
            if rc.obs_extra and rng.random() < 0.35:
                xs = recipes.add_obs_dim(rng, xs)
            dd = []
            for x in xs:
                for d in x.dims:
                    if d not in dd and d not in rc.nondata:
                        dd.append(d)
            # weights with a dimension of their own: a data dimension where the function forwards weights.dims to the
            # rule, a consistently surviving pass-through dimension elsewhere
            w = None
            if rc.weights and rng.random() < 0.35:
                wd = [d for d in dd if rng.random() < 0.5] + ["wx"]
                w = gens.rand_da(rng, dict({d: xs[0].sizes[d] if d in xs[0].dims else xs[1].sizes[d] for d in dd}, wx=2), dims=wd, lo=1, hi=3, shuffle=False)
                w = w.assign_coords({d: (xs[0][d] if d in xs[0].dims else xs[1][d]) for d in wd if d != "wx"})
                ctx.count("weights_with_own_dim")
                if rc.fwd_weights:
                    dd = dd + ["wx"]

            def call(rd, pd):
                kw = {}
                if rd is not None:
                    kw["reduce_dims"] = rd
                if pd is not None:
                    kw["preserve_dims"] = pd
                if w is not None:
                    kw["weights"] = w
                return core.call_impl(rc.call, xs, **kw)
            desc = {"fn": rc.name, "inputs": [gens.da_repr(x) for x in xs], "weights": gens.da_repr(w)}
            ctx.count("recipe:" + rc.name)
            if w is not None and not rc.fwd_weights and call(None, None)[0] == "err" and call(None, "all")[0] == "err":
                # the function does not accept a weights-only dimension at all (it raises for every request): out of scope
                ctx.count("weights_only_dim_unsupported:" + rc.name)
                continue
            call_first = call(None, None)
            ok, why = scorelib.same_result(call_first, call("all", None))
            ctx.case((rc.name, "none=all", desc))
            if not ok:
                ctx.violation(f"{rc.name}: omitting both options differs from reduce_dims='all': {why}", desc, "equal", why)
            subs = list(gens.subsets(dd))
            if len(subs) > 4:
                subs = [subs[0], subs[-1]] + rng.sample(subs[1:-1], 2)
            for Rr in subs:
                P = [d for d in dd if d not in Rr]
                a, b = call(Rr, None), call(None, P)
                ctx.case((rc.name, tuple(Rr), desc))
                ok, why = scorelib.same_result(a, b)
                if not ok:
                    ctx.violation(f"{rc.name}: reduce_dims={Rr} differs from preserve_dims={P}: {why}", dict(desc, R=Rr), "identical", why)
                if a[0] != "ok":
                    ctx.violation(f"{rc.name}: reduce_dims={Rr} (a subset of the data dims) raises {a[1]}", dict(desc, R=Rr), "a value", a[1])
                    continue
                rdims = set(a[1].dims)
                if rdims & set(dd) != set(dd) - set(Rr):
                    ctx.violation(f"{rc.name}: data dims in the result {sorted(rdims & set(dd))} != data dims minus reduced {sorted(set(dd) - set(Rr))}",
                                  dict(desc, R=Rr), sorted(set(dd) - set(Rr)), sorted(rdims))
                if rdims & rc.specific:
                    ctx.violation(f"{rc.name}: score-specific dimension(s) {sorted(rdims & rc.specific)} survive in the result", dict(desc, R=Rr), "none", sorted(rdims))
                if len(Rr) == 1:
                    ok, why = scorelib.same_result(call(Rr[0], None), a)
                    if not ok:
                        ctx.violation(f"{rc.name}: reduce_dims='{Rr[0]}' differs from reduce_dims=['{Rr[0]}']: {why}", dict(desc, R=Rr), "identical", why)
                if len(P) == 1:
                    ok, why = scorelib.same_result(call(None, P[0]), b)
                    if not ok:
                        ctx.violation(f"{rc.name}: preserve_dims='{P[0]}' differs from preserve_dims=['{P[0]}']: {why}", dict(desc, P=P), "identical", why)
            if dd:
                for rd_, pd_ in ((dd[:1], dd[:1]), (dd[:1], "all"), ("all", dd[:1]), ("all", []), ([], "all"), ("all", "all"), (dd[0], dd[0])):
                    both = call(rd_, pd_)
                    if both != ("err", "err:ValueError"):
                        ctx.violation(f"{rc.name}: naming both options (reduce_dims={rd_!r}, preserve_dims={pd_!r}) does not raise ValueError",
                                      dict(desc, reduce_dims=rd_, preserve_dims=pd_), "err:ValueError", str(both[1])[:100])
            for bad in (call(["zz"], None), call(None, ["zz"])):
                if bad != ("err", "err:ValueError"):
                    ctx.violation(f"{rc.name}: naming a dimension that is not in the data does not raise ValueError", desc, "err:ValueError", str(bad[1])[:100])
            # history independence: the rule is a function of the names it is given. After the public function has been
            # exercised on these inputs, gather_dimensions asked directly about the same dimension tuples must still
            # give the plain answers (a cache shared with a caller that edits the returned set in place would not)
            U = utils()
            fd, od = tuple(xs[0].dims), tuple(xs[1].dims) if len(xs) > 1 and hasattr(xs[1], "dims") else ()
            union = set(fd) | set(od)
            probes = [({}, union), ({"reduce_dims": "all"}, union), ({"preserve_dims": "all"}, set())]
            for d in list(union)[:2]:
                probes += [({"preserve_dims": [d]}, union - {d}), ({"reduce_dims": [d]}, {d}), ({"preserve_dims": d}, union - {d})]
            for kwg, want in probes:
                for rep in (tuple, list):
                    got = core.call_impl(U.gather_dimensions, rep(fd), rep(od), **kwg)
                    ctx.case((rc.name, "gather-after", fd, od, repr(kwg), rep.__name__))
                    ctx.count("gather_after_calls")
                    if got[0] != "ok" or set(got[1]) != want:
                        ctx.violation(f"gather_dimensions({list(fd)}, {list(od)}, {kwg}) asked after {rc.name} ran on arrays with these dimensions "
                                      f"returns {sorted(got[1]) if got[0] == 'ok' else got[1]}, not {sorted(want)}",
                                      dict(desc, after="the calls of this function listed in the other predicates", gather_kwargs=kwg), sorted(want), str(got[1]))
            again = call(None, None)
            ok, why = scorelib.same_result(call_first, again)
            if not ok:
                ctx.violation(f"{rc.name}: the same call gives a different result when repeated after other requests: {why}", desc, "identical", why)


def manager_multistep(ctx):
    """a request made through transform() concerns only the object it returns: the manager's own metrics keep the
    dimensions of the manager's own (default) request before and after"""
    import scores
    rng = ctx.rng
    for _ in range(ctx.n(6, 40)):
        sizes = {"a": rng.randint(2, 3), "b": rng.randint(2, 3)}
        f = gens.rand_da(rng, sizes, lo=0, hi=4, den=1, nan_p=0.1)
        o = gens.rand_da(rng, sizes, lo=0, hi=4, den=1, nan_p=0.1)
        m = scores.categorical.ThresholdEventOperator().make_contingency_manager(f, o, event_threshold=2)
        before = {k: core.call_impl(getattr(m, k)) for k in ("accuracy", "probability_of_detection", "frequency_bias")}
        keep = rng.choice(["a", "b"])
        t = core.call_impl(m.transform, preserve_dims=[keep])
        after = {k: core.call_impl(getattr(m, k)) for k in before}
        desc = {"fn": "BinaryContingencyManager multi-step", "fcst": gens.da_repr(f), "obs": gens.da_repr(o), "transform_preserve": keep}
        ctx.case(desc)
        ctx.count("manager_multistep")
        if t[0] == "ok" and set(t[1].accuracy().dims) != {keep}:
            ctx.violation(f"transform(preserve_dims=['{keep}']).accuracy() has dims {t[1].accuracy().dims}", desc, [keep], list(t[1].accuracy().dims))
        for k in before:
            ok, why = scorelib.same_result(before[k], after[k])
            if not ok:
                ctx.violation(f"manager.{k}() changes after an unrelated manager.transform(preserve_dims=['{keep}']) call: {why}", desc, "unchanged", why)


def run(ctx):
    public_functions(ctx)
    recipe_functions(ctx)
    manager_multistep(ctx)
    gather_sweep(ctx)


def run_without_model(ctx):
    """used when the extracted model does not build against the current source: relations between public calls only"""
    recipe_functions(ctx)
    manager_multistep(ctx)
