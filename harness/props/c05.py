"""C05 -- point and interval scores equal their textbook definitions."""
from fractions import Fraction

import numpy as np
import xarray as xr

import core
import gens
from core import enc_arr, enc_dimspec, enc_list, enc_num, enc_opt

ID = "C05"
LEVEL = "proof"
LEVEL_TEXT = ("Coq theorems, for all rational inputs, that the kernels regenerated from the current source equal the textbook formulas "
              "(pinball, interval/quantile-interval, squared/absolute error, angular difference) and that the list-level mean/variance/"
              "covariance identities hold; the plumbing around the kernels (dims rule, weights, NaN-skipping mean) is a hand model tied by "
              "a correspondence check on every run. Proof is the right level because the decisive inputs are ties and boundaries no sample hits.")
LEVEL_NOTE = ("trusted: translator + Xval semantics (validated by correspondence), extraction, harness; sqrt and correlation are evaluated by "
              "the host on the model's exact rational arguments; binary64 rounding is not modelled (tolerance 1e-9)")
TECHNIQUE = "Coq proof over translator-regenerated kernels + extracted-model correspondence check"
SITES = ["S1", "S2", "S2g"]
RULE = ("structured random cases: 1-3 named dims of size 1-3, obs/weights on random subsets of the forecast dims, coordinates "
        "stored in shuffled order, values on the dyadic grid k/4 (|k|<=32) so fcst==obs ties are frequent, NaN injected with p=0.15, "
        "request spelling drawn from {None,'all',bare string,list,reduce/preserve,both,absent}; a case is distinct by the hash of "
        "(function, inputs, request) and non-trivial when at least one valid (non-NaN) forecast case exists")
ASSUMPTIONS = ["sqrt / correlation are applied by the host to the model's exact rational arguments"]


def scores():
    import scores as S
    return S


def gen_case(ctx, allow_bad=True):
    rng = ctx.rng
    sizes = gens.rand_sizes(rng)
    fcst = gens.rand_da(rng, sizes, nan_p=0.15 if rng.random() < 0.5 else 0.0)
    odims = gens.sub_dims(rng, sizes, p_drop=0.25)
    obs = gens.rand_da(rng, sizes, dims=odims, nan_p=0.15 if rng.random() < 0.4 else 0.0)
    if rng.random() < 0.5:
        obs = gens.force_ties(rng, fcst, obs)
    w = None
    if rng.random() < 0.4:
        wd = gens.sub_dims(rng, sizes, p_drop=0.4)
        w = gens.rand_da(rng, sizes, dims=wd, lo=0, hi=3, nan_p=0.1 if rng.random() < 0.3 else 0.0)
    rd, pd = gens.rand_dimspec(rng, list(sizes), allow_bad=allow_bad)
    return fcst, obs, w, rd, pd


def run(ctx):
    S = scores()
    rng = ctx.rng
    # ---- kernel level: regenerated kernel vs proved specification vs implementation, full tie grid ----
    grid = [Fraction(k, 2) for k in range(-3, 4)]
    alphas = [Fraction(1, 4), Fraction(1, 2), Fraction(7, 10)]
    for a in alphas:
        for f in grid:
            for o in grid:
                gen, spec = core.dec_nums(ctx.model("k_quantile_score", enc_list([enc_num(f), enc_num(o), enc_num(a)])))
                impl = float(S.continuous.quantile_score(xr.DataArray([float(f)], dims="x"), xr.DataArray([float(o)], dims="x"), float(a)))
                ctx.case(("kq", a, f, o))
                if not core.close(impl, spec):
                    ctx.violation("quantile_score differs from the pinball loss", {"alpha": a, "fcst": f, "obs": o}, spec, impl)
                if not core.close(impl, gen):
                    ctx.tie_fail("gen_quantile_score vs implementation", {"alpha": a, "fcst": f, "obs": o}, impl, gen)
    ctx.count("kernel_grid_points", len(alphas) * len(grid) ** 2)
    # ---- full function: implementation vs model (plumbing + kernel) ----
    for i in range(ctx.n(150, 1500)):
        if not ctx.time_left():
            break
        fcst, obs, w, rd, pd = gen_case(ctx)
        alpha = rng.choice([Fraction(1, 4), Fraction(1, 2), Fraction(3, 4), Fraction(1, 10), Fraction(0), Fraction(1), Fraction(-1, 2), Fraction(3, 2)]
                           if rng.random() < 0.2 else [Fraction(1, 4), Fraction(1, 2), Fraction(3, 4), Fraction(1, 10)])
        kw = {}
        if rd is not None:
            kw["reduce_dims"] = rd
        if pd is not None:
            kw["preserve_dims"] = pd
        if w is not None:
            kw["weights"] = w
        impl = core.call_impl(S.continuous.quantile_score, fcst, obs, float(alpha), **kw)
        m = ctx.model("quantile_score", enc_list([enc_arr(fcst), enc_arr(obs), enc_num(alpha), enc_dimspec(rd), enc_dimspec(pd), enc_opt(w, enc_arr)]))
        ok, why = core.compare_result(impl, m)
        desc = {"fn": "quantile_score", "fcst": gens.da_repr(fcst), "obs": gens.da_repr(obs), "alpha": alpha, "reduce_dims": rd, "preserve_dims": pd,
                "weights": gens.da_repr(w)}
        nontrivial = impl[0] == "ok" and bool(np.isfinite(np.asarray(impl[1])).any())
        ctx.case(desc, nontrivial)
        ctx.count("ok" if impl[0] == "ok" else impl[1])
        ctx.count("spelling:" + ("none" if rd is None and pd is None else type(rd if rd is not None else pd).__name__))
        if i < 2:
            ctx.sample(desc)
        if not ok:
            ctx.tie_fail("quantile_score vs model: " + why, desc, str(impl[1])[:300], str(m)[:300])
