"""C05 -- point and interval scores equal their textbook definitions."""
from fractions import Fraction

import numpy as np
import xarray as xr

import core
import gens
from core import enc_arr, enc_dimspec, enc_list, enc_num, enc_opt

ID = "C05"
LEVEL = "proof"
LEVEL_TEXT = ("Coq theorems, for all rational inputs, that the kernels regenerated from the current source equal the textbook formulas "
              "(pinball, interval/quantile-interval, squared/absolute error, angular difference) and that the list-level mean/variance/"
              "covariance identities hold; the plumbing around the kernels (dims rule, weights, NaN-skipping mean) is a hand model tied by "
              "a correspondence check on every run. Proof is the right level because the decisive inputs are ties and boundaries no sample hits.")
LEVEL_NOTE = ("trusted: translator + Xval semantics (validated by correspondence), extraction, harness; sqrt and correlation are evaluated by "
              "the host on the model's exact rational arguments; binary64 rounding is not modelled (tolerance 1e-9)")
TECHNIQUE = "Coq proof over translator-regenerated kernels + extracted-model correspondence check"
TIE_IS_SPEC = True
SITES = ["S1", "S2", "S2g"]
RULE = ("structured random cases: 1-3 named dims of size 1-3, obs/weights on random subsets of the forecast dims, coordinates "
        "stored in shuffled order, values on the dyadic grid k/4 (|k|<=32) so fcst==obs ties are frequent, NaN injected with p=0.15, "
        "request spelling drawn from {None,'all',bare string,list,reduce/preserve,both,absent}; a case is distinct by the hash of "
        "(function, inputs, request) and non-trivial when at least one valid (non-NaN) forecast case exists")
ASSUMPTIONS = ["sqrt / correlation are applied by the host to the model's exact rational arguments"]


import scorelib
from scorelib import REGISTRY

C05_FUNCS = ["quantile_score", "quantile_interval_score", "interval_score", "mse", "mae", "rmse", "additive_bias", "mean_error",
             "multiplicative_bias", "pbias", "pearsonr", "kge"]


# counters that every complete run must have incremented (harness self-check, see core.run_check)
EXPECT_COUNTS = ['pinball_grid_points', 'interval_grid_points', 'angular_grid_points', 'conditioning', 'infinite_values', 'label_oracle', 'label_oracle:obs_source_dim', 'label_oracle:weights', 'pandas:']

def kernel_grids(ctx):
    """regenerated kernel vs proved specification vs implementation on the full tie grid"""
    S = scorelib.S()
    grid = [Fraction(k, 2) for k in range(-3, 4)]
    for a in [Fraction(1, 4), Fraction(1, 2), Fraction(7, 10)]:
        for f in grid:
            for o in grid:
                gen, spec = core.dec_nums(ctx.model("k_quantile_score", enc_list([enc_num(f), enc_num(o), enc_num(a)])))
                impl = float(S.continuous.quantile_score(xr.DataArray([float(f)], dims="x"), xr.DataArray([float(o)], dims="x"), float(a)))
                ctx.case(("kq", a, f, o))
                if not core.close(impl, spec):
                    ctx.violation("quantile_score differs from the pinball loss", {"alpha": a, "fcst": f, "obs": o}, spec, impl)
                if not core.close(impl, gen):
                    ctx.tie_fail("gen_quantile_score vs implementation", {"alpha": a, "fcst": f, "obs": o}, impl, gen)
    ctx.count("pinball_grid_points", 3 * len(grid) ** 2)
    # interval kernel: lower <= upper, observation on / inside / outside the interval
    pts = [Fraction(k, 2) for k in range(-2, 5)]
    n = 0
    for ll, ul in [(Fraction(1, 10), Fraction(9, 10)), (Fraction(1, 4), Fraction(1, 2))]:
        for lo in pts[:4]:
            for hi in [h for h in pts if h >= lo][:4]:
                for y in pts:
                    gen, spec = ctx.model("k_qis", enc_list([enc_num(lo), enc_num(hi), enc_num(y), enc_num(ll), enc_num(ul)]))
                    gen, spec = core.dec_nums(gen), core.dec_nums(spec)
                    da = lambda v: xr.DataArray([float(v)], dims="x")  # noqa: E731
                    rr = core.call_impl(S.continuous.quantile_interval_score, da(lo), da(hi), da(y), float(ll), float(ul), preserve_dims="all")
                    if rr[0] != "ok":
                        ctx.violation(f"quantile_interval_score rejects a valid (lower <= upper) interval with {rr[1]}",
                                      {"lower": lo, "upper": hi, "obs": y, "levels": [ll, ul]}, spec, rr[1])
                        continue
                    r = rr[1]
                    impl = [float(r[v].values.ravel()[0]) for v in scorelib.QIS_VARS]
                    n += 1
                    ctx.case(("kqis", ll, ul, lo, hi, y))
                    if not core.close_list(impl, spec):
                        ctx.violation("quantile_interval_score differs from width + scaled penalties",
                                      {"lower": lo, "upper": hi, "obs": y, "levels": [ll, ul]}, spec, impl)
                    if not core.close_list(impl, gen):
                        ctx.tie_fail("gen_qis vs implementation", {"lower": lo, "upper": hi, "obs": y, "levels": [ll, ul]}, impl, gen)
    ctx.count("interval_grid_points", n)
    # a missing input makes every component missing (the proved specification has no value there)
    nanf = float("nan")
    for lo, hi, y in [(nanf, 1.0, 0.5), (0.0, nanf, 0.5), (0.0, 1.0, nanf), (0.0, nanf, nanf)]:
        da = lambda v: xr.DataArray([v], dims="x")  # noqa: E731
        for agg in ({"preserve_dims": "all"}, {}):
            r = S.continuous.quantile_interval_score(da(lo), da(hi), da(y), 0.1, 0.9, **agg)
            impl = [float(r[v].values.ravel()[0]) for v in scorelib.QIS_VARS]
            ctx.case(("kqis-nan", str(lo), str(hi), str(y), bool(agg)))
            if not all(np.isnan(impl)):
                ctx.violation("quantile_interval_score scores a case with a missing input", {"lower": lo, "upper": hi, "obs": y, "kw": agg}, "NaN in every component", impl)
    # angular difference: distance from a - b to the nearest multiple of 360 (proved: C05_angular_is_nearest_turn + range)
    angs = [Fraction(45 * k, 2) for k in range(-36, 37, 3)]
    m = 0
    for a in angs:
        for b in angs[::2]:
            d = a - b
            spec = min(abs(d - 360 * k) for k in range(-6, 7))
            impl = float(S.functions.angular_difference(xr.DataArray([float(a)], dims="x"), xr.DataArray([float(b)], dims="x")).values[0])
            gen = core.dec_num(ctx.model("k_angular_difference", enc_list([enc_num(a), enc_num(b)])))
            via_mae = float(S.continuous.mae(xr.DataArray([float(a)], dims="x"), xr.DataArray([float(b)], dims="x"), is_angular=True))
            ctx.case(("kang", a, b))
            m += 1
            if not core.close(impl, spec) or not core.close(via_mae, spec):
                ctx.violation("angular difference is not the distance to the nearest full turn (range [0,180], 360-periodic)",
                              {"a": a, "b": b}, spec, [impl, via_mae])
            if not core.close(impl, gen):
                ctx.tie_fail("gen_angular_difference vs implementation", {"a": a, "b": b}, impl, gen)
    ctx.count("angular_grid_points", m)


def run(ctx):
    rng = ctx.rng
    kernel_grids(ctx)
    per_fn = ctx.n(25, 250)
    for name in C05_FUNCS:
        fn = REGISTRY[name]
        for i in range(per_fn):
            if not ctx.time_left():
                break
            angles = getattr(fn, "has_angular", False) and rng.random() < 0.3
            # infinite values are data, not missing values; rmse (sqrt on the host) and the moment scores (inf - inf inside the
            # documented formula) are left to finite inputs
            arrs, w, sizes = scorelib.gen_arrays(rng, fn, angles=angles, inf_p=0.0 if (name == "rmse" or fn.kind == "moments") else 0.2)
            if any(np.isinf(a.values).any() for a in arrs):
                ctx.count("infinite_values")
            bad = rng.random() < 0.1
            extra = fn.gen_extra(rng, bad=bad)
            if angles:
                extra["is_angular"] = True
            rd, pd = gens.rand_dimspec(rng, list(sizes), allow_bad=True)
            impl, m, ok, why = fn.run(ctx, arrs, extra, rd, pd, w)
            desc = fn.describe(arrs, extra, rd, pd, w)
            ctx.case(desc, impl[0] == "ok")
            ctx.count(name + ":" + ("ok" if impl[0] == "ok" else impl[1]))
            if i == 0:
                ctx.sample(desc, limit=12)
            if not ok:
                ctx.tie_fail(name + " vs model: " + why, desc, str(impl[1])[:300], str(m)[:300])
    relations(ctx)
    conditioning(ctx)
    label_oracle(ctx)
    pandas_api(ctx)


def conditioning(ctx):
    """the documented formula "evaluated in exact arithmetic": series with a large common offset (temperatures in K,
    pressures in Pa: |mean| / std up to 1e6) against an independent exact oracle in Python rationals. A formula that is
    algebraically equal but cancels (E[x^2] - E[x]^2) departs from the exact value by ~1e-4 here; the two-pass formulas stay
    within ~1e-10."""
    from fractions import Fraction as Fr
    import math
    S = scorelib.S()
    rng = ctx.rng

    def fmean(l):
        return sum(l) / len(l)

    for _ in range(ctx.n(12, 120)):
        n = rng.randint(3, 8)
        K = rng.choice([10000.0, 101325.0, 1e6, float(2 ** 20), 273.0])
        xf = [K + gens.grid_value(rng) for _ in range(n)]
        xo = [K + gens.grid_value(rng) for _ in range(n)]
        if len(set(xf)) < 2 or len(set(xo)) < 2:
            continue
        F, O = [Fr(v) for v in xf], [Fr(v) for v in xo]
        mf, mo = fmean(F), fmean(O)
        vf, vo = fmean([(a - mf) ** 2 for a in F]), fmean([(b - mo) ** 2 for b in O])
        cov = fmean([(a - mf) * (b - mo) for a, b in zip(F, O)])
        rho = float(cov) / math.sqrt(float(vf) * float(vo))
        alpha = math.sqrt(float(vf / vo))
        beta = float(mf / mo)
        want = {"rho": rho, "alpha": alpha, "beta": beta, "kge": 1 - math.sqrt((rho - 1) ** 2 + (alpha - 1) ** 2 + (beta - 1) ** 2)}
        f, o = xr.DataArray(xf, dims="t"), xr.DataArray(xo, dims="t")
        desc = {"fcst": xf, "obs": xo, "offset": K}
        ctx.case(("conditioning", tuple(xf), tuple(xo)))
        ctx.count("conditioning")
        k = core.call_impl(S.continuous.kge, f, o, include_components=True)
        if k[0] != "ok":
            ctx.violation(f"kge raises {k[1]} on a series with a large offset", desc, "values", k[1])
        else:
            for v, w_ in want.items():
                got = float(k[1][v])
                if not abs(got - w_) <= 1e-6 * max(1.0, abs(w_)):
                    ctx.violation(f"kge component {v} = {got!r} differs from the documented formula in exact arithmetic ({w_!r}) on a series with offset {K}",
                                  desc, w_, got)
        # scaling factors enter inside the squares: 1 - sqrt((s_rho (rho-1))^2 + (s_alpha (alpha-1))^2 + (s_beta (beta-1))^2)
        sc = [rng.choice([0.5, 2.0, 3.0, 0.25]) for _ in range(3)]
        ks = core.call_impl(S.continuous.kge, f, o, scaling_factors=sc)
        wk = 1 - math.sqrt((sc[0] * (rho - 1)) ** 2 + (sc[1] * (alpha - 1)) ** 2 + (sc[2] * (beta - 1)) ** 2)
        if ks[0] != "ok" or not abs(float(ks[1]) - wk) <= 1e-6 * max(1.0, abs(wk)):
            ctx.violation(f"kge with scaling_factors={sc} = {ks[1] if ks[0] != 'ok' else float(ks[1])!r} differs from the documented formula ({wk!r})", dict(desc, scaling_factors=sc), wk, str(ks[1])[:60])
        from scores.continuous.correlation import pearsonr
        r = core.call_impl(pearsonr, f, o)
        if r[0] == "ok" and not abs(float(r[1]) - rho) <= 1e-6:
            ctx.violation(f"pearsonr = {float(r[1])!r} differs from the exact correlation {rho!r} on a series with offset {K}", desc, rho, float(r[1]))
        kk = core.call_impl(S.continuous.kge, f, f)
        if kk[0] == "ok" and not abs(float(kk[1]) - 1) <= 1e-6:
            ctx.violation(f"kge(x, x) = {float(kk[1])!r}, not 1, on a series with offset {K}", {"x": xf}, 1, float(kk[1]))
        for nm, wv in (("mse", float(fmean([(a - b) ** 2 for a, b in zip(F, O)]))), ("mae", float(fmean([abs(a - b) for a, b in zip(F, O)]))),
                       ("additive_bias", float(mf - mo)), ("multiplicative_bias", float(mf / mo)), ("pbias", float(100 * (mf - mo) / mo))):
            g = core.call_impl(getattr(S.continuous, nm), f, o)
            if g[0] != "ok" or not abs(float(g[1]) - wv) <= 1e-7 * max(1.0, abs(wv)):
                ctx.violation(f"{nm} = {g[1] if g[0] != 'ok' else float(g[1])!r} differs from the exact value {wv!r} on a series with offset {K}", desc, wv, str(g[1])[:60])


def label_oracle(ctx):
    """model-free oracle: series whose observation stores the shared coordinate in another order, has labels the
    forecast lacks and (often) a dimension of its own ('src': several observation sources per forecast); optional weights
    along 't' stored in yet another order. Cases are paired by label and the documented formula is evaluated in Python
    rationals over ALL valid (forecast, observation) pairs"""
    from fractions import Fraction as Fr
    S = scorelib.S()
    C = S.continuous
    rng = ctx.rng
    for _ in range(ctx.n(30, 300)):
        n = rng.randint(2, 6)
        labs = rng.sample(range(10), n)
        fv = {l: gens.grid_value(rng) for l in labs}
        olabs = rng.sample(labs, n) if rng.random() < 0.7 else rng.sample(labs, n - 1) + [11]
        nsrc = rng.choice([0, 0, 1, 2, 3])          # 0: no source dimension
        srcs = list(range(max(nsrc, 1)))
        ov = {(s_, l): (gens.grid_value(rng) if rng.random() > 0.15 else float("nan")) for s_ in srcs for l in olabs}
        f = xr.DataArray([fv[l] for l in labs], dims="t", coords={"t": labs})
        if nsrc:
            o = xr.DataArray([[ov[(s_, l)] for l in olabs] for s_ in srcs], dims=["src", "t"], coords={"t": olabs, "src": [10 * s_ for s_ in srcs]})
            if rng.random() < 0.5:
                o = o.transpose("t", "src")
        else:
            o = xr.DataArray([ov[(0, l)] for l in olabs], dims="t", coords={"t": olabs})
        wv = None
        if rng.random() < 0.4:
            wl = rng.sample(labs, n)
            wv = {l: float(rng.choice([0.5, 1.0, 2.0, 3.0])) for l in wl}
            w = xr.DataArray([wv[l] for l in wl], dims="t", coords={"t": wl})
        pairs = [(Fr(fv[l]), Fr(ov[(s_, l)]), Fr(wv[l]) if wv else Fr(1)) for s_ in srcs for l in labs if l in olabs and ov[(s_, l)] == ov[(s_, l)]]
        alpha = rng.choice([0.1, 0.25, 0.5, 0.75])
        desc = {"fcst": gens.da_repr(f), "obs": gens.da_repr(o), "alpha": alpha, "weights": None if wv is None else gens.da_repr(w)}
        ctx.case(("label-oracle", desc["fcst"], desc["obs"], alpha, str(desc["weights"])))
        ctx.count("label_oracle" + (":obs_source_dim" if nsrc else "") + (":weights" if wv else ""))
        if not pairs:
            continue
        m = len(pairs)
        a_ = Fr(alpha)
        sf, so = sum(p[2] * p[0] for p in pairs), sum(p[2] * p[1] for p in pairs)
        want = {"mse": sum(p[2] * (p[0] - p[1]) ** 2 for p in pairs) / m, "mae": sum(p[2] * abs(p[0] - p[1]) for p in pairs) / m, "additive_bias": (sf - so) / m,
                "mean_error": (sf - so) / m,
                "quantile_score": sum(p[2] * ((1 - a_) * (p[0] - p[1]) if p[0] > p[1] else a_ * (p[1] - p[0])) for p in pairs) / m}
        if nsrc:
            del want["quantile_score"]          # quantile_score requires obs.dims to be a subset of fcst.dims (documented, check_dims)
        if so != 0:
            want["multiplicative_bias"] = sf / so
            want["pbias"] = 100 * (sf - so) / so
        kww = {} if wv is None else {"weights": w}
        for nm, wv_ in want.items():
            fn = getattr(C, nm)
            g = core.call_impl(fn, f, o, alpha=alpha, **kww) if nm == "quantile_score" else core.call_impl(fn, f, o, **kww)
            if g[0] != "ok" or np.ndim(g[1]) != 0 or not abs(float(g[1]) - float(wv_)) <= 1e-9 * max(1.0, abs(float(wv_))):
                ctx.violation(f"{nm} = {g[1] if g[0] != 'ok' else (float(g[1]) if np.ndim(g[1]) == 0 else 'an array with dims %s' % (g[1].dims,))!r} differs from the documented formula over all "
                              f"label-paired valid cases ({float(wv_)!r})", desc, float(wv_), str(g[1])[:80])
        if "mse" in want:
            g = core.call_impl(C.rmse, f, o, **kww)
            if g[0] != "ok" or not abs(float(g[1]) ** 2 - float(want["mse"])) <= 1e-9 * max(1.0, float(want["mse"])):
                ctx.violation(f"rmse^2 differs from the weighted mean squared error over all label-paired valid cases ({float(want['mse'])!r})", desc, float(want["mse"]), str(g[1])[:80])


def run_without_model(ctx):
    """the regenerated kernels do not build against the current source: oracles and relations that need no model"""
    label_oracle(ctx)
    relations(ctx)
    conditioning(ctx)
    pandas_api(ctx)


def pandas_api(ctx):
    """scores.pandas.continuous equals the xarray functions on the same values, for every option they share"""
    import pandas as pd
    from scores.pandas import continuous as PC
    S = scorelib.S()
    rng = ctx.rng
    for _ in range(ctx.n(20, 150)):
        n = rng.randint(1, 6)
        ang = rng.random() < 0.5
        mk = (lambda: float(rng.randint(-16, 32) * 22.5)) if ang else (lambda: float(gens.grid_value(rng)))
        f = [mk() for _ in range(n)]
        o = [mk() if rng.random() > 0.15 else float("nan") for _ in range(n)]
        for nm in ("mse", "rmse", "mae"):
            a = core.call_impl(getattr(PC, nm), pd.Series(f), pd.Series(o), is_angular=ang)
            b = core.call_impl(getattr(S.continuous, nm), xr.DataArray(f, dims="x"), xr.DataArray(o, dims="x"), is_angular=ang)
            ctx.case(("pandas", nm, ang, tuple(f), tuple(map(str, o))))
            ctx.count("pandas:" + nm)
            if a[0] != b[0] or (a[0] == "ok" and not np.allclose(float(a[1]), float(b[1]), rtol=1e-9, atol=1e-12, equal_nan=True)):
                ctx.violation(f"scores.pandas.continuous.{nm}(is_angular={ang}) differs from scores.continuous.{nm} on the same values",
                              {"fcst": f, "obs": o, "is_angular": ang}, str(b[1]), str(a[1]))


def relations(ctx):
    """relations between public functions that the property states (evaluated on the implementation)"""
    S = scorelib.S()
    rng = ctx.rng
    for i in range(ctx.n(30, 300)):
        arrs, w, sizes = scorelib.gen_arrays(rng, REGISTRY["mse"], nan_p=0.1, same_dims=True)
        f, o = arrs
        kw = scorelib.kw_dims(None, gens.sub_dims(rng, sizes, p_drop=0.6), w)
        ctx.case(("rel", gens.da_repr(f), gens.da_repr(o), kw.get("preserve_dims")))
        # rmse^2 = mse
        a = core.call_impl(S.continuous.rmse, f, o, **kw)
        b = core.call_impl(S.continuous.mse, f, o, **kw)
        if a[0] == "ok" and b[0] == "ok":
            if not np.allclose((a[1] ** 2).values, b[1].transpose(*a[1].dims).values, rtol=1e-9, atol=1e-12, equal_nan=True):
                ctx.violation("rmse squared differs from mse", {"fcst": gens.da_repr(f), "obs": gens.da_repr(o), "kw": str(kw)}, str(b[1].values), str((a[1] ** 2).values))
        # interval score = quantile interval score at symmetric levels
        width = abs(o - f) + 1
        ir = rng.choice([0.5, 0.25, 0.75])
        x = core.call_impl(S.continuous.interval_score, f, f + width, o, ir, **kw)
        y = core.call_impl(S.continuous.quantile_interval_score, f, f + width, o, (1 - ir) / 2, (1 + ir) / 2, **kw)
        if x[0] == "ok" and y[0] == "ok":
            for v in scorelib.QIS_VARS:
                if not np.allclose(x[1][v].values, y[1][v].values, rtol=1e-9, atol=1e-12, equal_nan=True):
                    ctx.violation("interval_score differs from quantile_interval_score at symmetric levels", {"fcst": gens.da_repr(f)}, str(y[1][v].values), str(x[1][v].values))
        # kge of a series with itself is 1 (non-degenerate series)
        g = f.where(f.notnull(), 1.0)
        k = core.call_impl(S.continuous.kge, g, g)
        if k[0] == "ok" and float(g.std()) > 0 and abs(float(g.mean())) > 0:
            if not abs(float(k[1]) - 1) < 1e-9:
                ctx.violation("kge(x, x) is not 1", {"x": gens.da_repr(g)}, 1, float(k[1]))
