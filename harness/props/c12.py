"""C12 -- FIRM and risk-matrix scores are the stated sums of fixed-risk decision penalties."""
import itertools
from fractions import Fraction

import numpy as np
import xarray as xr

import core
import gens
from core import enc_arr, enc_bool, enc_dimspec, enc_list, enc_num, enc_nums, enc_opt, enc_str

ID = "C12"
LEVEL = "proof"
LEVEL_TEXT = ("Coq theorems, for all rational inputs (ties with a threshold included), NaN and +inf / -inf forecasts, observations and thresholds, "
              "over the kernels regenerated from the current "
              "source: the FIRM single-category kernel equals the stated false-alarm / miss penalties for both threshold assignments and "
              "discount 0 / finite / inf (comparisons and distances in the extended reals; a penalty that does not apply is 0, never inf * 0), "
              "is NaN per output component exactly when an input is NaN, coincides with the regenerated Murphy "
              "quantile / Huber / expectile elementary scores, and 'upper' is 'lower' on negated data with alpha <-> 1-alpha; the risk-matrix "
              "cell and its plain double sum equal sum_ij w_ij s_j(f_i,y_i); weight matrices are attached to probabilities sorted "
              "decreasingly; the warning-scaling algorithm equals its specification when max_level >= n_prob and is refuted otherwise. "
              "Proof is the right level: correctness lives in < vs <=, a mask and a sign, on measure-zero inputs.")
LEVEL_NOTE = ("trusted: translator + Xval semantics, hand models of the sums / guards / dims rule / NaN-skipping weighted mean / Murphy NaN "
              "merge / matrix orientation / scaling algorithm (all validated against the real functions on every run), extraction, harness; "
              "binary64 rounding not modelled (tolerance 1e-9)")
TECHNIQUE = "Coq proof over translator-regenerated kernels + extracted-model correspondence check (exhaustive tie grids)"
SITES = ["C12.firm_single", "C12.firm_guards", "C12.murphy_quantile", "C12.murphy_huber", "C12.murphy_expectile", "C12.rms_cell", "C12.rms_guards"]
RULE = ("(a) exhaustive FIRM tie grid: fcst, obs, threshold in {0,1,2,NaN,+inf,-inf}^3 x both assignments x discount {0,1/2,1,5,inf} x alpha {1/4,7/10}, "
        "implementation vs regenerated kernel vs proved specification, plus the Murphy link (forecasts, observations and thetas "
        "incl. +-inf; quantile / Huber / expectile) and the mirror relation on the implementation; (a') non-finite probe: fcst / obs over "
        "{-inf,0,1,3,+inf,NaN} and {-1e308,0,1,1e308,+-inf} (sums and differences overflow), scalar and per-case thresholds incl. +-inf / "
        "+-1e308, 1-3 weighted thresholds, discount {None,0,1,5/2,inf}, against the exact oracle in the extended reals; "
        "(b) random firm calls: 1-3 dims of size 1-3, obs on a dim subset, 1-3 thresholds each a scalar or an array with NaN, threshold weights "
        "scalar or array with NaN (and non-positive ones), all discount / assignment / alpha / request spellings incl. invalid ones; values on "
        "the grid k/2 shared with the thresholds so obs==threshold / fcst==threshold ties occur in most cases; 15% of them with data 0..6 stored "
        "in a random (un)signed integer dtype, Python-int scalar thresholds and same-dtype array thresholds, 15% with +inf / -inf poked into fcst, "
        "obs and the thresholds; (b') integer-dtype probe: 25 "
        "(fcst, obs) pairs x {uint8..uint64, int8..int64, float32} x thresholds as Python ints / NumPy scalars / same-dtype DataArray / floats "
        "x discount {None,0,1,2,5/2,10,inf} x both assignments against the exact oracle on the values; (c) exhaustive risk-matrix cell "
        "grid (forecast probability on / off each threshold, obs 0/1/NaN, both assignments); (d) random risk_matrix_score calls with random "
        "weight matrices, shuffled coordinates, NaN, weights, malformed inputs; (d') Dataset inputs: 2-3 forecast variables whose NaN positions "
        "differ against an observation Dataset or DataArray (each variable must score as it does alone); "
        "(d'') defaults: every subset of the optional arguments of firm / risk_matrix_score / murphy_score omitted, in 8-11 configurations each, "
        "against the exact oracle at the documented defaults and against the call with the defaults written out; "
        "(e) matrix_weights_to_array and weights_from_warning_scaling on "
        "random and all small valid scaling matrices. A case is distinct by the hash of (function, inputs, options); non-trivial when an output "
        "is finite.")
ASSUMPTIONS = ["severity labels are compared as numbers (the harness uses integer labels)",
               "very large finite values (1e308) are checked without discount_distance = inf",
               "a float-typed scaling matrix (rejected by dtype) is checked on the implementation only"]
TRUSTED = ["hand models in coq/model/C12.v (threshold sums, Murphy NaN merge, guards, matrix_weights_to_array, _scaling_to_weight_matrix): tied by correspondence only"]

NAN = float("nan")
INF = float("inf")
BIG = 1e308          # finite, but fcst + obs + threshold (or threshold - obs) overflows binary64
FVARS = ["firm_score", "overforecast_penalty", "underforecast_penalty"]
# known_findings.d/C12.json: `_single_category_score` multiplied the discounted distance min(t - o, d) by the 0/1 condition; with an
# infinite observation (or threshold) the distance is -inf (or, for d = inf, +inf) where the condition is 0, and inf * 0 = NaN.
# Only a deviation that is EXACTLY that behaviour (the oracle evaluated with `legacy=True`) is attributed to the finding.
FINDING_INF = "firm-discount-infinite-obs"
# harness self-check (core.run_check): counters every complete run must have incremented, one per predicate family / input class
EXPECT_COUNTS = ["corpus_cases", "firm_defaults_calls", "rms_defaults_calls", "murphy_defaults_calls", "guard_boundary_probes", "firm_oracle_grid_points", "firm_oracle_grid_infinite_points", "firm_scalar_threshold_points",
                 "firm_nonfinite_points", "firm_integer_dtype_points", "murphy_da_link_points", "rms_oracle_grid_points", "rms_oracle_grid_integer_obs_points", "rms_dataset_probe_points",
                 "rms:dataset_vars_checked", "firm:oracle_checked", "firm:oracle_checked_infinite", "rms:oracle_checked", "wfs:oracle_checked",
                 "mwa:oracle_checked", "firm_grid_points", "firm_grid_infinite_points", "murphy_link_points", "murphy_link_infinite_points",
                 "firm_mirror_relations", "firm:ok", "firm:err:ValueError", "firm:assign=upper", "firm:assign=lower", "firm:discount=none",
                 "firm:discount=0", "firm:discount=finite", "firm:discount=inf", "firm:array_threshold", "firm:array_threshold_weight",
                 "firm:integer_dtype=", "firm:infinite_values", "firm:mean_of_cases_checked", "firm:murphy_link_checked",
                 "firm:murphy_link_infinite", "rms_grid_points", "rms:ok", "rms:err:ValueError", "rms:double_sum_checked", "rms:non_interned_name",
                 "rms:mean_of_cases_checked", "mwa:ok", "mwa:err:ValueError", "wfs:ok", "wfs:err:ValueError", "wfs:small_matrices_enumerated"]


def S():
    import scores.categorical as CAT
    import scores.continuous as CON
    import scores.emerging as EM
    return CAT, CON, EM


def fr(x):
    return x if isinstance(x, float) and (np.isnan(x) or np.isinf(x)) else Fraction(x)


def same(a, b, tol=1e-9):
    a, b = float(a), float(b)
    if np.isnan(a) or np.isnan(b):
        return np.isnan(a) and np.isnan(b)
    if np.isinf(a) or np.isinf(b):
        return a == b
    return abs(a - b) <= tol * max(1.0, abs(b))



# ------------------------------------------------------------------------------------------
# independent exact-rational oracle (Fractions; no model entry involved)
# ------------------------------------------------------------------------------------------
def fq(x):
    x = float(x)
    return None if np.isnan(x) else (x if np.isinf(x) else Fraction(x))


FLOAT_MAX = Fraction(1.7976931348623157e308)


def _xsub(a, b, binary64=False):
    """difference in the extended reals: Fractions for finite values, +-inf floats, NaN for inf - inf of the same sign
    (binary64=True: a finite difference beyond the binary64 range becomes +-inf, as in the implementation's arithmetic)"""
    if isinstance(a, float) or isinstance(b, float):
        return float(a) - float(b)
    r = a - b
    if binary64 and abs(r) > FLOAT_MAX:
        return INF if r > 0 else -INF
    return r


def _dist(t, o, legacy=False):
    """t - o in the extended reals; two equal infinities are at distance 0 (the observation sits on the threshold) --
    legacy: inf - inf = NaN, and binary64 overflow of a finite difference, as in the unrepaired arithmetic"""
    if isinstance(t, float) and isinstance(o, float) and t == o:
        return NAN if legacy else Fraction(0)
    return _xsub(t, o, legacy)


def _xprod(w, c, scale):
    return float(w) * float(c) * scale if isinstance(scale, float) else w * c * scale


def firm_cell_oracle(f, o, a, tws, d, assign, legacy=False):
    """(total, over, under) of one forecast case: sum_j w_j * fixed-risk penalty at threshold t_j; NaN if any input is NaN.
    +inf / -inf forecasts, observations and thresholds are valid values: comparisons and the distance t - o are taken in the extended
    reals (a penalty that does not apply is 0; an infinite distance is charged min(inf, d); observation = threshold is distance 0,
    also for two equal infinities).
    legacy=True: the behaviour of /repo before repo_fixes/firm-discount-infinite-obs.diff (distance * condition, inf * 0 = NaN);
    used only to decide whether a deviation is exactly the recorded finding."""
    f, o = fq(f), fq(o)
    over = under = Fraction(0)
    disc = not (d is None or d == 0)
    for t, w in tws:
        t, w = fq(t), fq(w)
        if f is None or o is None or t is None or w is None:
            return (NAN, NAN, NAN)
        lower = assign == "lower"
        fa = (o <= t < f) if lower else (o < t <= f)
        miss = (f <= t < o) if lower else (f < t <= o)

        def scale(x):
            if not disc:
                return 1
            if isinstance(x, float) and np.isnan(x):
                return NAN
            return x if d == INF else min(x, Fraction(d))
        s1, s2 = scale(_dist(t, o, legacy)), scale(_dist(o, t, legacy))
        if fa or (legacy and isinstance(s1, float)):        # legacy: a non-finite distance leaks through `* 0`
            over = over + (_xprod(w, 1 - Fraction(a), s1) if fa else NAN)
        if miss or (legacy and isinstance(s2, float)):
            under = under + (_xprod(w, Fraction(a), s2) if miss else NAN)
    return (over + under, over, under)


def known_key(x, true_e, legacy_e, d):
    """FINDING_INF iff discounting is on and the deviating value is exactly what the unrepaired `distance * condition` gives"""
    if d is None or d == 0 or core.close(x, true_e):
        return None
    return FINDING_INF if core.close(x, legacy_e) else None


def firm_oracle_arrays(c, legacy=False):
    ths = [t if isinstance(t, xr.DataArray) else xr.DataArray(float(t)) for t in c["ths"]]
    wts = [t if isinstance(t, xr.DataArray) else xr.DataArray(float(t)) for t in c["wts"]]
    arrs = xr.broadcast(c["fcst"], c["obs"], *ths, *wts)
    dims = arrs[0].dims
    flat = [np.asarray(a.transpose(*dims).values, dtype=float).ravel() for a in arrs]
    k = len(ths)
    out = np.array([firm_cell_oracle(flat[0][n], flat[1][n], c["alpha"], [(flat[2 + j][n], flat[2 + k + j][n]) for j in range(k)], c["d"], c["assign"], legacy)
                    for n in range(flat[0].size)], dtype=float)
    return {v: arrs[0].copy(data=out[:, i].reshape(arrs[0].shape)) for i, v in enumerate(FVARS)}


def _reduced_matches(oracle_pc, weights, result):
    x = oracle_pc if weights is None else oracle_pc * weights
    red = [d for d in x.dims if d not in result.dims]
    with np.errstate(invalid="ignore"):
        exp = x.mean(dim=red) if red else x
    try:
        exp = exp.transpose(*result.dims)
        r2, exp = xr.align(result, exp, join="inner")
        a, b = np.asarray(r2, dtype=float), np.asarray(exp, dtype=float)
        ok = r2.shape == result.shape and bool(np.allclose(a, b, rtol=1e-9, atol=1e-9, equal_nan=True))
        return ok, exp, r2
    except ValueError:
        return False, exp, result


def compare_with_oracle(ctx, what, oracle_pc, weights, result, desc, legacy_pc=None, key=None):
    """reduced implementation result vs NaN-skipping mean of weight * exact per-case oracle over the dims the result no longer has.
    legacy_pc / key: a deviation that coincides with the per-case values of a recorded finding is reported under that finding's key"""
    ok, exp, r2 = _reduced_matches(oracle_pc, weights, result)
    if not ok:
        fk = key if legacy_pc is not None and _reduced_matches(legacy_pc, weights, result)[0] else None
        ctx.violation(what, desc, str(np.asarray(exp).tolist())[:200], str(np.asarray(r2).tolist())[:200], finding_key=fk)
    return ok


def firm_oracle_grid(ctx):
    """the FIRM tie grid through the PUBLIC firm(), against the exact oracle (both assignments; values equal to the threshold)"""
    CAT, _, _ = S()
    vals = [0.0, 1.0, 2.0, NAN, INF, -INF]      # +inf / -inf are valid forecasts, observations and thresholds
    cases = list(itertools.product(vals, repeat=3))
    idx = {"case": range(len(cases))}
    f = xr.DataArray([c[0] for c in cases], dims=["case"], coords=idx)
    o = xr.DataArray([c[1] for c in cases], dims=["case"], coords=idx)
    t = xr.DataArray([c[2] for c in cases], dims=["case"], coords=idx)
    n = n_inf = 0
    for assign in ("upper", "lower"):
        for d in (0.0, 0.5, 1.0, 5.0, INF, None):
            for a in (Fraction(1, 4), Fraction(7, 10)):
                for wt in (1.0, 3.0):
                    st, r = core.call_impl(CAT.firm, f, o, float(a), [t], [wt], discount_distance=d, preserve_dims="all", threshold_assignment=assign)
                    if st != "ok":
                        ctx.violation("firm raises on valid inputs (tie grid)", {"threshold_assignment": assign, "discount_distance": d, "risk_parameter": a}, "values", r)
                        continue
                    for k, (fv, ov, tv) in enumerate(cases):
                        exp = firm_cell_oracle(fv, ov, a, [(tv, wt)], d, assign)
                        n += 1
                        n_inf += any(np.isinf(v) for v in (fv, ov, tv))
                        for i_, (name, e) in enumerate(zip(FVARS, exp)):
                            x = float(r[name].values[k])
                            if not core.close(x, e):
                                leg = firm_cell_oracle(fv, ov, a, [(tv, wt)], d, assign, legacy=True)[i_]
                                ctx.violation(f"firm {name} differs from the stated fixed-risk penalty (exact oracle; +inf / -inf are valid values)",
                                              {"fcst": fv, "obs": ov, "threshold": tv, "threshold_weight": wt, "risk_parameter": a, "discount_distance": d,
                                               "threshold_assignment": assign}, e, x, finding_key=known_key(x, e, leg, d))
    ctx.case(("firm_oracle_grid",), nontrivial=True)
    ctx.count("firm_oracle_grid_points", n)
    ctx.count("firm_oracle_grid_infinite_points", n_inf)


def firm_scalar_threshold_probe(ctx):
    """thresholds given as plain floats in the list, NaN included (a NaN threshold makes every case NaN, discounting on or off), through
    the public firm() against the exact oracle"""
    CAT, _, _ = S()
    vals = [0.0, 1.0, 2.0, NAN]
    cases = [(a_, b_) for a_ in vals for b_ in vals]
    idx = {"case": range(len(cases))}
    f = xr.DataArray([c[0] for c in cases], dims=["case"], coords=idx)
    o = xr.DataArray([c[1] for c in cases], dims=["case"], coords=idx)
    a = Fraction(1, 4)
    n = 0
    for assign in ("lower", "upper"):
        for d in (0.0, 0.5, None):
            for ths, wts in (([NAN], [1.0]), ([1.0], [2.0]), ([1.0, NAN], [1.0, 2.0]), ([NAN, 0.0, 2.0], [1.0, 1.0, 3.0]), ([0.0, 2.0], [1.0, 3.0])):
                st, r = core.call_impl(CAT.firm, f, o, float(a), ths, wts, discount_distance=d, preserve_dims="all", threshold_assignment=assign)
                case0 = {"categorical_thresholds": ths, "threshold_weights": wts, "risk_parameter": a, "discount_distance": d, "threshold_assignment": assign}
                if st != "ok":
                    ctx.violation("firm raises on valid inputs (scalar thresholds, NaN allowed)", case0, "values", r)
                    continue
                for k, (fv, ov) in enumerate(cases):
                    exp = firm_cell_oracle(fv, ov, a, list(zip(ths, wts)), d, assign)
                    n += 1
                    for name, e in zip(FVARS, exp):
                        x = float(r[name].values[k])
                        if not core.close(x, e):
                            ctx.violation(f"firm {name} differs from sum_j w_j * penalty_j with scalar thresholds (a NaN threshold gives NaN) (exact oracle)",
                                          dict(case0, fcst=fv, obs=ov), e, x)
    ctx.case(("firm_scalar_threshold_probe",), nontrivial=True)
    ctx.count("firm_scalar_threshold_points", n)


def firm_nonfinite_probe(ctx):
    """+inf / -inf and finite values near the binary64 limit (fcst + obs + threshold, or threshold - obs, overflows) in fcst, obs and the
    thresholds (plain floats in the list, and a per-case DataArray), several thresholds with weights, discounting off / finite / inf:
    infinite values are valid data -- inf above every threshold is a clear false alarm, obs = inf a clear miss -- so every per-case
    component equals sum_j w_j * penalty_j evaluated in the extended reals (exact oracle); only NaN inputs give NaN"""
    CAT, _, _ = S()
    a = Fraction(3, 10)
    n = 0
    sets = [("infinite", [-INF, 0.0, 1.0, 3.0, INF, NAN], (None, 0.0, 1.0, 2.5, INF)),
            # magnitudes near 1e308: the distance t - o overflows to inf (min(inf, d) = d is still right); d = inf is left out here
            # because the exact penalty 2e308 * alpha then exceeds binary64 by itself
            ("huge", [-BIG, 0.0, 1.0, BIG, INF, -INF], (None, 0.0, 1.0, 2.5))]
    for kind, vals, discounts in sets:
        cases = [(a_, b_) for a_ in vals for b_ in vals]
        idx = {"case": range(len(cases))}
        f = xr.DataArray([c[0] for c in cases], dims=["case"], coords=idx)
        o = xr.DataArray([c[1] for c in cases], dims=["case"], coords=idx)
        big = BIG if kind == "huge" else 7.0
        tda = xr.DataArray([[2.0, INF, -INF, 0.0, big, -big, NAN][k % 7] for k in range(len(cases))], dims=["case"], coords=idx)
        specs = [([2.0, 4.0], [1.0, 2.0]), ([INF], [1.0]), ([-INF, 1.0], [1.0, 2.0]), ([0.0, big, -big], [1.0, 0.5, 3.0]), ([tda, 1.0], [2.0, 1.0]),
                 ([-INF, INF, tda], [1.0, 1.0, 1.0])]
        for assign in ("lower", "upper"):
            for d in discounts:
                for ths, wts in specs:
                    st, r = core.call_impl(CAT.firm, f, o, float(a), ths, wts, discount_distance=d, preserve_dims="all", threshold_assignment=assign)
                    case0 = {"categorical_thresholds": [gens.da_repr(t)["values"] if isinstance(t, xr.DataArray) else t for t in ths], "threshold_weights": wts,
                             "risk_parameter": a, "discount_distance": d, "threshold_assignment": assign}
                    ctx.case(("firm_nonfinite", kind, assign, str(d), str(case0["categorical_thresholds"])))
                    if st != "ok":
                        ctx.violation("firm raises on valid inputs (infinite / very large values)", case0, "values", r)
                        continue
                    for k, (fv, ov) in enumerate(cases):
                        tws = [(float(t.values[k]) if isinstance(t, xr.DataArray) else t, w) for t, w in zip(ths, wts)]
                        exp = firm_cell_oracle(fv, ov, a, tws, d, assign)
                        n += 1
                        for i_, (name, e) in enumerate(zip(FVARS, exp)):
                            x = float(r[name].values[k])
                            if not core.close(x, e):
                                leg = firm_cell_oracle(fv, ov, a, tws, d, assign, legacy=True)[i_]
                                ctx.violation(f"firm {name} with infinite / very large values differs from sum_j w_j * penalty_j (exact oracle; +inf / -inf are "
                                              "valid forecasts, observations and thresholds, only NaN gives NaN)",
                                              dict(case0, fcst=fv, obs=ov, thresholds_at_this_case=[t for t, _ in tws]), e, x, finding_key=known_key(x, e, leg, d))
    ctx.case(("firm_nonfinite_probe",), nontrivial=True)
    ctx.count("firm_nonfinite_points", n)


INT_DTYPES = ["uint8", "uint16", "uint32", "uint64", "int8", "int16", "int32", "int64"]


def firm_integer_dtype_probe(ctx, dtypes=None):
    """data stored in integer dtypes (unsigned counts / oktas / packed amounts; signed) and float32, thresholds given as plain Python
    integers, NumPy integers, an integer DataArray of the same dtype, or floats; discounting off / finite (int and float) / inf: the
    penalties are functions of the VALUES -- a difference taken on the side where it is negative must not leak into the result through
    unsigned wrap-around -- so every per-case component equals the exact oracle evaluated on the values (= firm on the float64 copy)"""
    CAT, _, _ = S()
    rng = ctx.rng
    vals = [0, 1, 2, 3, 5]
    cases = [(a_, b_) for a_ in vals for b_ in vals]
    idx = {"case": range(len(cases))}
    n = 0
    dtypes = list(dtypes or INT_DTYPES + ["float32"])
    for dt in dtypes:
        if not ctx.time_left():
            break
        f = xr.DataArray(np.array([c[0] for c in cases], dtype=dt), dims=["case"], coords=idx)
        o = xr.DataArray(np.array([c[1] for c in cases], dtype=dt), dims=["case"], coords=idx)
        tda = xr.DataArray(np.array([vals[(k * 2 + k // 5) % 5] for k in range(len(cases))], dtype=dt), dims=["case"], coords=idx)
        npint = getattr(np, dt)
        specs = [("python ints", [1, 3], [1, 2]),
                 ("numpy scalars of the data dtype", [npint(2), npint(3)], [2, 1]),
                 ("DataArray of the data dtype + python int", [tda, 2], [1.0, 3]),
                 ("floats off the integer grid", [1.5, 3.0], [1.0, 0.5])]
        for kind, ths, wts in specs:
            for d in (None, 0, 1, 2, 2.5, 10, INF):
                assign = rng.choice(["lower", "upper"]) if d in (None, 0) else None
                for asg in ([assign] if assign else ["lower", "upper"]):
                    a = rng.choice([Fraction(1, 4), Fraction(7, 10)])
                    st, r = core.call_impl(CAT.firm, f, o, float(a), ths, wts, discount_distance=d, preserve_dims="all", threshold_assignment=asg)
                    case0 = {"dtype of fcst and obs": dt, "categorical_thresholds": kind + ": " + str([gens.da_repr(t)["values"] if isinstance(t, xr.DataArray) else float(t) for t in ths]),
                             "threshold_weights": wts, "risk_parameter": a, "discount_distance": d, "threshold_assignment": asg}
                    ctx.case(("firm_int_dtype", dt, kind, str(d), asg, str(a)))
                    if st != "ok":
                        ctx.violation("firm raises on valid integer-typed data", case0, "values", r)
                        continue
                    for k, (fv, ov) in enumerate(cases):
                        tws = [(float(t.values[k]) if isinstance(t, xr.DataArray) else float(t), w) for t, w in zip(ths, wts)]
                        exp = firm_cell_oracle(float(fv), float(ov), a, tws, d, asg)
                        n += 1
                        for name, e in zip(FVARS, exp):
                            x = float(r[name].values[k])
                            if not core.close(x, e, tol=4e-7 if dt == "float32" else core.TOL):    # float32 data are scored in float32 arithmetic
                                ctx.violation(f"firm {name} on {dt} data differs from sum_j w_j * penalty_j evaluated on the values (exact oracle; the result must "
                                              "not depend on the storage dtype)", dict(case0, fcst=fv, obs=ov, thresholds_at_this_case=[t for t, _ in tws]), e, x)
    ctx.case(("firm_integer_dtype_probe",), nontrivial=True)
    ctx.count("firm_integer_dtype_points", n)


def murphy_da_link(ctx):
    """FIRM = Murphy elementary score with thetas given as a DataArray varying along the data dimension and containing NaN:
    murphy_score (total / over / under) vs the exact oracle and vs firm with the same per-case thresholds"""
    CAT, CON, _ = S()
    xvals = [0.0, 1.0, 2.0, NAN, INF, -INF]       # forecasts, observations and thetas may be infinite (forecasts since /repo 806a3e1)
    cases = list(itertools.product(xvals, xvals, xvals))
    idx = {"case": range(len(cases))}
    f = xr.DataArray([c[0] for c in cases], dims=["case"], coords=idx)
    o = xr.DataArray([c[1] for c in cases], dims=["case"], coords=idx)
    t = xr.DataArray([c[2] for c in cases], dims=["case"], coords=idx)
    n = 0
    for a in (Fraction(1, 4), Fraction(7, 10)):
        for d, functional, hub in ((0.0, "quantile", None), (0.5, "huber", 0.5), (5.0, "huber", 5.0), (INF, "expectile", None)):
            st, mu = core.call_impl(CON.murphy_score, f, o, t, functional=functional, alpha=float(a), huber_a=hub, decomposition=True, preserve_dims="all")
            st2, fi = core.call_impl(CAT.firm, f, o, float(a), [t], [1.0], discount_distance=d, preserve_dims="all")
            if st != "ok" or st2 != "ok":
                ctx.violation("murphy_score / firm raises with per-case thetas (DataArray with NaN)", {"alpha": a, "functional": functional}, "values", str((mu, fi))[:200])
                continue
            for k, (fv, ov, tv) in enumerate(cases):
                exp = firm_cell_oracle(fv, ov, a, [(tv, 1.0)], d, "lower")
                case = {"fcst": fv, "obs": ov, "theta (DataArray element)": tv, "alpha": a, "functional": functional, "huber_a": hub}
                n += 1
                for i_, (name, mvar, e) in enumerate(zip(FVARS, ("total", "overforecast", "underforecast"), exp)):
                    x, y = float(mu[mvar].values[k]), float(fi[name].values[k])
                    if not same(x, y):
                        leg = firm_cell_oracle(fv, ov, a, [(tv, 1.0)], d, "lower", legacy=True)[i_]
                        ctx.violation(f"firm {name} with per-case thresholds differs from the Murphy {functional} elementary score at theta = threshold (DataArray thetas)",
                                      case, x, y, finding_key=known_key(y, e, leg, d) if core.close(x, e) else None)
                    elif not core.close(x, e):
                        ctx.violation(f"Murphy {functional} elementary score ({mvar}) with DataArray thetas differs from the stated penalty (NaN theta gives NaN) (exact oracle)",
                                      case, e, x)
    ctx.case(("murphy_da_link",), nontrivial=True)
    ctx.count("murphy_da_link_points", n)


def firm_oracle_random(ctx, n):
    CAT, _, _ = S()
    for i in range(n):
        if not ctx.time_left():
            break
        c = gen_firm_case(ctx)
        if c["bad"]:
            continue
        impl = core.call_impl(CAT.firm, c["fcst"], c["obs"], float(c["alpha"]), c["ths"], c["wts"], **firm_kwargs(c))
        desc = firm_desc(c)
        ctx.case(desc, impl[0] == "ok")
        ctx.count("firm:oracle_checked")
        if impl[0] != "ok":
            if impl[1] != "err:ValueError":      # a request naming an absent dim etc. is a ValueError; anything else on valid data is not
                ctx.violation("firm raises on a valid call", desc, "values / ValueError for the request", impl[1])
            continue
        orc = firm_oracle_arrays(c)
        leg = firm_oracle_arrays(c, legacy=True) if c["inf"] and c["d"] else None
        if c["inf"]:
            ctx.count("firm:oracle_checked_infinite")
        for v in FVARS:
            compare_with_oracle(ctx, f"firm {v} differs from the weighted NaN-skipping mean of sum_j w_j * penalty_j (exact oracle)", orc[v], c["w"], impl[1][v], desc,
                                legacy_pc=leg[v] if leg else None, key=FINDING_INF)


def rms_case_oracle(fs, os_, ps, W, assign):
    """sum_i sum_j w_ij s_j(f_i, y_i); NaN if a forecast or observation is NaN"""
    tot = Fraction(0)
    for i, (f, o) in enumerate(zip(fs, os_)):
        f, o = fq(f), fq(o)
        if f is None or o is None:
            return NAN
        for j, p in enumerate(ps):
            p = Fraction(float(p))
            above = (f >= p) if assign == "lower" else (f > p)
            if o == 0 and above:
                tot += Fraction(float(W[i][j])) * p
            elif o == 1 and not above:
                tot += Fraction(float(W[i][j])) * (1 - p)
    return tot


def rms_oracle_array(c):
    f, o = xr.broadcast(c["fcst"], c["obs"])
    sevs = list(c["dw"]["sev"].values)
    ps = list(c["dw"]["prob"].values)
    W = c["dw"].transpose("sev", "prob").values
    other = [d for d in f.dims if d != "sev"]
    f = f.sel(sev=sevs).transpose(*other, "sev")
    o = o.sel(sev=sevs).transpose(*other, "sev")
    fv = np.asarray(f.values, dtype=float).reshape(-1, len(sevs))
    ov = np.asarray(o.values, dtype=float).reshape(-1, len(sevs))
    out = np.array([float(rms_case_oracle(fv[k], ov[k], ps, W, c["assign"])) for k in range(fv.shape[0])])
    ref = f.isel(sev=0, drop=True)
    return ref.copy(data=out.reshape(ref.shape))


def rms_oracle_grid(ctx):
    """forecast probability on / off each threshold, obs 0/1/NaN, both assignments, through the public function"""
    _, _, EM = S()
    fvals = [0.0, 0.25, 0.5, 0.75, 1.0, NAN]
    ovals = [0.0, 1.0, NAN]
    cases = [(a, b) for a in fvals for b in ovals]
    f = xr.DataArray([[c[0]] for c in cases], dims=["case", "sev"], coords={"case": range(len(cases)), "sev": [0]})
    o = xr.DataArray([[c[1]] for c in cases], dims=["case", "sev"], coords={"case": range(len(cases)), "sev": [0]})
    n = 0
    for assign in ("upper", "lower"):
        dw = xr.DataArray([[1.0], [2.0], [3.5]], dims=["prob", "sev"], coords={"prob": [0.75, 0.25, 0.5], "sev": [0]})
        st, r = core.call_impl(EM.risk_matrix_score, f, o, dw, "sev", "prob", threshold_assignment=assign, preserve_dims="all")
        if st != "ok":
            ctx.violation("risk_matrix_score raises on valid inputs (cell grid)", {"threshold_assignment": assign}, "values", r)
            continue
        for k, (fv, ov) in enumerate(cases):
            exp = rms_case_oracle([fv], [ov], [0.75, 0.25, 0.5], [[1.0, 2.0, 3.5]], assign)
            x = float(r.values[k])
            n += 1
            if not core.close(x, exp):
                ctx.violation("risk_matrix_score differs from sum_ij w_ij s_j(f_i, y_i) (exact oracle)",
                              {"fcst": fv, "obs": ov, "prob_thresholds": [0.75, 0.25, 0.5], "weights": [1.0, 2.0, 3.5], "threshold_assignment": assign}, exp, x)
    # observations stored as unsigned / signed integers or booleans (0/1 flags; the function only compares them): same scores
    n_int = 0
    for dt in ("uint8", "int64", "bool", "float32"):
        cs = [(a, b) for a in fvals for b in (0.0, 1.0)]
        fi = xr.DataArray([[c[0]] for c in cs], dims=["case", "sev"], coords={"case": range(len(cs)), "sev": [0]})
        oi = xr.DataArray(np.array([[c[1]] for c in cs]).astype(dt), dims=["case", "sev"], coords={"case": range(len(cs)), "sev": [0]})
        for assign in ("upper", "lower"):
            st, r = core.call_impl(EM.risk_matrix_score, fi, oi, dw, "sev", "prob", threshold_assignment=assign, preserve_dims="all")
            for k, (fv, ov) in enumerate(cs):
                exp = rms_case_oracle([fv], [ov], [0.75, 0.25, 0.5], [[1.0, 2.0, 3.5]], assign)
                x = float(r.values[k]) if st == "ok" else r
                n_int += 1
                if st != "ok" or not core.close(x, exp):
                    ctx.violation(f"risk_matrix_score with observations stored as {dt} differs from sum_ij w_ij s_j(f_i, y_i) (exact oracle)",
                                  {"fcst": fv, "obs": ov, "obs dtype": dt, "prob_thresholds": [0.75, 0.25, 0.5], "weights": [1.0, 2.0, 3.5], "threshold_assignment": assign}, exp, x)
    ctx.count("rms_oracle_grid_integer_obs_points", n_int)
    # decision points with zero weight still belong to the sum: a missing forecast / observation in a zero-weight severity
    # category (or at a zero-weight threshold) makes the case NaN, it is not trimmed away
    dw0 = xr.DataArray([[1.0, 0.0], [2.0, 0.0], [0.0, 0.0]], dims=["prob", "sev"], coords={"prob": [0.25, 0.5, 0.75], "sev": [0, 1]})
    f2 = xr.DataArray([[0.5, NAN], [0.5, 0.25], [NAN, 0.5], [0.75, 1.0]], dims=["case", "sev"], coords={"case": range(4), "sev": [0, 1]})
    o2 = xr.DataArray([[0.0, 1.0], [1.0, NAN], [0.0, 0.0], [0.0, 1.0]], dims=["case", "sev"], coords={"case": range(4), "sev": [0, 1]})
    for assign in ("upper", "lower"):
        st, r = core.call_impl(EM.risk_matrix_score, f2, o2, dw0, "sev", "prob", threshold_assignment=assign, preserve_dims="all")
        for k in range(4):
            exp = rms_case_oracle(f2.values[k], o2.values[k], [0.25, 0.5, 0.75], dw0.transpose("sev", "prob").values, assign)
            x = float(r.values[k]) if st == "ok" else r
            n += 1
            if st != "ok" or not core.close(x, exp):
                ctx.violation("risk_matrix_score with zero-weight decision points differs from the plain double sum (exact oracle)",
                              {"fcst": f2.values[k].tolist(), "obs": o2.values[k].tolist(), "decision_weights[prob,sev]": dw0.values.tolist(),
                               "prob_thresholds": [0.25, 0.5, 0.75], "threshold_assignment": assign}, exp, x)
    ctx.case(("rms_oracle_grid",), nontrivial=True)
    ctx.count("rms_oracle_grid_points", n)


def rms_dataset_probe(ctx, n):
    """risk_matrix_score with xr.Dataset inputs: several forecast variables (models / lead times) whose NaN positions differ, scored
    against a Dataset or a single DataArray of observations (and the other way round): every variable must score exactly as it does
    alone as a DataArray -- a missing value in one variable must not blank a forecast case of another one -- i.e. per variable the
    (weighted NaN-skipping mean of the) double sum over severity categories and probability thresholds of ITS OWN forecast (exact oracle)"""
    _, _, EM = S()
    rng = ctx.rng
    sevs = [0, 1, 2]
    dw = xr.DataArray([[1.0, 2.0, 3.0], [4.0, 5.0, 6.0]], dims=["prob", "sev"], coords={"prob": [0.25, 0.5], "sev": sevs})
    co = {"time": [0, 1, 2, 3], "sev": sevs}
    base_f = np.array([[0.25, 0.25, 0.0], [0.75, 0.5, 0.0], [1.0, 0.5, 0.5], [0.0, 0.0, 0.25]])
    base_o = np.array([[1.0, 0.0, 0.0], [1.0, 1.0, 0.0], [1.0, 1.0, 1.0], [0.0, 0.0, 1.0]])

    def holes(arr, where):
        a = arr.copy()
        for (i, j) in where:
            a[i, j] = NAN
        return xr.DataArray(a, dims=["time", "sev"], coords=co)
    probes = []
    # deterministic: variable a has a hole where b is complete (and the other way round), c has none; obs Dataset with its own holes / one DataArray
    fa, fb, fc = holes(base_f, [(2, 0)]), holes(base_f[::-1].copy(), [(0, 1), (3, 2)]), holes(base_f, [])
    oa, ob, oc = holes(base_o, []), holes(base_o, [(1, 1)]), holes(base_o[::-1].copy(), [(3, 0)])
    probes.append(({"a": fa, "b": fb, "c": fc}, {"a": oa, "b": ob, "c": oc}))
    probes.append(({"a": fa, "b": fb, "c": fc}, oa))
    probes.append(({"a": fa, "b": fb, "c": fc}, ob))
    probes.append((fc, {"a": oa, "b": ob, "c": oc}))
    for _ in range(n):           # random: 2-3 variables, every variable its own NaN pattern in fcst and obs
        names = ["a", "b", "c"][:rng.randint(2, 3)]

        def rnd(vals, p):
            return holes(np.array([[rng.choice(vals) for _ in sevs] for _ in co["time"]], dtype=float),
                         [(i, j) for i in range(4) for j in range(3) if rng.random() < p])
        fds = {v: rnd([0.0, 0.25, 0.5, 0.75, 1.0], rng.choice([0.0, 0.15, 0.3])) for v in names}
        ods = {v: rnd([0.0, 1.0], rng.choice([0.0, 0.15])) for v in names}
        probes.append((fds, ods if rng.random() < 0.6 else ods[names[0]]))
    npts = 0
    for fds, ods in probes:
        for assign in ("lower", "upper"):
            w = xr.DataArray([1.0, 2.0, 0.5, 3.0], dims=["time"], coords={"time": co["time"]}) if rng.random() < 0.4 else None
            for kw in ({"preserve_dims": "all"}, {}):
                f_in = xr.Dataset(fds) if isinstance(fds, dict) else fds
                o_in = xr.Dataset(ods) if isinstance(ods, dict) else ods
                kws = dict(kw, threshold_assignment=assign, **({"weights": w} if w is not None else {}))
                st, r = core.call_impl(EM.risk_matrix_score, f_in, o_in, dw, "sev", "prob", **kws)
                names = sorted(fds) if isinstance(fds, dict) else sorted(ods)
                desc = {"fn": "risk_matrix_score", "fcst": {v: gens.da_repr(x) for v, x in fds.items()} if isinstance(fds, dict) else gens.da_repr(fds),
                        "obs": {v: gens.da_repr(x) for v, x in ods.items()} if isinstance(ods, dict) else gens.da_repr(ods),
                        "decision_weights": gens.da_repr(dw), "weights": gens.da_repr(w), **kws}
                ctx.case(("rms_dataset", str(desc)), st == "ok")
                if st != "ok":
                    ctx.violation("risk_matrix_score raises on valid Dataset inputs", desc, "a Dataset of scores", r)
                    continue
                for v in names:
                    fv = fds[v] if isinstance(fds, dict) else fds
                    ov = ods[v] if isinstance(ods, dict) else ods
                    npts += 1
                    ctx.count("rms:dataset_vars_checked")
                    c = dict(fcst=fv, obs=ov, dw=dw, assign=assign)
                    if v not in r:
                        ctx.violation("risk_matrix_score on Dataset inputs lost a variable", dict(desc, variable=v), v, str(list(r.data_vars)))
                        continue
                    compare_with_oracle(ctx, f"risk_matrix_score on Dataset inputs: variable '{v}' differs from the (weighted NaN-skipping mean of the) double sum "
                                        "sum_ij w_ij s_j(f_i, y_i) of its own forecast and observation (exact oracle) -- a variable must score as it does alone "
                                        "as a DataArray, whatever is missing in the other variables", rms_oracle_array(c), w, r[v], dict(desc, variable=v))
                    alone = core.call_impl(EM.risk_matrix_score, fv, ov, dw, "sev", "prob", **kws)
                    if alone[0] != "ok" or not np.allclose(np.asarray(alone[1], dtype=float), np.asarray(r[v].transpose(*alone[1].dims), dtype=float), rtol=0, atol=1e-12, equal_nan=True):
                        ctx.violation(f"risk_matrix_score on Dataset inputs: variable '{v}' differs from the same call on that variable alone (DataArray)",
                                      dict(desc, variable=v), str(np.asarray(alone[1]).tolist())[:200], str(np.asarray(r[v]).tolist())[:200])
    ctx.count("rms_dataset_probe_points", npts)


def rms_oracle_random(ctx, n):
    _, _, EM = S()
    for i in range(n):
        if not ctx.time_left():
            break
        c = gen_rms_case(ctx)
        if c["bad"]:
            continue
        impl = core.call_impl(EM.risk_matrix_score, c["fcst"], c["obs"], c["dw"], c["sev"], c["prob"], **rms_kwargs(c))
        desc = rms_desc(c)
        ctx.case(desc, impl[0] == "ok")
        ctx.count("rms:oracle_checked")
        if impl[0] != "ok":
            if impl[1] != "err:ValueError":
                ctx.violation("risk_matrix_score raises on a valid call", desc, "values / ValueError for the request", impl[1])
            continue
        compare_with_oracle(ctx, "risk_matrix_score differs from the weighted NaN-skipping mean of sum_ij w_ij s_j(f_i, y_i) (exact oracle)",
                            rms_oracle_array(c), c["w"], impl[1], desc)


def wfs_oracle(M, aw):
    """declarative specification: weight of level l at the decision points where l is reached strictly lower than in every column to the left"""
    n_prob, n_sev = len(M) - 1, len(M[0]) - 1
    mx = max(max(r) for r in M)

    def cross(l, c):
        col = [M[r][c] for r in range(len(M))][::-1]
        for k, v in enumerate(col):
            if v >= l:
                return k
        return 0
    wts = [[Fraction(0)] * n_sev for _ in range(n_prob)]
    for l in range(1, mx + 1):
        for c in range(1, n_sev + 1):
            x = cross(l, c)
            if x > 0 and all(cross(l, c2) == 0 or x < cross(l, c2) for c2 in range(1, c)):
                wts[x - 1][c - 1] += aw[l - 1]
    return wts[::-1]


def wfs_oracle_one(ctx, EM, M, aw, ps, sevs):
    impl = core.call_impl(EM.weights_from_warning_scaling, np.array(M, dtype=int), [float(a) for a in aw], "sev", sevs, "prob", [float(p) for p in ps])
    desc = {"fn": "weights_from_warning_scaling", "scaling_matrix": M, "assessment_weights": aw, "severity_coords": sevs, "prob_threshold_coords": ps}
    ctx.case(("wfs_oracle", str(M), str(aw)), impl[0] == "ok")
    ctx.count("wfs:oracle_checked")
    if impl[0] != "ok":
        ctx.violation("weights_from_warning_scaling raises on a valid scaling matrix", desc, "a weight matrix", impl[1])
        return
    exp = wfs_oracle(M, aw)
    da = impl[1]
    okc = core.close_list(list(da["prob"].values), sorted(ps, reverse=True)) and list(da.dims) == ["prob", "sev"]
    okv = core.close_list(list(np.asarray(da.values, dtype=float).ravel()), [x for r in exp for x in r])
    if not (okc and okv):
        ctx.violation("weights_from_warning_scaling differs from the specification (exact oracle): weight of level l at the decision points where l is "
                      "reached strictly lower than in every column to the left, rows attached to decreasing probabilities", desc,
                      {"prob": sorted(ps, reverse=True), "weights": exp}, {"prob": da["prob"].values.tolist(), "weights": da.values.tolist()})


def wfs_oracle_check(ctx, n):
    _, _, EM = S()
    rng = ctx.rng
    # more assessment weights than levels used, crossover in the top row, several thresholds
    for M, aw in (([[0, 1], [0, 0], [0, 0]], [1]), ([[0, 1], [0, 0], [0, 0]], [1, 5]), ([[0, 1, 1], [0, 1, 1], [0, 0, 1], [0, 0, 0]], [1]),
                  ([[0, 1, 1], [0, 1, 1], [0, 0, 1], [0, 0, 0]], [1, 5, 7]), ([[0, 2, 3, 3], [0, 1, 2, 3], [0, 1, 1, 2], [0, 0, 0, 0]], [1, 2, 3]),
                  ([[0, 2, 3, 3], [0, 1, 2, 3], [0, 1, 1, 2], [0, 0, 0, 0]], [1, 2, 3, 4, 5]), ([[0, 1], [0, 1], [0, 1], [0, 0], [0, 0]], [2])):
        n_prob, n_sev = len(M) - 1, len(M[0]) - 1
        wfs_oracle_one(ctx, EM, M, [Fraction(a) for a in aw], [Fraction(k + 1, 8) for k in range(n_prob)], list(range(n_sev)))
    for i in range(n):
        if not ctx.time_left():
            break
        n_prob, n_sev, q = rng.randint(1, 4), rng.randint(1, 3), rng.randint(1, 3)
        M = valid_scaling(rng, n_prob, n_sev, q)
        mx = max(v for r in M for v in r)
        aw = [Fraction(rng.randint(1, 6), 2) for _ in range(mx + rng.randint(0, 3))] or [Fraction(1)]
        ps = rng.sample([Fraction(k, 8) for k in range(1, 8)], n_prob)
        wfs_oracle_one(ctx, EM, M, aw, ps, list(range(n_sev)))


def mwa_oracle_check(ctx, n):
    _, _, EM = S()
    rng = ctx.rng
    for i in range(n):
        nr, nc = rng.randint(1, 3), rng.randint(1, 3)
        M = [[Fraction(rng.randint(0, 8), 2) for _ in range(nc)] for _ in range(nr)]
        ps = rng.sample([Fraction(k, 8) for k in range(1, 8)], nr)
        impl = core.call_impl(EM.matrix_weights_to_array, np.array([[float(x) for x in r_] for r_ in M]), "sev", list(range(nc)), "prob", [float(p) for p in ps])
        desc = {"fn": "matrix_weights_to_array", "matrix_weights": M, "prob_threshold_coords": ps}
        ctx.case(("mwa_oracle", str(M), str(ps)), impl[0] == "ok")
        ctx.count("mwa:oracle_checked")
        if impl[0] != "ok":
            ctx.violation("matrix_weights_to_array raises on valid input", desc, "an array", impl[1])
            continue
        da = impl[1]
        if not (core.close_list(list(da["prob"].values), sorted(ps, reverse=True))
                and core.close_list(list(np.asarray(da.values, dtype=float).ravel()), [x for r in M for x in r])):
            ctx.violation("matrix_weights_to_array: rows must be kept and attached, in order, to the thresholds sorted decreasingly", desc,
                          {"prob": sorted(ps, reverse=True), "data": M}, {"prob": da["prob"].values.tolist(), "data": da.values.tolist()})


# documented defaults of the optional arguments (signatures and docstrings of firm, risk_matrix_score, murphy_score)
FIRM_DEFAULTS = {"discount_distance": 0, "reduce_dims": None, "preserve_dims": None, "weights": None, "threshold_assignment": "lower"}
RMS_DEFAULTS = {"threshold_assignment": "lower", "reduce_dims": None, "preserve_dims": None, "weights": None}
MURPHY_DEFAULTS = {"huber_a": None, "decomposition": False, "reduce_dims": None, "preserve_dims": None}


def expected_dims(data_dims, cfg, extra=()):
    """the dims rule: preserve_dims='all' keeps everything, a list keeps those; reduce_dims drops those; neither: everything is reduced"""
    if cfg["preserve_dims"] is not None:
        keep = list(data_dims) if cfg["preserve_dims"] == "all" else [d for d in data_dims if d in cfg["preserve_dims"]]
    elif cfg["reduce_dims"] is not None:
        keep = [d for d in data_dims if d not in cfg["reduce_dims"]]
    else:
        keep = []
    return set(keep) | set(extra)


def identical_values(a, b):
    return set(a.dims) == set(b.dims) and bool(np.array_equal(np.asarray(a, dtype=float), np.asarray(b.transpose(*a.dims), dtype=float), equal_nan=True))


def omitted_calls(defaults, configs):
    """(configuration with every optional argument, the subset of arguments left out, keywords actually passed, effective configuration =
    documented defaults in place of the omitted ones): every subset of the optional arguments, for every configuration"""
    names = list(defaults)
    for cfg in configs:
        full = dict(defaults, **cfg)
        for r in range(len(names) + 1):
            for omit in itertools.combinations(names, r):
                eff = dict(full, **{k: defaults[k] for k in omit})
                if eff.get("reduce_dims") is not None and eff.get("preserve_dims") is not None:
                    continue
                yield cfg, omit, {k: v for k, v in full.items() if k not in omit}, eff


def show_kw(kw):
    return {k: (gens.da_repr(v) if isinstance(v, xr.DataArray) else v) for k, v in kw.items()}


def defaults_probe(ctx):
    """every optional argument of firm, risk_matrix_score and murphy_score OMITTED vs written out: for a list of configurations (each
    optional argument at its documented default and at other values) and EVERY subset of the optional arguments left out of the call, the
    result must (1) have the dims of, and equal, the exact oracle evaluated with the DOCUMENTED default in place of every omitted argument
    (firm: discount_distance=0, threshold_assignment='lower', weights=None, everything reduced; risk_matrix_score: threshold_assignment=
    'lower', ...; murphy_score: decomposition=False -> only 'total'), and (2) be identical to the call with those defaults written out.
    The data sit ON the thresholds (the assignment decides) and within / beyond the discount distance (the discount decides): a default
    changed in a signature, or a keyword accepted but no longer forwarded, is invisible to calls that always pass the argument."""
    CAT, CON, EM = S()
    idx = {"t": [0, 1, 2, 3], "s": [10, 20]}
    w = xr.DataArray([2.0, 0.5, 3.0, 1.0], dims=["t"], coords={"t": idx["t"]})
    # ---- firm: forecasts / observations on a threshold (1, 2), misses and false alarms by 1/4, 1/2, 1 and 3 (discount 1/2 and 1 decide), NaN
    f = xr.DataArray([[1.0, 2.5], [2.0, 0.0], [0.75, 5.0], [NAN, 1.5]], dims=["t", "s"], coords=idx)
    o = xr.DataArray([[2.0, 1.0], [2.25, 3.0], [1.0, 1.75], [1.0, 2.0]], dims=["t", "s"], coords=idx)
    ths, wts, alpha = [1.0, 2.0], [1.0, 3.0], Fraction(3, 10)
    configs = [{}, {"discount_distance": 0.5}, {"discount_distance": None}, {"discount_distance": INF}, {"threshold_assignment": "upper"}, {"weights": w},
               {"preserve_dims": "all"}, {"reduce_dims": ["t"]}, {"preserve_dims": ["s"], "weights": w, "threshold_assignment": "upper", "discount_distance": 1.0},
               {"reduce_dims": ["s"], "weights": w, "discount_distance": 0.5}, {"preserve_dims": "all", "threshold_assignment": "upper", "discount_distance": 0.5}]
    n = 0
    for cfg, omit, kw, eff in omitted_calls(FIRM_DEFAULTS, configs):
        got = core.call_impl(CAT.firm, f, o, float(alpha), ths, wts, **kw)
        desc = {"fn": "firm", "fcst": gens.da_repr(f), "obs": gens.da_repr(o), "risk_parameter": alpha, "categorical_thresholds": ths, "threshold_weights": wts,
                "omitted_arguments": list(omit), "passed_explicitly": show_kw(kw), "documented_defaults": {k: FIRM_DEFAULTS[k] for k in omit}}
        ctx.case(("firm_defaults", str(sorted(cfg)), omit))
        n += 1
        if got[0] != "ok":
            ctx.violation("firm raises on a valid call with optional arguments omitted", desc, "values", got[1])
            continue
        want = expected_dims(["t", "s"], eff)
        orc = firm_oracle_arrays(dict(fcst=f, obs=o, alpha=alpha, ths=ths, wts=wts, d=eff["discount_distance"], assign=eff["threshold_assignment"]))
        ref = core.call_impl(CAT.firm, f, o, float(alpha), ths, wts, **eff)
        for v in FVARS:
            if v not in got[1] or set(got[1][v].dims) != want:
                ctx.violation(f"firm with optional arguments omitted: {v} is missing or its dims differ from those of the documented defaults", desc,
                              sorted(want), str(got[1])[:150])
                continue
            compare_with_oracle(ctx, f"firm {v} with optional arguments omitted differs from the exact oracle evaluated at the DOCUMENTED defaults of the omitted "
                                "arguments (discount_distance=0, threshold_assignment='lower', weights=None, all dims reduced)", orc[v], eff["weights"], got[1][v], desc)
            if ref[0] != "ok" or not identical_values(got[1][v], ref[1][v]):
                ctx.violation(f"firm {v}: the call with optional arguments omitted differs from the call with their documented defaults written out", desc,
                              str(ref[1])[:200], str(np.asarray(got[1][v]).tolist())[:200])
    ctx.count("firm_defaults_calls", n)
    # ---- risk_matrix_score: forecast probabilities ON the probability thresholds (1/4, 1/2, 3/4) and off them, obs 0 / 1 / NaN
    sev = [0, 1, 2]
    dw = xr.DataArray([[2.0, 3.0, 0.5], [1.5, 2.0, 3.0], [1.0, 0.0, 2.0]], dims=["prob", "sev"], coords={"prob": [0.75, 0.5, 0.25], "sev": sev})
    fr_ = xr.DataArray([[[0.75, 0.5, 0.25], [0.5, 0.5, 0.0]], [[0.25, 0.75, 0.5], [1.0, 0.25, 0.375]], [[0.75, 0.25, 0.75], [0.5, NAN, 0.25]],
                        [[0.0, 0.625, 0.25], [0.25, 0.25, 0.5]]], dims=["t", "s", "sev"], coords=dict(idx, sev=sev))
    or_ = xr.DataArray([[[0.0, 0.0, 0.0], [1.0, 1.0, 1.0]], [[1.0, 0.0, 1.0], [0.0, 1.0, 0.0]], [[1.0, 1.0, 0.0], [0.0, 0.0, 1.0]],
                        [[0.0, 1.0, NAN], [1.0, 0.0, 0.0]]], dims=["t", "s", "sev"], coords=dict(idx, sev=sev))
    configs = [{}, {"threshold_assignment": "upper"}, {"weights": w}, {"preserve_dims": "all"}, {"reduce_dims": ["t"]},
               {"preserve_dims": ["s"], "weights": w, "threshold_assignment": "upper"}, {"reduce_dims": ["s"], "weights": w},
               {"preserve_dims": "all", "threshold_assignment": "upper", "weights": w}]
    n = 0
    for cfg, omit, kw, eff in omitted_calls(RMS_DEFAULTS, configs):
        got = core.call_impl(EM.risk_matrix_score, fr_, or_, dw, "sev", "prob", **kw)
        desc = {"fn": "risk_matrix_score", "fcst": gens.da_repr(fr_), "obs": gens.da_repr(or_), "decision_weights": gens.da_repr(dw), "omitted_arguments": list(omit),
                "passed_explicitly": show_kw(kw), "documented_defaults": {k: RMS_DEFAULTS[k] for k in omit}}
        ctx.case(("rms_defaults", str(sorted(cfg)), omit))
        n += 1
        if got[0] != "ok":
            ctx.violation("risk_matrix_score raises on a valid call with optional arguments omitted", desc, "values", got[1])
            continue
        want = expected_dims(["t", "s"], eff)
        if set(got[1].dims) != want:
            ctx.violation("risk_matrix_score with optional arguments omitted: result dims differ from those of the documented defaults", desc, sorted(want),
                          sorted(got[1].dims))
            continue
        compare_with_oracle(ctx, "risk_matrix_score with optional arguments omitted differs from the exact oracle evaluated at the DOCUMENTED defaults of the "
                            "omitted arguments (threshold_assignment='lower': f_i >= p_j charges p_j when y_i = 0, f_i < p_j charges 1 - p_j when y_i = 1; weights=None; "
                            "all dims reduced)", rms_oracle_array(dict(fcst=fr_, obs=or_, dw=dw, assign=eff["threshold_assignment"])), eff["weights"], got[1], desc)
        ref = core.call_impl(EM.risk_matrix_score, fr_, or_, dw, "sev", "prob", **eff)
        if ref[0] != "ok" or not identical_values(got[1], ref[1]):
            ctx.violation("risk_matrix_score: the call with optional arguments omitted differs from the call with their documented defaults written out", desc,
                          str(np.asarray(ref[1]).tolist())[:200], str(np.asarray(got[1]).tolist())[:200])
    ctx.count("rms_defaults_calls", n)
    # ---- murphy_score (the other side of the FIRM = Murphy link): decomposition / huber_a / dims requests omitted
    thetas = [1.0, 2.0]
    n = 0
    for functional, hub, d in (("quantile", None, 0), ("huber", 0.5, 0.5), ("huber", 4.0, 4.0), ("expectile", None, INF)):
        configs = [{"huber_a": hub}, {"huber_a": hub, "decomposition": True}, {"huber_a": hub, "preserve_dims": "all"}, {"huber_a": hub, "reduce_dims": ["t"]},
                   {"huber_a": hub, "decomposition": True, "preserve_dims": ["s"]}]
        for cfg, omit, kw, eff in omitted_calls(MURPHY_DEFAULTS, configs):
            if functional == "huber" and eff["huber_a"] is None:
                continue            # huber_a is required for the Huber functional
            got = core.call_impl(CON.murphy_score, f, o, thetas, functional=functional, alpha=float(alpha), **kw)
            desc = {"fn": "murphy_score", "fcst": gens.da_repr(f), "obs": gens.da_repr(o), "thetas": thetas, "functional": functional, "alpha": alpha,
                    "omitted_arguments": list(omit), "passed_explicitly": kw, "documented_defaults": {k: MURPHY_DEFAULTS[k] for k in omit}}
            ctx.case(("murphy_defaults", functional, str(hub), str(sorted(cfg)), omit))
            n += 1
            if got[0] != "ok":
                ctx.violation("murphy_score raises on a valid call with optional arguments omitted", desc, "values", got[1])
                continue
            names = ["total", "underforecast", "overforecast"] if eff["decomposition"] else ["total"]
            want = expected_dims(["t", "s"], eff, extra=["theta"])
            if sorted(got[1].data_vars) != sorted(names) or any(set(got[1][v].dims) != want for v in names):
                ctx.violation("murphy_score with optional arguments omitted: variables / dims differ from those of the documented defaults (decomposition=False: "
                              "'total' only; all dims but theta reduced)", desc, {"variables": names, "dims": sorted(want)}, str(got[1])[:200])
                continue
            for v, fv in (("total", "firm_score"), ("overforecast", "overforecast_penalty"), ("underforecast", "underforecast_penalty")):
                if v not in names:
                    continue
                pc = xr.concat([firm_oracle_arrays(dict(fcst=f, obs=o, alpha=alpha, ths=[t_], wts=[1.0], d=d, assign="lower"))[fv] for t_ in thetas],
                               dim=xr.DataArray(thetas, dims=["theta"], name="theta"))
                compare_with_oracle(ctx, f"murphy_score {v} ({functional}) with optional arguments omitted differs from the elementary score at the documented "
                                    "defaults (exact oracle)", pc, None, got[1][v], desc)
    ctx.count("murphy_defaults_calls", n)


def oracle_checks(ctx, scale=1):
    defaults_probe(ctx)
    firm_oracle_grid(ctx)
    firm_scalar_threshold_probe(ctx)
    firm_nonfinite_probe(ctx)
    firm_integer_dtype_probe(ctx)
    murphy_da_link(ctx)
    rms_oracle_grid(ctx)
    rms_dataset_probe(ctx, ctx.n(8 * scale, 80 * scale))
    firm_oracle_random(ctx, ctx.n(60 * scale, 600 * scale))
    rms_oracle_random(ctx, ctx.n(60 * scale, 600 * scale))
    wfs_oracle_check(ctx, ctx.n(40 * scale, 400 * scale))
    mwa_oracle_check(ctx, ctx.n(20 * scale, 200 * scale))


# ------------------------------------------------------------------------------------------
# (a) FIRM tie grid
# ------------------------------------------------------------------------------------------
def firm_grid(ctx):
    CAT, CON, _ = S()
    vals = [0.0, 1.0, 2.0, NAN, INF, -INF]      # +inf / -inf: valid values (C12_firm_single_spec_inf)
    cases = list(itertools.product(vals, repeat=3))
    f = xr.DataArray([c[0] for c in cases], dims=["case"], coords={"case": range(len(cases))})
    o = xr.DataArray([c[1] for c in cases], dims=["case"], coords={"case": range(len(cases))})
    t = xr.DataArray([c[2] for c in cases], dims=["case"], coords={"case": range(len(cases))})
    n = n_inf = 0
    impl_cache = {}
    for assign in ("lower", "upper"):
        for d in (0.0, 0.5, 1.0, 5.0, INF):
            for a in (0.25, 0.7):
                st, r = core.call_impl(CAT.firm, f, o, a, [t], [1.0], discount_distance=d, preserve_dims="all", threshold_assignment=assign)
                if st != "ok":
                    ctx.violation("firm raises on valid inputs (tie grid: fcst/obs/threshold in {0,1,2,NaN})",
                                  {"fcst": [c[0] for c in cases], "obs": [c[1] for c in cases], "threshold": [c[2] for c in cases],
                                   "threshold_assignment": assign, "discount_distance": d, "risk_parameter": a}, "values", r)
                    return
                impl_cache[(assign, d, a)] = r
                for k, (fv, ov, tv) in enumerate(cases):
                    gen, spec = ctx.model("c12_firm_single", enc_list([enc_num(fv), enc_num(ov), enc_num(Fraction(str(a))), enc_num(tv), enc_num(d), enc_str(assign)]))
                    gen, spec = core.dec_nums(gen), core.dec_nums(spec)
                    case = {"fcst": fv, "obs": ov, "threshold": tv, "risk_parameter": a, "discount_distance": d, "threshold_assignment": assign}
                    impl = [float(r[v].values[k]) for v in FVARS]
                    ctx.case(("firm_single", fv, ov, tv, a, d, assign), nontrivial=not np.isnan(impl[0]))
                    n += 1
                    n_inf += any(np.isinf(v) for v in (fv, ov, tv))
                    for i_, (name, x, g, s_) in enumerate(zip(FVARS, impl, gen, spec)):
                        if not core.close(x, s_):
                            leg = firm_cell_oracle(fv, ov, Fraction(str(a)), [(tv, 1.0)], d, assign, legacy=True)[i_]
                            ctx.violation(f"firm {name} differs from the stated penalty (proved specification; +inf / -inf are valid values)", case, s_, x,
                                          finding_key=known_key(x, s_, leg, d))
                        if not core.close(x, g):
                            ctx.tie_fail(f"gen_firm_single {name} vs implementation", case, x, g)
    ctx.count("firm_grid_points", n)
    ctx.count("firm_grid_infinite_points", n_inf)
    # Murphy link (lower assignment): firm = Murphy elementary score at theta = threshold
    # forecasts, observations and thresholds may be infinite (round 5: forecasts too -- murphy_impl.py built its zero array as `fcst * 0.0`,
    # NaN for an infinite forecast, until /repo 806a3e1 replaced it by xr.zeros_like(fcst, dtype=float))
    fo = [(a_, b_) for a_ in vals for b_ in vals]
    f2 = xr.DataArray([c[0] for c in fo], dims=["case"], coords={"case": range(len(fo))})
    o2 = xr.DataArray([c[1] for c in fo], dims=["case"], coords={"case": range(len(fo))})
    n_link = n_link_inf = 0
    for a in (0.25, 0.7):
        for d, functional, hub in ((0.0, "quantile", None), (0.5, "huber", 0.5), (5.0, "huber", 5.0), (INF, "expectile", None)):
            for tv in (0.0, 1.0, 2.0, INF, -INF):
                st, r = core.call_impl(CAT.firm, f2, o2, a, [tv], [1.0], discount_distance=d, preserve_dims="all")
                st2, mu = core.call_impl(CON.murphy_score, f2, o2, [tv], functional=functional, alpha=a, huber_a=hub, decomposition=True, preserve_dims="all")
                if st != "ok" or st2 != "ok":
                    ctx.violation("firm / murphy_score raised on the link grid", {"alpha": a, "d": d, "theta": tv}, "values", str((r, mu))[:200])
                    continue
                for k, (fv, ov) in enumerate(fo):
                    case = {"fcst": fv, "obs": ov, "threshold": tv, "risk_parameter": a, "discount_distance": d, "functional": functional}
                    trip = [float(mu[v].isel(theta=0).values[k]) for v in ("total", "overforecast", "underforecast")]
                    m = core.dec_nums(ctx.model("c12_murphy_point", enc_list([enc_num(fv), enc_num(ov), enc_num(tv), enc_num(Fraction(str(a))),
                                                                              enc_num(hub if hub else 1), enc_str(functional)])))
                    ctx.case(("murphy_link", fv, ov, tv, a, d), nontrivial=not np.isnan(trip[0]))
                    n_link += 1
                    n_link_inf += bool(np.isinf(fv) or np.isinf(ov) or np.isinf(tv))
                    for i_, (name, x, y, q) in enumerate(zip(FVARS, [float(r[v].values[k]) for v in FVARS], trip, m)):
                        if not same(x, y):
                            tru = firm_cell_oracle(fv, ov, Fraction(str(a)), [(tv, 1.0)], d, "lower")[i_]
                            leg = firm_cell_oracle(fv, ov, Fraction(str(a)), [(tv, 1.0)], d, "lower", legacy=True)[i_]
                            ctx.violation(f"firm {name} differs from the Murphy {functional} elementary score at theta=threshold", case, y, x,
                                          finding_key=known_key(x, tru, leg, d) if core.close(y, tru) else None)
                        if not core.close(y, q):
                            ctx.tie_fail(f"murphy_point model vs murphy_score ({name})", case, y, q)
    ctx.count("murphy_link_points", n_link)
    ctx.count("murphy_link_infinite_points", n_link_inf)
    # mirror: upper(f,o,a,t,d) = lower(-f,-o,1-a,-t,d) with over <-> under
    for d in (0.0, 0.5, 1.0, 5.0, INF):
        for a in (0.25, 0.7):
            up = impl_cache[("upper", d, a)]
            st, lo = core.call_impl(CAT.firm, -f, -o, 1 - a, [-t], [1.0], discount_distance=d, preserve_dims="all", threshold_assignment="lower")
            for x, y, what in ((up["firm_score"], lo["firm_score"], "total"), (up["overforecast_penalty"], lo["underforecast_penalty"], "over"),
                               (up["underforecast_penalty"], lo["overforecast_penalty"], "under")):
                if not np.allclose(x.values, y.values, rtol=0, atol=1e-9, equal_nan=True):
                    k = int(np.argmax(~np.isclose(x.values, y.values, equal_nan=True)))
                    ctx.violation("firm 'upper' differs from 'lower' on negated data with alpha <-> 1-alpha (" + what + ")",
                                  {"fcst": cases[k][0], "obs": cases[k][1], "threshold": cases[k][2], "risk_parameter": a, "discount_distance": d},
                                  float(y.values[k]), float(x.values[k]))
    ctx.count("firm_mirror_relations", 10)


# ------------------------------------------------------------------------------------------
# (b) firm, full function
# ------------------------------------------------------------------------------------------
def gen_firm_case(ctx):
    rng = ctx.rng
    grid = [Fraction(k, 2) for k in range(-4, 5)]
    # integer mode: fcst / obs stored in a (possibly unsigned) integer dtype, scalar thresholds given as Python ints, array thresholds
    # possibly of the same integer dtype (no NaN in integer arrays)
    idt = rng.choice(INT_DTYPES) if rng.random() < 0.15 else None
    if idt:
        grid = [Fraction(k) for k in range(0, 7)]
    sizes = gens.rand_sizes(rng, names=["a", "b", "c"], maxdims=3, maxsize=3)
    fcst = gens.rand_da(rng, sizes, values=grid, nan_p=0.0 if idt else rng.choice([0.0, 0.15]))
    odims = gens.sub_dims(rng, sizes, p_drop=0.25)
    osizes = dict(sizes)
    bad = []
    if rng.random() < 0.04:
        osizes["z"] = 2
        odims = odims + ["z"]
        bad.append("obs_extra_dim")
    obs = gens.rand_da(rng, osizes, dims=odims, values=grid, nan_p=0.0 if idt else rng.choice([0.0, 0.15]))
    if idt:
        fcst, obs = fcst.astype(idt), obs.astype(idt)
    # infinite mode: +inf / -inf (valid, comparable values) in the forecast, the observation and the thresholds
    inf = (not idt) and rng.random() < 0.15
    if inf:
        fcst = poke_some(rng, fcst, [INF, -INF], 0.2)
        obs = poke_some(rng, obs, [INF, -INF], 0.3)
    k = rng.randint(1, 3)
    ths, wts = [], []
    for _ in range(k):
        if rng.random() < 0.5:
            ths.append(NAN if rng.random() < 0.08 else rng.choice([INF, -INF]) if inf and rng.random() < 0.3 else
                       int(rng.choice(grid)) if idt else float(rng.choice(grid)))
        elif idt and rng.random() < 0.6:
            ths.append(gens.rand_da(rng, dict(sizes), dims=gens.sub_dims(rng, sizes, p_drop=0.5), values=grid).astype(idt))
        else:
            ts = dict(sizes)
            td = gens.sub_dims(rng, sizes, p_drop=0.5)
            if rng.random() < 0.04:
                ts["y"] = 2
                td = td + ["y"]
                bad.append("thr_extra_dim")
            ths.append(gens.rand_da(rng, ts, dims=td, values=grid, nan_p=rng.choice([0.0, 0.2])))
            if inf and rng.random() < 0.5:
                ths[-1] = poke_some(rng, ths[-1], [INF, -INF], 0.25)
        if rng.random() < 0.5:
            wts.append(float(rng.choice([Fraction(1, 2), 1, 2, 3])))
        else:
            wd = [d for d in odims if rng.random() < 0.6]
            ws = dict(osizes)
            if rng.random() < 0.05:
                wd = wd + [d for d in sizes if d not in odims][:1]
                bad.append("wt_dims?")
            wts.append(gens.rand_da(rng, ws, dims=wd, values=[Fraction(1, 2), 1, 2, 3], nan_p=rng.choice([0.0, 0.2])))
    r = rng.random()
    if r < 0.04:
        wts[rng.randrange(k)] = float(rng.choice([0, -1]))
        bad.append("wt_nonpos")
    elif r < 0.08:
        j = rng.randrange(k)
        if isinstance(wts[j], xr.DataArray) and wts[j].size:
            v = wts[j].values.copy().reshape(-1)
            v[rng.randrange(v.size)] = rng.choice([0.0, -0.5])
            wts[j] = wts[j].copy(data=v.reshape(wts[j].shape))
            bad.append("wt_nonpos_arr")
    elif r < 0.11:
        wts = wts[:-1]
        bad.append("len_mismatch")
    elif r < 0.13:
        ths, wts = [], []
        bad.append("empty")
    alpha = rng.choice([Fraction(1, 4), Fraction(1, 2), Fraction(7, 10), Fraction(1, 10)])
    if rng.random() < 0.05:
        alpha = rng.choice([Fraction(0), Fraction(1), Fraction(-1, 2), Fraction(3, 2)])
        bad.append("alpha")
    d = rng.choice([0, 0, Fraction(1, 2), 1, 2, INF, None])
    if rng.random() < 0.04:
        d = Fraction(-1, 2)
        bad.append("discount")
    assign = rng.choice(["lower", "upper"])
    if rng.random() < 0.04:
        assign = "middle"
        bad.append("assign")
    w = None
    if rng.random() < 0.35:
        ws = dict(sizes)
        wd = gens.sub_dims(rng, sizes, p_drop=0.4)
        if rng.random() < 0.15:
            ws["q"] = 2
            wd = wd + ["q"]
        w = gens.rand_da(rng, ws, dims=wd, lo=0, hi=3, nan_p=0.1 if rng.random() < 0.3 else 0.0)
    rd, pd = gens.rand_dimspec(rng, list(sizes), allow_bad=rng.random() < 0.3)
    return dict(fcst=fcst, obs=obs, alpha=alpha, ths=ths, wts=wts, d=d, assign=assign, w=w, rd=rd, pd=pd, bad=bad, idt=idt, inf=inf)


def poke_some(rng, da, values, p):
    """replace each element with probability p (at least one, if any) by one of `values`"""
    if not da.size:
        return da
    flat = np.asarray(da.values, dtype=float).reshape(-1).copy()
    hit = [i for i in range(flat.size) if rng.random() < p] or [rng.randrange(flat.size)]
    for i in hit:
        flat[i] = rng.choice(values)
    return da.copy(data=flat.reshape(da.shape))


def firm_kwargs(c):
    kw = {"discount_distance": None if c["d"] is None else float(c["d"]), "threshold_assignment": c["assign"]}
    if c["rd"] is not None:
        kw["reduce_dims"] = c["rd"]
    if c["pd"] is not None:
        kw["preserve_dims"] = c["pd"]
    if c["w"] is not None:
        kw["weights"] = c["w"]
    return kw


def firm_desc(c):
    return {"fn": "firm", "fcst": gens.da_repr(c["fcst"]), "obs": gens.da_repr(c["obs"]), "risk_parameter": c["alpha"],
            "categorical_thresholds": [gens.da_repr(t) for t in c["ths"]], "threshold_weights": [gens.da_repr(t) for t in c["wts"]],
            "discount_distance": c["d"], "threshold_assignment": c["assign"], "weights": gens.da_repr(c["w"]),
            "reduce_dims": c["rd"], "preserve_dims": c["pd"], **({"dtype of fcst, obs and integer thresholds": c["idt"]} if c.get("idt") else {})}


def firm_full(ctx):
    CAT, CON, _ = S()
    rng = ctx.rng
    for i in range(ctx.n(200, 2500)):
        if not ctx.time_left():
            break
        c = gen_firm_case(ctx)
        impl = core.call_impl(CAT.firm, c["fcst"], c["obs"], float(c["alpha"]), c["ths"], c["wts"], **firm_kwargs(c))
        m = ctx.model("c12_firm", enc_list([enc_arr(c["fcst"]), enc_arr(c["obs"]), enc_num(c["alpha"]), enc_list([enc_arr(t) for t in c["ths"]]),
                                            enc_list([enc_arr(t) for t in c["wts"]]), enc_opt(c["d"], enc_num), enc_dimspec(c["rd"]), enc_dimspec(c["pd"]),
                                            enc_opt(c["w"], enc_arr), enc_str(c["assign"])]))
        desc = firm_desc(c)
        nontrivial = impl[0] == "ok" and bool(np.isfinite(impl[1]["firm_score"].values).any())
        ctx.case(desc, nontrivial)
        ctx.count("firm:" + ("ok" if impl[0] == "ok" else impl[1]))
        ctx.count("firm:assign=" + c["assign"])
        ctx.count("firm:discount=" + ("none" if c["d"] is None else "0" if c["d"] == 0 else "inf" if c["d"] == INF else "finite"))
        for b in c["bad"]:
            ctx.count("firm:malformed=" + b)
        if any(isinstance(t, xr.DataArray) for t in c["ths"]):
            ctx.count("firm:array_threshold")
        if c["idt"]:
            ctx.count("firm:integer_dtype=" + ("unsigned" if c["idt"].startswith("u") else "signed"))
        if c["inf"]:
            ctx.count("firm:infinite_values")
        if any(isinstance(t, xr.DataArray) for t in c["wts"]):
            ctx.count("firm:array_threshold_weight")
        if i < 2:
            ctx.sample(desc)
        ok, why = core.compare_dataset(impl, m, FVARS)
        if not ok:
            ctx.tie_fail("firm vs model: " + why, desc, str(impl[1])[:300], str(m)[:300])
        if impl[0] != "ok":
            continue
        r = impl[1]
        # firm_score = overforecast + underforecast per case (before averaging); reduced = NaN-skipping mean of weight * per-case
        if True:
            st, pc = core.call_impl(CAT.firm, c["fcst"], c["obs"], float(c["alpha"]), c["ths"], c["wts"],
                                    discount_distance=None if c["d"] is None else float(c["d"]), threshold_assignment=c["assign"], preserve_dims="all")
            if st == "ok":
                ctx.count("firm:mean_of_cases_checked")
                for v in FVARS:
                    check_mean_of_cases(ctx, "firm " + v, pc[v], c["w"], r[v], desc)
                if not np.allclose(pc["firm_score"].values, (pc["overforecast_penalty"] + pc["underforecast_penalty"]).values, rtol=0, atol=1e-9, equal_nan=True):
                    ctx.violation("firm_score != overforecast_penalty + underforecast_penalty", desc, "sum", str(pc["firm_score"].values.tolist())[:200])


def check_mean_of_cases(ctx, fn, per_case, weights, result, desc):
    x = per_case if weights is None else per_case * weights
    red = [d for d in x.dims if d not in result.dims]
    exp = x.mean(dim=red) if red else x
    try:
        exp = exp.transpose(*result.dims)
        ok = bool(np.allclose(np.asarray(result), np.asarray(exp), rtol=0, atol=1e-9, equal_nan=True))
    except ValueError:
        ok = False
    if not ok:
        ctx.violation(fn + ": reduced result is not the NaN-skipping mean of weight * per-case score over the reduced dimensions", desc,
                      str(np.asarray(exp).tolist())[:200], str(np.asarray(result).tolist())[:200])


def firm_murphy_sum(ctx):
    """firm (lower) per case = sum_j w_j * Murphy elementary score at theta = threshold_j, on the implementation.
    Forecasts, observations and thresholds may be infinite (20 % of the cases; forecasts since /repo 806a3e1, see firm_grid)"""
    CAT, CON, _ = S()
    rng = ctx.rng
    grid = [Fraction(k, 2) for k in range(-4, 5)]
    for i in range(ctx.n(40, 400)):
        if not ctx.time_left():
            break
        inf = rng.random() < 0.2
        sizes = gens.rand_sizes(rng, names=["a", "b"], maxdims=2, maxsize=3)
        fcst = gens.rand_da(rng, sizes, values=grid, nan_p=rng.choice([0.0, 0.15]))
        odims = gens.sub_dims(rng, sizes, p_drop=0.25)
        obs = gens.rand_da(rng, sizes, dims=odims, values=grid, nan_p=rng.choice([0.0, 0.15]))
        if inf:
            obs = poke_some(rng, obs, [INF, -INF], 0.3)
            if rng.random() < 0.6:
                fcst = poke_some(rng, fcst, [INF, -INF], 0.25)
        k = rng.randint(1, 3)
        if rng.random() < 0.5:
            ths = [float(t) for t in rng.sample(grid + ([INF, -INF] if inf else []), k)]
        else:      # per-case thresholds along the data dims, NaN included: thetas are then passed to murphy_score as a DataArray
            ths = [gens.rand_da(rng, sizes, dims=gens.sub_dims(rng, sizes, p_drop=0.4, keep_at_least=1), values=grid, nan_p=0.2) for _ in range(k)]
            if inf:
                ths = [poke_some(rng, t, [INF, -INF], 0.2) for t in ths]
        wts = [float(rng.choice([Fraction(1, 2), 1, 2, 3])) for _ in range(k)]
        alpha = float(rng.choice([Fraction(1, 4), Fraction(1, 2), Fraction(7, 10)]))
        d = rng.choice([0, Fraction(1, 2), 1, 2, INF])
        functional = "quantile" if d == 0 else "expectile" if d == INF else "huber"
        st, pc = core.call_impl(CAT.firm, fcst, obs, alpha, ths, wts, discount_distance=float(d), preserve_dims="all")
        desc = {"fn": "firm vs murphy_score", "fcst": gens.da_repr(fcst), "obs": gens.da_repr(obs), "risk_parameter": alpha,
                "categorical_thresholds": [gens.da_repr(t) for t in ths], "threshold_weights": wts, "discount_distance": d, "functional": functional}
        ctx.case(desc, st == "ok")
        ctx.count("firm:murphy_link_checked")
        if inf:
            ctx.count("firm:murphy_link_infinite")
        if st != "ok":
            ctx.violation("firm raised on a valid call", desc, "values", pc)
            continue
        undefined = xr.zeros_like(pc["firm_score"], dtype=bool)     # (no case is left out: equal infinities are at distance 0 in both scores)
        for var, mvar in zip(FVARS, ("total", "overforecast", "underforecast")):
            tot = 0
            for t, wt in zip(ths, wts):
                mu = CON.murphy_score(fcst, obs, t if isinstance(t, xr.DataArray) else [t], functional=functional, alpha=alpha,
                                      huber_a=float(d) if functional == "huber" else None, decomposition=True, preserve_dims="all")[mvar]
                if not isinstance(t, xr.DataArray):
                    mu = mu.isel(theta=0, drop=True)
                tot = tot + wt * mu
            a, b, u = xr.broadcast(pc[var], tot, undefined)
            b, u = b.transpose(*a.dims), u.transpose(*a.dims)
            av, bv = np.where(u.values, NAN, a.values), np.where(u.values, NAN, b.values)
            if not np.allclose(av, bv, rtol=1e-9, atol=1e-9, equal_nan=True):
                fk = None
                if inf and d != 0:       # is the deviation exactly the recorded finding (FIRM as the unrepaired code, Murphy right)?
                    c = dict(fcst=fcst, obs=obs, alpha=Fraction(alpha), ths=ths, wts=wts, d=d, assign="lower")
                    tru, leg = firm_oracle_arrays(c)[var], firm_oracle_arrays(c, legacy=True)[var]
                    tru, leg = tru.transpose(*a.dims).reindex_like(a).values, leg.transpose(*a.dims).reindex_like(a).values      # same label order
                    if np.allclose(np.where(u.values, NAN, leg), av, rtol=1e-9, atol=1e-9, equal_nan=True) and \
                            np.allclose(np.where(u.values, NAN, tru), bv, rtol=1e-9, atol=1e-9, equal_nan=True):
                        fk = FINDING_INF
                ctx.violation(f"firm {var} != sum_j w_j * Murphy elementary score ({mvar}) at the thresholds", desc, str(bv.tolist())[:200],
                              str(av.tolist())[:200], finding_key=fk)


# ------------------------------------------------------------------------------------------
# (c), (d) risk matrix score
# ------------------------------------------------------------------------------------------
def rms_grid(ctx):
    _, _, EM = S()
    fvals = [0.0, 0.25, 0.5, 0.75, 1.0, NAN]
    ovals = [0.0, 1.0, NAN]
    cases = [(a, b) for a in fvals for b in ovals]
    f = xr.DataArray([[c[0]] for c in cases], dims=["case", "sev"], coords={"case": range(len(cases)), "sev": [0]})
    o = xr.DataArray([[c[1]] for c in cases], dims=["case", "sev"], coords={"case": range(len(cases)), "sev": [0]})
    n = 0
    for assign in ("lower", "upper"):
        for p in (0.25, 0.5, 0.75):
            for wv in (1.0, 3.0):
                dw = xr.DataArray([[wv]], dims=["prob", "sev"], coords={"prob": [p], "sev": [0]})
                st, r = core.call_impl(EM.risk_matrix_score, f, o, dw, "sev", "prob", threshold_assignment=assign, preserve_dims="all")
                if st != "ok":
                    ctx.violation("risk_matrix_score raises on valid inputs (forecast probabilities in {0,1/4,1/2,3/4,1,NaN}, obs in {0,1,NaN})",
                                  {"fcst": fvals, "obs": ovals, "prob_threshold": p, "weight": wv, "threshold_assignment": assign}, "values", r)
                    return
                for k, (fv, ov) in enumerate(cases):
                    rows = enc_list([enc_list([enc_num(fv), enc_num(ov), enc_list([enc_list([enc_num(p), enc_num(wv)])])])])
                    gen, spec = core.dec_nums(ctx.model("c12_rms_case", enc_list([rows, enc_str(assign)])))
                    x = float(r.values[k])
                    case = {"fcst": fv, "obs": ov, "prob_threshold": p, "weight": wv, "threshold_assignment": assign}
                    ctx.case(("rms_cell", fv, ov, p, wv, assign), nontrivial=not np.isnan(x))
                    n += 1
                    if not core.close(x, spec):
                        ctx.violation("risk_matrix_score cell differs from w * s_j(f, y)", case, spec, x)
                    if not core.close(x, gen):
                        ctx.tie_fail("gen_rms_cell vs implementation", case, x, gen)
    ctx.count("rms_grid_points", n)


def gen_rms_case(ctx):
    rng = ctx.rng
    pgrid = [Fraction(k, 4) for k in range(0, 5)]
    n_sev, n_prob = rng.randint(1, 3), rng.randint(1, 3)
    sizes = gens.rand_sizes(rng, names=["a", "b"], maxdims=2, maxsize=3, mindims=0)
    fs = dict(sizes, sev=n_sev)
    fcst = gens.rand_da(rng, fs, values=pgrid, nan_p=rng.choice([0.0, 0.15]))
    odims = gens.sub_dims(rng, sizes, p_drop=0.25) + ["sev"]
    osz = dict(fs)
    if rng.random() < 0.1:
        osz["z"] = 2
        odims.append("z")
    obs = gens.rand_da(rng, osz, dims=odims, values=[0, 1], nan_p=rng.choice([0.0, 0.15]))
    probs = sorted(rng.sample([Fraction(k, 8) for k in range(1, 8)], n_prob))
    rng.shuffle(probs)
    dwd = ["prob", "sev"]
    rng.shuffle(dwd)
    sev_labels = list(range(n_sev))
    rng.shuffle(sev_labels)
    shape = [n_prob if d == "prob" else n_sev for d in dwd]
    dw = xr.DataArray(np.array([float(Fraction(rng.randint(0, 6), 2)) for _ in range(n_prob * n_sev)]).reshape(shape), dims=dwd,
                      coords={"prob": [float(p) for p in probs], "sev": sev_labels})
    w = None
    allsz = dict(osz)
    allsz.update(sizes)
    allsz.pop("sev")
    if rng.random() < 0.35:
        ws = dict(allsz)
        wd = gens.sub_dims(rng, allsz, p_drop=0.4)
        if rng.random() < 0.15:
            ws["q"] = 2
            wd = wd + ["q"]
        w = gens.rand_da(rng, ws, dims=wd, lo=0, hi=3, nan_p=0.1 if rng.random() < 0.3 else 0.0)
    assign = rng.choice(["lower", "upper"])
    data_dims = sorted(set(allsz) | (set(w.dims) if w is not None else set()))
    rd, pd = gens.rand_dimspec(rng, data_dims, allow_bad=rng.random() < 0.3)
    sev, prob = "sev", "prob"
    bad = None
    if rng.random() < 0.22:
        bad = rng.choice(["fcst_range", "obs_value", "prob0", "prob1", "sev_coords", "assign", "w_sev", "w_prob", "dw3", "sev_missing_f",
                          "sev_missing_o", "prob_in_f", "prob_missing", "sev_in_req"])
        if bad == "fcst_range":
            fcst = poke(rng, fcst, rng.choice([1.25, -0.25]))
        elif bad == "obs_value":
            obs = poke(rng, obs, rng.choice([0.5, 2.0, -1.0]))
        elif bad == "prob0":
            dw = dw.assign_coords(prob=[0.0] + [float(p) for p in probs[1:]])
        elif bad == "prob1":
            dw = dw.assign_coords(prob=[1.0] + [float(p) for p in probs[1:]])
        elif bad == "sev_coords":
            dw = dw.assign_coords(sev=[x + 1 for x in sev_labels])
        elif bad == "assign":
            assign = "middle"
        elif bad == "w_sev":
            w = xr.DataArray([1.0] * n_sev, dims=["sev"], coords={"sev": list(range(n_sev))})
        elif bad == "w_prob":
            w = xr.DataArray([1.0, 2.0], dims=["prob"], coords={"prob": [0, 1]})
        elif bad == "dw3":
            dw = dw.expand_dims(k=[0, 1])
        elif bad == "sev_missing_f":
            sev = "severity"
        elif bad == "sev_missing_o":
            obs = obs.isel(sev=0, drop=True)
        elif bad == "prob_in_f":
            fcst = fcst.expand_dims(prob=[0])
        elif bad == "prob_missing":
            prob = "pthr"
        elif bad == "sev_in_req":
            rd, pd = (["sev"], None) if rng.random() < 0.5 else (None, ["sev"])
    return dict(fcst=fcst, obs=obs, dw=dw, w=w, assign=assign, rd=rd, pd=pd, sev=sev, prob=prob, bad=bad)


def poke(rng, da, v):
    da = da.copy()
    flat = da.values.reshape(-1).copy()
    flat[rng.randrange(flat.size)] = float(v)
    return da.copy(data=flat.reshape(da.shape))


def rms_kwargs(c):
    kw = {"threshold_assignment": c["assign"]}
    if c["rd"] is not None:
        kw["reduce_dims"] = c["rd"]
    if c["pd"] is not None:
        kw["preserve_dims"] = c["pd"]
    if c["w"] is not None:
        kw["weights"] = c["w"]
    return kw


def labels(da, d):
    return [Fraction(float(x)) for x in da[d].values] if d in da.dims and d in da.coords else []


def rms_model(ctx, c):
    dw = c["dw"]
    thr = dw[c["prob"]] if c["prob"] in dw.dims else xr.DataArray([0.5], dims=["__none"])
    return ctx.model("c12_rms", enc_list([
        enc_arr(c["fcst"]), enc_arr(c["obs"]), enc_arr(dw), enc_arr(thr), enc_str(c["sev"]), enc_str(c["prob"]),
        enc_nums(labels(c["fcst"], c["sev"])), enc_nums(labels(c["obs"], c["sev"])), enc_nums(labels(dw, c["sev"])),
        enc_str(c["assign"]), enc_dimspec(c["rd"]), enc_dimspec(c["pd"]), enc_opt(c["w"], enc_arr)]))


def rms_desc(c):
    return {"fn": "risk_matrix_score", "fcst": gens.da_repr(c["fcst"]), "obs": gens.da_repr(c["obs"]), "decision_weights": gens.da_repr(c["dw"]),
            "severity_dim": c["sev"], "prob_threshold_dim": c["prob"], "threshold_assignment": c["assign"], "weights": gens.da_repr(c["w"]),
            "reduce_dims": c["rd"], "preserve_dims": c["pd"]}


def rms_full(ctx):
    _, _, EM = S()
    rng = ctx.rng
    for i in range(ctx.n(200, 2500)):
        if not ctx.time_left():
            break
        c = gen_rms_case(ctx)
        impl = core.call_impl(EM.risk_matrix_score, c["fcst"], c["obs"], c["dw"], c["sev"], c["prob"], **rms_kwargs(c))
        m = rms_model(ctx, c)
        desc = rms_desc(c)
        nontrivial = impl[0] == "ok" and bool(np.isfinite(np.asarray(impl[1])).any())
        ctx.case(desc, nontrivial)
        ctx.count("rms:" + ("ok" if impl[0] == "ok" else impl[1]))
        ctx.count("rms:assign=" + c["assign"])
        if c["bad"]:
            ctx.count("rms:malformed=" + c["bad"])
        if i < 2:
            ctx.sample(desc)
        ok, why = core.compare_result(impl, m)
        if not ok:
            ctx.tie_fail("risk_matrix_score vs model: " + why, desc, str(impl[1])[:300], str(m)[:300])
        if impl[0] != "ok" or c["bad"]:
            continue
        # per-case value = the stated double sum (specification entry), on the implementation
        if rng.random() < 0.5:
            st, pc = core.call_impl(EM.risk_matrix_score, c["fcst"], c["obs"], c["dw"], "sev", "prob", threshold_assignment=c["assign"], preserve_dims="all")
            if st == "ok":
                ctx.count("rms:mean_of_cases_checked")
                check_mean_of_cases(ctx, "risk_matrix_score", pc, c["w"], impl[1], desc)
                f, o = xr.broadcast(c["fcst"], c["obs"])
                other = [d for d in pc.dims]
                pts = list(itertools.product(*[list(pc[d].values) for d in other]))
                for pt in pts[:6]:
                    sel = dict(zip(other, pt))
                    rows = []
                    for s in c["dw"]["sev"].values:
                        pws = [enc_list([enc_num(Fraction(float(p))), enc_num(Fraction(float(c["dw"].sel(sev=s, prob=p))))]) for p in c["dw"]["prob"].values]
                        rows.append(enc_list([enc_num(float(f.sel(sel).sel(sev=s))), enc_num(float(o.sel(sel).sel(sev=s))), enc_list(pws)]))
                    gen, spec = core.dec_nums(ctx.model("c12_rms_case", enc_list([enc_list(rows), enc_str(c["assign"])])))
                    x = float(pc.sel(sel))
                    ctx.count("rms:double_sum_checked")
                    if not core.close(x, spec):
                        ctx.violation("risk_matrix_score case differs from sum_i sum_j w_ij s_j(f_i, y_i)", dict(desc, at=sel), spec, x)
        # severity_dim given as an equal but not identical string object
        if rng.random() < 0.25:
            sd = "".join(["se", "v"])
            got = core.call_impl(EM.risk_matrix_score, c["fcst"], c["obs"], c["dw"], sd, "prob", **rms_kwargs(c))
            ctx.count("rms:non_interned_name")
            okk = got[0] == "ok" and np.allclose(np.asarray(got[1]), np.asarray(impl[1]), equal_nan=True)
            if not okk:
                ctx.violation("risk_matrix_score depends on the identity (not the value) of the severity_dim string", desc,
                              str(np.asarray(impl[1]).tolist())[:120], str(got[1])[:120])


# ------------------------------------------------------------------------------------------
# (e) weight matrices
# ------------------------------------------------------------------------------------------
def dec_mat(t):
    return core.dec_nums(t[0]), [core.dec_nums(r) for r in t[1]]


def compare_matrix(impl, m, prob="prob", sev="sev"):
    st, val = impl
    if core.is_err(m) or st == "err":
        return (st == "err" and val == m), f"impl {val if st == 'err' else 'value'}, model {m if core.is_err(m) else 'value'}"
    coords, rows = dec_mat(m)
    if list(val.dims) != [prob, sev]:
        return False, f"dims {val.dims}"
    if not core.close_list(list(val[prob].values), coords):
        return False, f"threshold coordinate: impl {val[prob].values.tolist()} model {[str(c) for c in coords]}"
    flat = [x for r in rows for x in r]
    if not core.close_list(list(np.asarray(val.values, dtype=float).ravel()), flat):
        return False, f"data: impl {val.values.tolist()} model {[[str(x) for x in r] for r in rows]}"
    return True, ""


def mwa_check(ctx):
    _, _, EM = S()
    rng = ctx.rng
    for i in range(ctx.n(80, 600)):
        nr, nc = rng.randint(1, 3), rng.randint(1, 3)
        M = [[Fraction(rng.randint(0, 8), 2) for _ in range(nc)] for _ in range(nr)]
        ps = rng.sample([Fraction(k, 8) for k in range(1, 8)], nr)
        sevs = list(range(nc))
        bad = None
        r = rng.random()
        if r < 0.08:
            ps = ps + [Fraction(1, 16)]
            bad = "rows"
        elif r < 0.16:
            sevs = sevs + [nc]
            bad = "cols"
        elif r < 0.24:
            ps[rng.randrange(nr)] = rng.choice([Fraction(0), Fraction(1), Fraction(5, 4)])
            bad = "range"
        impl = core.call_impl(EM.matrix_weights_to_array, np.array([[float(x) for x in r_] for r_ in M]), "sev", sevs, "prob", [float(p) for p in ps])
        m = ctx.model("c12_mwa", enc_list([enc_list([enc_nums(r_) for r_ in M]), str(len(sevs)), enc_nums(ps)]))
        desc = {"fn": "matrix_weights_to_array", "matrix_weights": M, "severity_coords": sevs, "prob_threshold_coords": ps}
        ctx.case(desc, impl[0] == "ok")
        ctx.count("mwa:" + ("ok" if impl[0] == "ok" else impl[1]) + (":" + bad if bad else ""))
        ok, why = compare_matrix(impl, m)
        if not ok:
            ctx.tie_fail("matrix_weights_to_array vs model: " + why, desc, str(impl[1])[:300], str(m)[:300])
        if impl[0] == "ok":
            # rows in decreasing probability: row k of the input belongs to the k-th largest threshold
            da = impl[1]
            srt = sorted(ps, reverse=True)
            for k, p in enumerate(srt):
                got = [float(x) for x in da.sel(prob=float(p)).values]
                if not core.close_list(got, M[k]):
                    ctx.violation("matrix_weights_to_array: row k is not attached to the k-th largest probability threshold", desc, M[k], got)
            if any(a <= b for a, b in zip(da["prob"].values[:-1], da["prob"].values[1:])):
                ctx.violation("matrix_weights_to_array: threshold coordinate not strictly decreasing", desc, srt, da["prob"].values.tolist())


def valid_scaling(rng, n_prob, n_sev, q):
    raw = [[rng.randint(0, q) if rng.random() < 0.6 else 0 for _ in range(n_sev)] for _ in range(n_prob)]
    M = [[0] * (n_sev + 1) for _ in range(n_prob + 1)]
    for r in range(n_prob):
        for c in range(1, n_sev + 1):
            M[r][c] = max(raw[r2][c2 - 1] for r2 in range(r, n_prob) for c2 in range(1, c + 1))
    return M


def wfs_one(ctx, EM, M, aw, ps, sevs, bad=None):
    impl = core.call_impl(EM.weights_from_warning_scaling, np.array(M, dtype=int), [float(a) for a in aw], "sev", sevs, "prob", [float(p) for p in ps])
    arg = [enc_list([enc_list([str(int(v)) for v in r]) for r in M]), enc_nums(aw), enc_nums(ps), str(len(sevs))]
    m = ctx.model("c12_wfs", enc_list(arg + [enc_bool(False)]))
    desc = {"fn": "weights_from_warning_scaling", "scaling_matrix": M, "assessment_weights": aw, "severity_coords": sevs, "prob_threshold_coords": ps}
    ctx.case(desc, impl[0] == "ok")
    ctx.count("wfs:" + ("ok" if impl[0] == "ok" else impl[1]) + (":" + bad if bad else ""))
    ok, why = compare_matrix(impl, m)
    if not ok:
        ctx.tie_fail("weights_from_warning_scaling vs line-by-line model: " + why, desc, str(impl[1])[:300], str(m)[:300])
    ms = ctx.model("c12_wfs", enc_list(arg + [enc_bool(True)]))
    ok_spec, why_spec = compare_matrix(impl, ms)
    if not ok_spec:
        ctx.violation("weights_from_warning_scaling differs from the specification (weight of level l at the decision points where l is reached "
                      "strictly lower than in every column to the left): " + why_spec, desc, str(ms)[:300],
                      str(impl[1].values.tolist() if impl[0] == "ok" else impl[1])[:300])
    return impl


def wfs_check(ctx):
    _, _, EM = S()
    rng = ctx.rng
    # all valid scaling matrices with at most 2 thresholds x 2 severities over levels 0..2
    seen = set()
    for n_prob in (1, 2):
        for n_sev in (1, 2):
            for raw in itertools.product(range(3), repeat=n_prob * n_sev):
                M = [[0] * (n_sev + 1) for _ in range(n_prob + 1)]
                for r in range(n_prob):
                    for c in range(n_sev):
                        M[r][c + 1] = raw[r * n_sev + c]
                if any(M[r][c] > M[r][c + 1] for r in range(n_prob + 1) for c in range(n_sev)) or \
                        any(M[r][c] < M[r + 1][c] for r in range(n_prob) for c in range(n_sev + 1)):
                    continue
                mx = max(v for r in M for v in r)
                for extra in (0, 1):
                    aw = [Fraction(k + 1) for k in range(mx + extra)]
                    if not aw:
                        continue
                    key = (tuple(map(tuple, M)), len(aw))
                    if key in seen:
                        continue
                    seen.add(key)
                    ps = [Fraction(k + 1, 8) for k in range(n_prob)]
                    wfs_one(ctx, EM, M, aw, ps, list(range(n_sev)))
    ctx.count("wfs:small_matrices_enumerated", len(seen))
    for i in range(ctx.n(120, 1200)):
        if not ctx.time_left():
            break
        n_prob, n_sev, q = rng.randint(1, 4), rng.randint(1, 3), rng.randint(1, 3)
        M = valid_scaling(rng, n_prob, n_sev, q)
        mx = max(v for r in M for v in r)
        aw = [Fraction(rng.randint(1, 6), 2) for _ in range(mx + rng.randint(0, 2))] or [Fraction(1)]
        ps = rng.sample([Fraction(k, 8) for k in range(1, 8)], n_prob)
        sevs = list(range(n_sev))
        bad = None
        r = rng.random()
        if r < 0.25:
            bad = rng.choice(["negative", "first_col", "last_row", "row_decr", "col_incr", "n_probs", "n_sevs", "few_weights", "prob_range", "weight_nonpos"])
            if bad == "negative":
                M[rng.randrange(n_prob)][rng.randint(1, n_sev)] = -1
            elif bad == "first_col":
                M[rng.randrange(n_prob + 1)][0] = 1
            elif bad == "last_row":
                M[n_prob][rng.randint(0, n_sev)] = 1
            elif bad == "row_decr":
                M[0][n_sev] = 0
                M[0][max(1, n_sev - 1)] = 1
            elif bad == "col_incr":
                M[0][n_sev] = 0
                if n_prob > 1:
                    M[1][n_sev] = 1
            elif bad == "n_probs":
                ps = ps + [Fraction(1, 16)]
            elif bad == "n_sevs":
                sevs = sevs + [n_sev]
            elif bad == "few_weights":
                aw = aw[:max(0, mx - 1)] or [Fraction(1)]
            elif bad == "prob_range":
                ps[0] = rng.choice([Fraction(0), Fraction(1)])
            elif bad == "weight_nonpos":
                aw[rng.randrange(len(aw))] = Fraction(rng.choice([0, -1]))
        wfs_one(ctx, EM, M, aw, ps, sevs, bad)
    # float-typed scaling matrix: rejected by its dtype (implementation only)
    st = core.call_impl(EM.weights_from_warning_scaling, np.array([[0.0, 1.0], [0.0, 0.0]]), [1.0], "sev", [0], "prob", [0.5])
    if st != ("err", "err:ValueError"):
        ctx.violation("weights_from_warning_scaling accepted a float-typed scaling matrix", {"scaling_matrix": [[0.0, 1.0], [0.0, 0.0]]}, "err:ValueError", str(st[1])[:100])


def guard_boundaries(ctx):
    """documented argument checks at their boundaries, on the implementation (the guards themselves belong to C20; here they delimit
    the domain on which the sums are claimed)"""
    CAT, _, EM = S()
    f = xr.DataArray([0.0, 1.0, 2.0], dims=["x"])
    o = xr.DataArray([1.0, 1.0, 0.0], dims=["x"])
    for kw, must_raise in (({"a": 0.0}, True), ({"a": 1.0}, True), ({"a": 1e-9}, False), ({"a": 1 - 1e-9}, False), ({"a": 0.5, "d": -0.5}, True),
                           ({"a": 0.5, "d": 0.0}, False), ({"a": 0.5, "w": 0.0}, True), ({"a": 0.5, "w": -1.0}, True), ({"a": 0.5, "s": "middle"}, True)):
        got = core.call_impl(CAT.firm, f, o, kw["a"], [1.0], [kw.get("w", 1.0)], discount_distance=kw.get("d", 0.0), threshold_assignment=kw.get("s", "lower"))
        ctx.case(("firm_guard", str(kw)), nontrivial=True)
        if (got[0] == "err") != must_raise or (must_raise and got[1] != "err:ValueError"):
            ctx.violation("firm argument check at its boundary", {"fcst": [0, 1, 2], "obs": [1, 1, 0], "thresholds": [1.0], **kw},
                          "err:ValueError" if must_raise else "a value", str(got[1])[:100])
    dw = lambda ps: xr.DataArray([[1.0]] * len(ps), dims=["prob", "sev"], coords={"prob": ps, "sev": [0]})
    mk = lambda v: xr.DataArray([[x] for x in v], dims=["t", "sev"], coords={"t": range(len(v)), "sev": [0]})
    for fv, ov, ps, must_raise in (([0.0, 1.0], [0.0, 1.0], [0.5], False), ([0.0, 1.25], [0.0, 1.0], [0.5], True), ([-0.25, 1.0], [0.0, 1.0], [0.5], True),
                                   ([0.0, 1.0], [0.0, 0.5], [0.5], True), ([0.0, 1.0], [0.0, 1.0], [0.0, 0.5], True), ([0.0, 1.0], [0.0, 1.0], [0.5, 1.0], True),
                                   ([0.0, 1.0], [0.0, float("nan")], [0.001, 0.999], False)):
        got = core.call_impl(EM.risk_matrix_score, mk(fv), mk(ov), dw(ps), "sev", "prob")
        ctx.case(("rms_guard", str((fv, ov, ps))), nontrivial=True)
        if (got[0] == "err") != must_raise or (must_raise and got[1] != "err:ValueError"):
            ctx.violation("risk_matrix_score argument check at its boundary", {"fcst": fv, "obs": ov, "prob_thresholds": ps},
                          "err:ValueError" if must_raise else "a value", str(got[1])[:100])
    ctx.count("guard_boundary_probes", 16)


def corpus(ctx):
    """deterministic repros of the three defects repaired in /repo (known_findings.d/C12.json, status fixed): the old behaviour is a VIOLATION"""
    CAT, _, EM = S()
    # afd292a: firm(discount_distance=None) means no discounting
    f = xr.DataArray([[1.0, 2, 3], [2, 3, 4]], dims=["t", "x"])
    o = xr.DataArray([2.0, 3.0], dims=["t"])
    ref = core.call_impl(CAT.firm, f, o, 0.5, [2.0], [1.0], discount_distance=0, preserve_dims="all")
    got = core.call_impl(CAT.firm, f, o, 0.5, [2.0], [1.0], discount_distance=None, preserve_dims="all")
    case = {"fn": "firm", "fcst": [[1, 2, 3], [2, 3, 4]], "obs": [2, 3], "risk_parameter": 0.5, "thresholds": [2.0], "weights": [1.0], "discount_distance": None}
    ctx.case(("corpus", "firm-discount-none"))
    if not (ref[0] == "ok" and got[0] == "ok" and all(np.allclose(got[1][v].values, ref[1][v].values, equal_nan=True) for v in FVARS)):
        ctx.violation("firm(discount_distance=None) must mean no discounting (regression of afd292a)", case, "same as discount_distance=0", str(got[1])[:120])
    # 65c5778: severity_dim equal to the dimension name but not the same string object
    dw = xr.DataArray([[1.0, 2, 3], [1, 2, 3], [1, 2, 3]], dims=["prob", "sev"], coords={"prob": [0.1, 0.3, 0.5], "sev": [0, 1, 2]})
    f = xr.DataArray([[0.45, 0.22, 0.05], [0.65, 0.32, 0.09]], dims=["time", "sev"], coords={"time": [0, 1], "sev": [0, 1, 2]})
    o = xr.DataArray([[1.0, 1, 0], [1, 0, 0]], dims=["time", "sev"], coords={"time": [0, 1], "sev": [0, 1, 2]})
    sd = "".join(["se", "v"])
    for kw in ({}, {"reduce_dims": "all"}, {"preserve_dims": ["time"]}, {"preserve_dims": "all"}):
        ref = core.call_impl(EM.risk_matrix_score, f, o, dw, "sev", "prob", **kw)
        got = core.call_impl(EM.risk_matrix_score, f, o, dw, sd, "prob", **kw)
        ctx.case(("corpus", "rms-severity-dim-identity", str(kw)))
        if not (ref[0] == "ok" and got[0] == "ok" and np.allclose(np.asarray(got[1]), np.asarray(ref[1]))):
            ctx.violation("risk_matrix_score depends on the identity (not the value) of the severity_dim string (regression of 65c5778)",
                          {"fn": "risk_matrix_score", "severity_dim": "''.join(['se','v'])", **kw}, str(ref[1])[:100], str(got[1])[:100])
    # 73a32af: lowest_prob_index starts at n_prob + 1
    M = [[0, 1], [0, 0], [0, 0]]
    a = core.call_impl(EM.weights_from_warning_scaling, np.array(M, dtype=int), [1.0], "sev", [0], "prob", [0.25, 0.5])
    b = core.call_impl(EM.weights_from_warning_scaling, np.array(M, dtype=int), [1.0, 5.0], "sev", [0], "prob", [0.25, 0.5])
    if not (a[0] == "ok" and b[0] == "ok" and a[1].values.tolist() == [[1.0], [0.0]] and b[1].values.tolist() == [[1.0], [0.0]]):
        ctx.violation("weights_from_warning_scaling drops the weight of a level reached only in a high row / depends on an unused assessment "
                      "weight (regression of 73a32af)", {"scaling_matrix": M, "assessment_weights": [[1], [1, 5]], "prob_threshold_coords": [0.25, 0.5]},
                      [[1.0], [0.0]], str((a[1], b[1]))[:200])
    ctx.count("corpus_cases", 7)


def run_without_model(ctx):
    """used when a site no longer translates / the extracted model does not build: the specification predicates evaluated with the
    independent exact-rational oracle, and the relations between public calls (Murphy link)"""
    corpus(ctx)
    guard_boundaries(ctx)
    oracle_checks(ctx, scale=3)
    firm_murphy_sum(ctx)


def run(ctx):
    corpus(ctx)
    guard_boundaries(ctx)
    oracle_checks(ctx)
    firm_grid(ctx)
    rms_grid(ctx)
    firm_full(ctx)
    firm_murphy_sum(ctx)
    rms_full(ctx)
    mwa_check(ctx)
    wfs_check(ctx)
