"""C04 -- results depend on labelled values only, not on layout, container or scheduler."""
import copy
import inspect
import itertools

import numpy as np
import xarray as xr

import core
import gens
import scorelib

ID = "C04"
LEVEL = "translation_validation"
LEVEL_TEXT = ("Partial by nature. The label-level semantics of the Coq model (labelled arrays as functions of labels, coq/lib/Larr.v) is layout-free "
              "by construction, with Coq lemmas that a concrete row-major array denotes the same labelled function under any storage order; each "
              "representation change of the real inputs (transposition, independently shuffled coordinates, dask chunking under two schedulers, "
              "Dataset variables, pandas Series) is validated by checking that the implementation returns the value of the canonical "
              "representation, which is itself tied to the model. Laziness and non-mutation are observed, not proved.")
LEVEL_NOTE = ("runtime behaviour the model cannot exhibit: dask scheduling/thread interleavings, laziness, in-place mutation (observed only); "
              "positional dimensions (FSS spatial pair, CDF threshold, flip-flop sampling dim) are not label-shuffled because position is their "
              "meaning; fss_2d under dask is exempt (documented dask='forbidden'); contingency managers compute eagerly by design; the platform's "
              "bottleneck 1.6.0 returns garbage for whole-array reductions of some transposed views with a size-1 dimension: inputs are "
              "materialised after transposition and that platform defect is reported as a known finding")
TECHNIQUE = "translation validation of representation changes against the layout-free Coq model + Coq lemmas on row-major denotation"
SITES = []
RULE = ("per public function: a random labelled case is evaluated in the canonical representation and as: every/random permutation of dims, "
        "coordinate order shuffled independently per input, dask-chunked (one chunk, one chunk per element, random chunks) under synchronous and "
        "threaded schedulers, Dataset variables, pandas Series; distinct = (function, case, representation); non-trivial = canonical result finite somewhere")
ASSUMPTIONS = ["laziness and non-mutation are observations of this run, not theorems"]


# counters that every complete run must have incremented (harness self-check, see core.run_check)
EXPECT_COUNTS = ['rep:as-generated', 'rep:transpose', 'rep:shuffle-coords', 'rep:dask', 'rep:dtype', 'rep:dataset', 'rep:dataset-second-variable', 'rep:pandas', 'rep:pandas-angular', 'rep:manager-multistep', 'model_tie']

def S():
    import scores
    return scores


from recipes import Recipe, mat, recipes  # noqa: E402,F401


# ------------------------------------------------------------------------------------------
# representation changes
# ------------------------------------------------------------------------------------------
def rep_transpose(rng, x, fixed):
    dims = list(x.dims)
    rng.shuffle(dims)
    return mat(x.transpose(*dims))


def rep_shuffle(rng, x, fixed):
    out = x
    for d in x.dims:
        if d in fixed or d not in x.coords or x.sizes[d] < 2:
            continue
        idx = list(range(x.sizes[d]))
        rng.shuffle(idx)
        out = out.isel({d: idx})
    return mat(out)


def rep_dask(rng, x, mode):
    if mode == "one":
        ch = {d: -1 for d in x.dims}
    elif mode == "each":
        ch = {d: 1 for d in x.dims}
    else:
        ch = {d: rng.randint(1, max(1, x.sizes[d])) for d in x.dims}
    return x.chunk(ch)


def is_lazy(r):
    import dask
    return dask.is_dask_collection(r)


def compute(r, scheduler):
    import dask
    with dask.config.set(scheduler=scheduler):
        return r.compute() if hasattr(r, "compute") else r


def snapshot(xs):
    return [(np.array(x.values, copy=True), {k: np.array(v.values, copy=True) for k, v in x.coords.items()}, copy.deepcopy(dict(x.attrs)), tuple(x.dims)) for x in xs]


def unchanged(xs, snap):
    for x, (v, cs, at, dims) in zip(xs, snap):
        if tuple(x.dims) != dims or not np.array_equal(np.asarray(x.values), v, equal_nan=True) or dict(x.attrs) != at:
            return False
        for k, cv in cs.items():
            if k not in x.coords or not np.array_equal(np.asarray(x.coords[k].values), cv):
                return False
    return True


def xarraylike_params(fn):
    if fn is True:
        return True
    try:
        sig = inspect.signature(fn)
    except (TypeError, ValueError):
        return False
    names = list(sig.parameters)[:2]
    # XarrayLike / FlexibleArrayType are aliases: the signature shows the Union they expand to
    return all(any(t in str(sig.parameters[n].annotation) for t in ("XarrayLike", "FlexibleArrayType", "Dataset")) for n in names)


def run(ctx):
    rng = ctx.rng
    programs = 0
    R = recipes()
    for it in range(ctx.n(2, 12)):
        for rc in R:
            if not ctx.time_left():
                break
            raw = [mat(x) for x in rc.gen(rng)]
            xs = []
            for x in raw:          # canonical representation: labels sorted along every labelled, non-positional dimension
                for d in x.dims:
                    if d in x.coords and d not in rc.fixed:
                        x = x.sortby(d)
                xs.append(mat(x))
            kw = {}
            if rc.dims_kw and rng.random() < 0.7:
                cand = [d for d in xs[0].dims if d not in rc.fixed and d != "m" and d not in ("sev",)]
                sub = [d for d in cand if rng.random() < 0.5]
                kw = {"reduce_dims": sub} if rng.random() < 0.5 else {"preserve_dims": sub}
            for x in xs:
                x.attrs["units"] = "test"
            snap = snapshot(xs)
            base = core.call_impl(rc.call, xs, **kw)
            desc = {"fn": rc.name, "inputs": [gens.da_repr(x) for x in xs], "kw": kw}
            ctx.case((rc.name, "base", desc), base[0] == "ok")
            if base[0] != "ok":
                ctx.violation(f"{rc.name}: canonical representation raises {base[1]}", desc, "a value", base[1])
                continue
            if not unchanged(xs, snap):
                ctx.violation(f"{rc.name}: the call modified its inputs (values, coordinates or attrs)", desc, "inputs unchanged", "inputs changed")

            def check(rep, ys, post=None, lazy_expected=None, tol=1e-9):
                nonlocal programs
                snap2 = snapshot(ys) if lazy_expected is None else None
                r = core.call_impl(rc.call, ys, **kw)
                lazy = None
                if r[0] == "ok" and lazy_expected is not None:
                    lazy = is_lazy(r[1])
                    r = ("ok", post(r[1]))
                ok, why = scorelib.same_result(base, r, tol=tol)
                ctx.case((rc.name, rep, desc))
                ctx.count("rep:" + rep.split(":")[0])
                programs += 1
                if not ok:
                    fk = known_key(rc.name, rep, r)
                    ctx.violation(f"{rc.name}: result changes under representation '{rep}': {why}", dict(desc, representation=rep),
                                  "value of the canonical representation", why, finding_key=fk)
                elif lazy_expected and lazy is False:
                    ctx.violation(f"{rc.name}: result for dask inputs is not lazy (computed eagerly)", dict(desc, representation=rep), "lazy", "eager")
                if snap2 is not None and not unchanged(ys, snap2):
                    ctx.violation(f"{rc.name}: the call modified its inputs under '{rep}'", dict(desc, representation=rep), "unchanged", "changed")

            # transposition (each input independently) and coordinate order (independently per input)
            check("as-generated", raw)
            check("transpose", [rep_transpose(rng, x, rc.fixed) for x in xs])
            check("shuffle-coords", [rep_shuffle(rng, x, rc.fixed) for x in xs])
            check("transpose+shuffle", [rep_shuffle(rng, rep_transpose(rng, x, rc.fixed), rc.fixed) for x in xs])
            if rc.dims_kw and kw != {"preserve_dims": "all"}:
                # nothing reduced: a misaligned label cannot average away
                kw_saved, base_saved = kw, base
                kw = {"preserve_dims": "all"}
                base = core.call_impl(rc.call, xs, **kw)
                if base[0] == "ok":
                    check("shuffle-coords:preserve-all", [rep_shuffle(rng, x, rc.fixed) for x in xs])
                kw, base = kw_saved, base_saved
            # dask
            if rc.dask:
                for mode in ("one", "each", "random"):
                    for sched in ("synchronous", "threads"):
                        ys = [rep_dask(rng, x, mode) for x in xs]
                        check(f"dask:{mode}:{sched}", ys, post=lambda r, s=sched: compute(r, s), lazy_expected=rc.lazy)
            # storage dtype: the same integer values held as int64 / int32 / float32 instead of float64 (NaN-free
            # integer-valued inputs only; unsigned and bool storage are outside the quantifier: numpy itself wraps there)
            if rc.dtypes:
                xi = [x.copy(data=np.rint(np.nan_to_num(x.values, nan=0.0, posinf=3.0, neginf=-3.0))) for x in xs]
                kw_saved, base_saved = kw, base
                base = core.call_impl(rc.call, xi, **kw)
                if base[0] == "ok":
                    for dt in ("int64", "int32", "float32"):
                        which = [i for i in range(len(xi)) if rng.random() < 0.7] or [0]
                        check(f"dtype:{dt}", [x.astype(dt) if i in which else x for i, x in enumerate(xi)], tol=1e-9 if dt != "float32" else 2e-6)
                kw, base = kw_saved, base_saved
            # Dataset variables
            if rc.dataset is not None and xarraylike_params(rc.dataset):
                # second variable: the same fields read backwards (other values, other NaN slots, same domain and labels),
                # so that a mask or statistic shared between the variables of a Dataset shows
                xs2 = [x.copy(data=np.array(x.values.ravel()[::-1].reshape(x.shape), order="C", copy=True)) if x.dims != () else x for x in xs]
                base2 = core.call_impl(rc.call, xs2, **kw)
                ds = [xr.Dataset({"v1": x, "v2": x2}) for x, x2 in zip(xs, xs2)]
                r = core.call_impl(rc.call, ds, **kw)
                programs += 1
                ctx.case((rc.name, "dataset", desc))
                ctx.count("rep:dataset")
                if r[0] != "ok" or not isinstance(r[1], xr.Dataset):
                    ctx.violation(f"{rc.name}: Dataset inputs do not give a Dataset result ({r[1] if r[0] != 'ok' else type(r[1]).__name__})", desc, "Dataset", str(r[1])[:80])
                else:
                    ok, why = scorelib.same_value(base[1], r[1]["v1"])
                    if not ok:
                        ctx.violation(f"{rc.name}: Dataset variable differs from the DataArray result: {why}", desc, "same", why)
                    elif base2[0] == "ok":
                        ctx.count("rep:dataset-second-variable")
                        ok, why = scorelib.same_value(base2[1], r[1]["v2"])
                        if not ok:
                            ctx.violation(f"{rc.name}: second Dataset variable (the fields reversed) differs from the DataArray result: {why}",
                                          dict(desc, second_variable="each input's values in reverse flat order"), "same", why)
            if it == 0 and len(ctx.samples) < 4:
                ctx.sample(desc)
    pandas_api(ctx)
    manager_state(ctx)
    model_tie(ctx)
    bottleneck_probe(ctx)
    ctx.count("programs", programs)
    ctx.dist["programs"] = programs


def known_key(name, rep, r):
    return None


def pandas_api(ctx):
    import pandas as pd
    from scores.pandas import continuous as PC
    Sc = S()
    rng = ctx.rng
    for _ in range(ctx.n(10, 60)):
        n = rng.randint(1, 6)
        f = [float(gens.grid_value(rng)) for _ in range(n)]
        o = [float(gens.grid_value(rng)) if rng.random() > 0.15 else float("nan") for _ in range(n)]
        for nm in ("mse", "rmse", "mae"):
            for ang in (None, False, True):
                kwa = {} if ang is None else {"is_angular": ang}
                ff, oo = ([v * 45.0 for v in f], [v * 45.0 for v in o]) if ang else (f, o)      # degrees, several wraps
                a = core.call_impl(getattr(PC, nm), pd.Series(ff), pd.Series(oo), **kwa)
                b = core.call_impl(getattr(Sc.continuous, nm), xr.DataArray(ff, dims="x"), xr.DataArray(oo, dims="x"), **kwa)
                ctx.case(("pandas", nm, ang, tuple(ff), tuple(map(str, oo))))
                ctx.count("rep:pandas-angular" if ang else "rep:pandas")
                if a[0] != b[0] or (a[0] == "ok" and not np.allclose(float(a[1]), float(b[1]), rtol=1e-9, atol=1e-12, equal_nan=True)):
                    ctx.violation(f"scores.pandas.continuous.{nm}({kwa}) differs from the xarray function on the same values", {"fcst": ff, "obs": oo, "kwargs": kwa}, str(b[1]), str(a[1]))


def manager_state(ctx):
    """multi-step use of a contingency manager: transform() must not change the manager itself - neither the values of
    its own metrics nor (for dask inputs) their laziness; BasicContingencyManager computes the dict it is given, so a
    transform that hands over the manager's own counts would compute them in place"""
    import scores
    rng = ctx.rng
    for _ in range(ctx.n(4, 30)):
        sizes = {"a": rng.randint(2, 3), "b": rng.randint(2, 3)}
        f = gens.rand_da(rng, sizes, lo=0, hi=4, den=1, nan_p=0.1)
        o = gens.rand_da(rng, sizes, lo=0, hi=4, den=1, nan_p=0.1)
        for use_dask in (False, True):
            ff, oo = (f.chunk({"a": 1}), o.chunk({"b": 1})) if use_dask else (f, o)
            m = scores.categorical.ThresholdEventOperator().make_contingency_manager(ff, oo, event_threshold=2)
            names = ("accuracy", "probability_of_detection", "false_alarm_rate")
            before = {k: getattr(m, k)() for k in names}
            lazy_before = {k: is_lazy(v) for k, v in before.items()}
            for kwt in ({}, {"preserve_dims": ["a"]}, {"reduce_dims": "all"}):
                core.call_impl(m.transform, **kwt)
            after = {k: getattr(m, k)() for k in names}
            desc = {"fn": "BinaryContingencyManager multi-step", "fcst": gens.da_repr(f), "obs": gens.da_repr(o), "dask": use_dask}
            ctx.case(("manager-state", desc))
            ctx.count("rep:manager-multistep")
            for k in names:
                ok, why = scorelib.same_value(compute(before[k], "synchronous"), compute(after[k], "synchronous"))
                if not ok:
                    ctx.violation(f"manager.{k}() changes value after transform() calls on the same manager: {why}", desc, "unchanged", why)
                if is_lazy(after[k]) != lazy_before[k]:
                    ctx.violation(f"manager.{k}() was {'lazy' if lazy_before[k] else 'eager'} before and is {'lazy' if is_lazy(after[k]) else 'eager'} after transform() calls on the same manager",
                                  desc, "same laziness", "changed")


def model_tie(ctx):
    """the canonical representation itself is tied to the (layout-free) model for the registered functions"""
    rng = ctx.rng
    for name, fn in scorelib.REGISTRY.items():
        for _ in range(ctx.n(3, 20)):
            arrs, w, sizes = scorelib.gen_arrays(rng, fn)
            extra = fn.gen_extra(rng)
            rd, pd = gens.rand_dimspec(rng, list(sizes))
            # the same case in two storage layouts must reach the same model value
            impl, m, ok, why = fn.run(ctx, arrs, extra, rd, pd, w)
            arrs2 = [rep_shuffle(rng, rep_transpose(rng, a, []), []) for a in arrs]
            impl2, m2, ok2, why2 = fn.run(ctx, arrs2, extra, rd, pd, w)
            ctx.case(("tie", name, fn.describe(arrs, extra, rd, pd, w)))
            ctx.count("model_tie")
            if not ok or not ok2:
                ctx.tie_fail(f"{name} vs model under a layout change: {why or why2}", fn.describe(arrs, extra, rd, pd, w), str(impl[1])[:200], str(m)[:200])


def bottleneck_probe(ctx):
    """the platform defect behind 'materialise after transposing': reported as a known finding while it reproduces"""
    v = np.arange(4.0).reshape(1, 2, 2).transpose(0, 2, 1)
    da = xr.DataArray(np.arange(4.0).reshape(1, 2, 2), dims=["a", "b", "c"]).transpose("a", "c", "b")
    got = float(da.max())
    if got != 3.0:
        ctx.violation("platform: xarray/bottleneck whole-array max of a transposed view with a size-1 dimension is wrong (affects any score that range-checks such an input)",
                      {"array": "arange(4).reshape(1,2,2) transposed (0,2,1)"}, 3.0, got, finding_key="platform-bottleneck-transposed-view")
