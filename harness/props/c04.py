"""C04 -- results depend on labelled values only, not on layout, container or scheduler."""
import copy
import inspect
import itertools

import numpy as np
import xarray as xr

import core
import gens
import scorelib

ID = "C04"
LEVEL = "translation_validation"
LEVEL_TEXT = ("Partial by nature. The label-level semantics of the Coq model (labelled arrays as functions of labels, coq/lib/Larr.v) is layout-free "
              "by construction, with Coq lemmas that a concrete row-major array denotes the same labelled function under any storage order; each "
              "representation change of the real inputs (transposition, independently shuffled coordinates, dask chunking under two schedulers, "
              "Dataset variables, pandas Series) is validated by checking that the implementation returns the value of the canonical "
              "representation, which is itself tied to the model. Laziness and non-mutation are observed, not proved.")
LEVEL_NOTE = ("runtime behaviour the model cannot exhibit: dask scheduling/thread interleavings, laziness, in-place mutation (observed only); "
              "positional dimensions (FSS spatial pair, CDF threshold, flip-flop sampling dim) are not label-shuffled because position is their "
              "meaning; fss_2d under dask is exempt (documented dask='forbidden'); contingency managers compute eagerly by design; the platform's "
              "bottleneck 1.6.0 returns garbage for whole-array reductions of some transposed views with a size-1 dimension: inputs are "
              "materialised after transposition and that platform defect is reported as a known finding")
TECHNIQUE = "translation validation of representation changes against the layout-free Coq model + Coq lemmas on row-major denotation"
SITES = []
RULE = ("per public function: a random labelled case is evaluated in the canonical representation and as: every/random permutation of dims, "
        "coordinate order shuffled independently per input, dask-chunked (one chunk, one chunk per element, random chunks) under synchronous and "
        "threaded schedulers, Dataset variables, pandas Series; distinct = (function, case, representation); non-trivial = canonical result finite somewhere")
ASSUMPTIONS = ["laziness and non-mutation are observations of this run, not theorems"]


def S():
    import scores
    return scores


def mat(da):
    """materialise as a fresh C-contiguous array (avoids the platform's bottleneck bug on strided views)"""
    return xr.DataArray(np.array(da.values, order="C", copy=True), dims=da.dims, coords={k: v for k, v in da.coords.items()}, attrs=dict(da.attrs))


# ------------------------------------------------------------------------------------------
# recipes: name -> (inputs generator, call(inputs, **dims kw), options)
# ------------------------------------------------------------------------------------------
class Recipe:
    def __init__(self, name, gen, call, fixed=(), lazy=True, dask=True, dataset=None, dims_kw=True, fn=None):
        self.name, self.gen, self.call = name, gen, call
        self.fixed = set(fixed)        # positional dims: never transposed away / label-shuffled
        self.lazy = lazy               # result expected to stay lazy for dask inputs
        self.dask = dask               # dask representation in scope
        self.dataset = dataset         # public function object to inspect for XarrayLike annotations (None: not applicable)
        self.dims_kw = dims_kw
        self.fn = fn


def g_point(rng, nan=0.15, lo=0, hi=4, extra=None):
    sizes = {"a": rng.randint(1, 2), "b": rng.randint(2, 3), "c": rng.randint(1, 2)}
    f = gens.rand_da(rng, sizes, nan_p=nan, lo=lo, hi=hi, den=2)
    o = gens.rand_da(rng, sizes, dims=gens.sub_dims(rng, sizes, p_drop=0.2, keep_at_least=1), nan_p=nan, lo=lo, hi=hi, den=2)
    return [f, o]


def g_same(rng, **kw):
    sizes = {"a": rng.randint(1, 2), "b": rng.randint(2, 3), "c": rng.randint(1, 2)}
    return [gens.rand_da(rng, sizes, nan_p=0.1, lo=0, hi=4, den=2), gens.rand_da(rng, sizes, nan_p=0.1, lo=0, hi=4, den=2)]


def g_binary(rng):
    f, o = g_point(rng)
    return [(f > 2).astype(float).where(f.notnull()), (o > 2).astype(float).where(o.notnull())]


def g_prob(rng):
    f, o = g_point(rng)
    return [f / 4, (o > 2).astype(float).where(o.notnull())]


def g_ens(rng):
    sizes = {"a": rng.randint(1, 2), "b": rng.randint(2, 3), "m": rng.randint(1, 3)}
    f = gens.rand_da(rng, sizes, nan_p=0.1, lo=0, hi=4, den=2)
    o = gens.rand_da(rng, sizes, dims=["a", "b"] if rng.random() < 0.7 else ["b"], nan_p=0.1, lo=0, hi=4, den=2)
    return [f, o]


def g_cdf(rng, on_grid=False):
    sizes = {"a": rng.randint(1, 2), "b": rng.randint(2, 3)}
    n = rng.randint(3, 4)
    thr = [0.0, 1.0, 2.0, 4.0][:n]
    shape = [sizes["a"], sizes["b"], n]
    vals = np.sort(np.array([[rng.randint(0, 8) / 8 for _ in range(n)] for _ in range(sizes["a"] * sizes["b"])]), axis=-1).reshape(shape)
    lab = {d: rng.sample(range(sizes[d]), sizes[d]) for d in sizes}
    f = xr.DataArray(vals, dims=["a", "b", "threshold"], coords={"a": lab["a"], "b": lab["b"], "threshold": thr})
    pts = thr if on_grid else [0.0, 0.5, 1.0, 1.5, 3.0, 4.0]
    o = xr.DataArray(np.array([[rng.choice(pts) for _ in range(sizes["b"])] for _ in range(sizes["a"])]), dims=["a", "b"],
                     coords={"a": rng.sample(range(sizes["a"]), sizes["a"]), "b": rng.sample(range(sizes["b"]), sizes["b"])})
    return [f, o]


def g_fss(rng):
    sizes = {"t": rng.randint(1, 2), "x": 3, "y": 4}
    f = gens.rand_da(rng, sizes, dims=["t", "x", "y"], lo=0, hi=4, den=1, shuffle=False)
    o = gens.rand_da(rng, sizes, dims=["t", "x", "y"], lo=0, hi=4, den=1, shuffle=False)
    return [f, o]


def g_risk(rng):
    sizes = {"s": rng.randint(2, 3), "sev": 2}
    f = gens.rand_da(rng, sizes, dims=["s", "sev"], lo=0, hi=1, den=4)
    o = gens.rand_da(rng, sizes, dims=["s", "sev"], values=[0, 1])
    return [f, o]


def g_ff(rng, angular=False):
    sizes = {"a": rng.randint(1, 2), "t": rng.randint(3, 5)}
    f = gens.rand_da(rng, sizes, dims=["a", "t"], lo=0, hi=7, den=1, shuffle=False)
    if angular:
        f = f * 45.0
    return [f, f]


def recipes():
    Sc = S()
    C, P, K, PR = Sc.continuous, Sc.probability, Sc.categorical, Sc.processing
    from scores.continuous.correlation import pearsonr
    from scores.spatial import fss_2d
    from scores.emerging import risk_matrix_score
    from scores.processing.cdf import cdf_envelope
    dw = xr.DataArray([[1.0, 2.0], [0.5, 1.0]], dims=["pt", "sev"], coords={"pt": [0.25, 0.75], "sev": [0, 1]})
    R = [
        Recipe("mse", g_point, lambda x, **k: C.mse(x[0], x[1], **k), dataset=C.mse),
        Recipe("rmse", g_point, lambda x, **k: C.rmse(x[0], x[1], **k), dataset=C.rmse),
        Recipe("mae", g_point, lambda x, **k: C.mae(x[0], x[1], **k), dataset=C.mae),
        Recipe("mse_angular", g_point, lambda x, **k: C.mse(x[0] * 45, x[1] * 45, is_angular=True, **k)),
        Recipe("additive_bias", g_point, lambda x, **k: C.additive_bias(x[0], x[1], **k), dataset=C.additive_bias),
        Recipe("multiplicative_bias", g_point, lambda x, **k: C.multiplicative_bias(x[0], x[1], **k), dataset=C.multiplicative_bias),
        Recipe("pbias", g_point, lambda x, **k: C.pbias(x[0], x[1], **k), dataset=C.pbias),
        Recipe("kge", g_same, lambda x, **k: C.kge(x[0], x[1], include_components=True, **k)),
        Recipe("pearsonr", g_same, lambda x, **k: pearsonr(x[0], x[1], **k)),
        Recipe("quantile_score", g_point, lambda x, **k: C.quantile_score(x[0], x[1], 0.3, **k), dataset=C.quantile_score),
        Recipe("quantile_interval_score", g_point, lambda x, **k: C.quantile_interval_score(x[0], x[0] + 1, x[1], 0.1, 0.8, **k)),
        Recipe("interval_score", g_point, lambda x, **k: C.interval_score(x[0], x[0] + 1, x[1], 0.5, **k)),
        Recipe("murphy_score", g_point, lambda x, **k: C.murphy_score(x[0], x[1], [1.0, 2.0], functional="huber", huber_a=1.0, alpha=0.3, decomposition=True, **k)),
        Recipe("consistent_quantile_score", g_point, lambda x, **k: C.consistent_quantile_score(x[0], x[1], 0.3, lambda v: v, **k)),
        Recipe("consistent_expectile_score", g_point, lambda x, **k: C.consistent_expectile_score(x[0], x[1], 0.3, lambda v: v ** 2, lambda v: 2 * v, **k)),
        Recipe("tw_squared_error", g_point, lambda x, **k: C.tw_squared_error(x[0], x[1], (1, 3), **k)),
        Recipe("tw_absolute_error", g_point, lambda x, **k: C.tw_absolute_error(x[0], x[1], (1, 3), **k)),
        Recipe("tw_quantile_score", g_point, lambda x, **k: C.tw_quantile_score(x[0], x[1], 0.3, (1, 3), **k)),
        Recipe("tw_huber_loss_trapezoid", g_point, lambda x, **k: C.tw_huber_loss(x[0], x[1], 1.5, (1, 2), interval_where_positive=(0, 3), **k)),
        Recipe("firm", g_point, lambda x, **k: K.firm(x[0], x[1], 0.3, [1, 2], [1, 2], discount_distance=1.0, **k)),
        Recipe("probability_of_detection", g_binary, lambda x, **k: K.probability_of_detection(x[0], x[1], **k), dataset=K.probability_of_detection),
        Recipe("probability_of_false_detection", g_binary, lambda x, **k: K.probability_of_false_detection(x[0], x[1], **k)),
        Recipe("brier_score", g_prob, lambda x, **k: P.brier_score(x[0], x[1], **k), dataset=P.brier_score),
        Recipe("roc_curve_data", g_prob, lambda x, **k: P.roc_curve_data(x[0], x[1], [0, 0.25, 0.5, 0.75, 1], **k), lazy=False),
        Recipe("binary_discretise_proportion", g_point, lambda x, **k: PR.binary_discretise_proportion(x[0], [1, 2], ">=", **k)),
        Recipe("contingency_table", g_point, lambda x, **k: K.ThresholdEventOperator().make_contingency_manager(x[0], x[1], event_threshold=2).transform(**k).get_table(), lazy=False),
        Recipe("crps_for_ensemble", g_ens, lambda x, **k: P.crps_for_ensemble(x[0], x[1], "m", include_components=True, **k), fixed=[]),
        Recipe("crps_for_ensemble_fair", g_ens, lambda x, **k: P.crps_for_ensemble(x[0], x[1], "m", method="fair", **k)),
        Recipe("tail_tw_crps_for_ensemble", g_ens, lambda x, **k: P.tail_tw_crps_for_ensemble(x[0], x[1], "m", 2.0, **k)),
        Recipe("interval_tw_crps_for_ensemble", g_ens, lambda x, **k: P.interval_tw_crps_for_ensemble(x[0], x[1], "m", 1.0, 3.0, **k)),
        Recipe("brier_score_for_ensemble", g_ens, lambda x, **k: P.brier_score_for_ensemble(x[0], x[1], "m", [1, 2], **k)),
        Recipe("crps_cdf_exact", g_cdf, lambda x, **k: P.crps_cdf(x[0], x[1], include_components=True, **k), fixed=["threshold"]),
        Recipe("crps_cdf_trapz", g_cdf, lambda x, **k: P.crps_cdf(x[0], x[1], integration_method="trapz", **k), fixed=["threshold"]),
        Recipe("crps_cdf_brier_decomposition", g_cdf, lambda x, **k: P.crps_cdf_brier_decomposition(x[0], x[1], **k), fixed=["threshold"]),
        Recipe("cdf_envelope", g_cdf, lambda x, **k: cdf_envelope(x[0], "threshold"), fixed=["threshold"], dims_kw=False, lazy=False),
        Recipe("adjust_fcst_for_crps", g_cdf, lambda x, **k: P.adjust_fcst_for_crps(x[0], "threshold", x[1]), fixed=["threshold"], dims_kw=False, lazy=False),
        Recipe("fss_2d", g_fss, lambda x, **k: fss_2d(x[0], x[1], event_threshold=2, window_size=(2, 2), spatial_dims=("x", "y"), **k), fixed=["x", "y"], dask=False, lazy=False),
        Recipe("risk_matrix_score", g_risk, lambda x, **k: risk_matrix_score(x[0], x[1], dw, "sev", "pt", **k), lazy=False),
        Recipe("flip_flop_index", g_ff, lambda x, **k: C.flip_flop_index(x[0], "t"), fixed=["t"], dims_kw=False),
        Recipe("flip_flop_index_angular", lambda rng: g_ff(rng, True), lambda x, **k: C.flip_flop_index(x[0], "t", is_angular=True), fixed=["t"], dims_kw=False, lazy=False),
    ]
    return R


# ------------------------------------------------------------------------------------------
# representation changes
# ------------------------------------------------------------------------------------------
def rep_transpose(rng, x, fixed):
    dims = list(x.dims)
    rng.shuffle(dims)
    return mat(x.transpose(*dims))


def rep_shuffle(rng, x, fixed):
    out = x
    for d in x.dims:
        if d in fixed or d not in x.coords or x.sizes[d] < 2:
            continue
        idx = list(range(x.sizes[d]))
        rng.shuffle(idx)
        out = out.isel({d: idx})
    return mat(out)


def rep_dask(rng, x, mode):
    if mode == "one":
        ch = {d: -1 for d in x.dims}
    elif mode == "each":
        ch = {d: 1 for d in x.dims}
    else:
        ch = {d: rng.randint(1, max(1, x.sizes[d])) for d in x.dims}
    return x.chunk(ch)


def is_lazy(r):
    import dask
    return dask.is_dask_collection(r)


def compute(r, scheduler):
    import dask
    with dask.config.set(scheduler=scheduler):
        return r.compute() if hasattr(r, "compute") else r


def snapshot(xs):
    return [(np.array(x.values, copy=True), {k: np.array(v.values, copy=True) for k, v in x.coords.items()}, copy.deepcopy(dict(x.attrs)), tuple(x.dims)) for x in xs]


def unchanged(xs, snap):
    for x, (v, cs, at, dims) in zip(xs, snap):
        if tuple(x.dims) != dims or not np.array_equal(np.asarray(x.values), v, equal_nan=True) or dict(x.attrs) != at:
            return False
        for k, cv in cs.items():
            if k not in x.coords or not np.array_equal(np.asarray(x.coords[k].values), cv):
                return False
    return True


def xarraylike_params(fn):
    try:
        sig = inspect.signature(fn)
    except (TypeError, ValueError):
        return False
    names = list(sig.parameters)[:2]
    return all("XarrayLike" in str(sig.parameters[n].annotation) or "FlexibleArrayType" in str(sig.parameters[n].annotation) for n in names)


def run(ctx):
    rng = ctx.rng
    programs = 0
    R = recipes()
    for it in range(ctx.n(2, 12)):
        for rc in R:
            if not ctx.time_left():
                break
            xs = [mat(x) for x in rc.gen(rng)]
            kw = {}
            if rc.dims_kw and rng.random() < 0.7:
                cand = [d for d in xs[0].dims if d not in rc.fixed and d != "m" and d not in ("sev",)]
                sub = [d for d in cand if rng.random() < 0.5]
                kw = {"reduce_dims": sub} if rng.random() < 0.5 else {"preserve_dims": sub}
            for x in xs:
                x.attrs["units"] = "test"
            snap = snapshot(xs)
            base = core.call_impl(rc.call, xs, **kw)
            desc = {"fn": rc.name, "inputs": [gens.da_repr(x) for x in xs], "kw": kw}
            ctx.case((rc.name, "base", desc), base[0] == "ok")
            if base[0] != "ok":
                ctx.violation(f"{rc.name}: canonical representation raises {base[1]}", desc, "a value", base[1])
                continue
            if not unchanged(xs, snap):
                ctx.violation(f"{rc.name}: the call modified its inputs (values, coordinates or attrs)", desc, "inputs unchanged", "inputs changed")

            def check(rep, ys, post=None, lazy_expected=None):
                nonlocal programs
                snap2 = snapshot(ys) if lazy_expected is None else None
                r = core.call_impl(rc.call, ys, **kw)
                lazy = None
                if r[0] == "ok" and lazy_expected is not None:
                    lazy = is_lazy(r[1])
                    r = ("ok", post(r[1]))
                ok, why = scorelib.same_result(base, r, tol=1e-9)
                ctx.case((rc.name, rep, desc))
                ctx.count("rep:" + rep.split(":")[0])
                programs += 1
                if not ok:
                    fk = known_key(rc.name, rep, r)
                    ctx.violation(f"{rc.name}: result changes under representation '{rep}': {why}", dict(desc, representation=rep),
                                  "value of the canonical representation", why, finding_key=fk)
                elif lazy_expected and lazy is False:
                    ctx.violation(f"{rc.name}: result for dask inputs is not lazy (computed eagerly)", dict(desc, representation=rep), "lazy", "eager")
                if snap2 is not None and not unchanged(ys, snap2):
                    ctx.violation(f"{rc.name}: the call modified its inputs under '{rep}'", dict(desc, representation=rep), "unchanged", "changed")

            # transposition (each input independently) and coordinate order (independently per input)
            check("transpose", [rep_transpose(rng, x, rc.fixed) for x in xs])
            check("shuffle-coords", [rep_shuffle(rng, x, rc.fixed) for x in xs])
            check("transpose+shuffle", [rep_shuffle(rng, rep_transpose(rng, x, rc.fixed), rc.fixed) for x in xs])
            # dask
            if rc.dask:
                for mode in ("one", "each", "random"):
                    for sched in ("synchronous", "threads"):
                        ys = [rep_dask(rng, x, mode) for x in xs]
                        check(f"dask:{mode}:{sched}", ys, post=lambda r, s=sched: compute(r, s), lazy_expected=rc.lazy)
            # Dataset variables
            if rc.dataset is not None and xarraylike_params(rc.dataset):
                ds = [xr.Dataset({"v1": x, "v2": x * 2}) for x in xs]
                r = core.call_impl(rc.call, ds, **kw)
                programs += 1
                ctx.case((rc.name, "dataset", desc))
                ctx.count("rep:dataset")
                if r[0] != "ok" or not isinstance(r[1], xr.Dataset):
                    ctx.violation(f"{rc.name}: Dataset inputs do not give a Dataset result ({r[1] if r[0] != 'ok' else type(r[1]).__name__})", desc, "Dataset", str(r[1])[:80])
                else:
                    ok, why = scorelib.same_value(base[1], r[1]["v1"])
                    if not ok:
                        ctx.violation(f"{rc.name}: Dataset variable differs from the DataArray result: {why}", desc, "same", why)
            if it == 0 and len(ctx.samples) < 4:
                ctx.sample(desc)
    pandas_api(ctx)
    model_tie(ctx)
    bottleneck_probe(ctx)
    ctx.count("programs", programs)
    ctx.dist["programs"] = programs


def known_key(name, rep, r):
    return None


def pandas_api(ctx):
    import pandas as pd
    from scores.pandas import continuous as PC
    Sc = S()
    rng = ctx.rng
    for _ in range(ctx.n(10, 60)):
        n = rng.randint(1, 6)
        f = [float(gens.grid_value(rng)) for _ in range(n)]
        o = [float(gens.grid_value(rng)) if rng.random() > 0.15 else float("nan") for _ in range(n)]
        for nm in ("mse", "rmse", "mae"):
            a = core.call_impl(getattr(PC, nm), pd.Series(f), pd.Series(o))
            b = core.call_impl(getattr(Sc.continuous, nm), xr.DataArray(f, dims="x"), xr.DataArray(o, dims="x"))
            ctx.case(("pandas", nm, tuple(f), tuple(map(str, o))))
            ctx.count("rep:pandas")
            if a[0] != b[0] or (a[0] == "ok" and not np.allclose(float(a[1]), float(b[1]), rtol=1e-9, atol=1e-12, equal_nan=True)):
                ctx.violation(f"scores.pandas.continuous.{nm} differs from the xarray function on the same values", {"fcst": f, "obs": o}, str(b[1]), str(a[1]))


def model_tie(ctx):
    """the canonical representation itself is tied to the (layout-free) model for the registered functions"""
    rng = ctx.rng
    for name, fn in scorelib.REGISTRY.items():
        for _ in range(ctx.n(3, 20)):
            arrs, w, sizes = scorelib.gen_arrays(rng, fn)
            extra = fn.gen_extra(rng)
            rd, pd = gens.rand_dimspec(rng, list(sizes))
            # the same case in two storage layouts must reach the same model value
            impl, m, ok, why = fn.run(ctx, arrs, extra, rd, pd, w)
            arrs2 = [rep_shuffle(rng, rep_transpose(rng, a, []), []) for a in arrs]
            impl2, m2, ok2, why2 = fn.run(ctx, arrs2, extra, rd, pd, w)
            ctx.case(("tie", name, fn.describe(arrs, extra, rd, pd, w)))
            ctx.count("model_tie")
            if not ok or not ok2:
                ctx.tie_fail(f"{name} vs model under a layout change: {why or why2}", fn.describe(arrs, extra, rd, pd, w), str(impl[1])[:200], str(m)[:200])


def bottleneck_probe(ctx):
    """the platform defect behind 'materialise after transposing': reported as a known finding while it reproduces"""
    v = np.arange(4.0).reshape(1, 2, 2).transpose(0, 2, 1)
    da = xr.DataArray(np.arange(4.0).reshape(1, 2, 2), dims=["a", "b", "c"]).transpose("a", "c", "b")
    got = float(da.max())
    if got != 3.0:
        ctx.violation("platform: xarray/bottleneck whole-array max of a transposed view with a size-1 dimension is wrong (affects any score that range-checks such an input)",
                      {"array": "arange(4).reshape(1,2,2) transposed (0,2,1)"}, 3.0, got, finding_key="platform-bottleneck-transposed-view")
