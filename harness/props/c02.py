"""C02 -- a missing value removes exactly its own forecast case, never more, never less."""
import itertools
import numpy as np
import xarray as xr

import core
import gens
import scorelib
from scorelib import REGISTRY

ID = "C02"
LEVEL = "proof"
LEVEL_TEXT = ("Coq theorems that the NaN-skipping aggregate sees exactly the valid cases (masked = deleted, for mean/sum/count), that a "
              "weighted per-case score is NaN iff score or weight is, and - per regenerated kernel and for every output component - that the "
              "pointwise score is NaN exactly when an input is; tied to the code by running every registered function with NaN-masked "
              "versus deleted cases and by comparing the pointwise NaN mask with 'some input is NaN'.")
LEVEL_NOTE = ("kernels regenerated from source (translator trusted, validated by correspondence); reductions are the hand model of xarray's "
              "skipna mean; FSS is the documented exception (NaN cell = non-event) and is covered under C16")
TECHNIQUE = "Coq proof (NaN-iff per regenerated kernel, masked=deleted for the aggregate) + masked-vs-deleted correspondence on the implementation"
TIE_IS_SPEC = True
SITES = ["S1", "S2", "S3", "S4a", "S4b", "S4c"]
RULE = ("1-D and 2-D cases on the dyadic grid with NaN injected independently into forecast, observation and weights (p=0.25 each slot); "
        "masked run vs run with the invalid cases deleted from all inputs; pointwise NaN mask vs 'some input NaN'. distinct by hash of "
        "(function, inputs); non-trivial = at least one NaN slot and at least one valid case")


# counters that every complete run must have incremented (harness self-check, see core.run_check)
EXPECT_COUNTS = ['recipe:', 'recipe_weights_as_input', 'recipe_only_weight_blanked', 'dataset_independent:', 'cdf_partial_nan']

def nan_case_1d(rng, fn, n=None):
    n = n or rng.randint(2, 7)
    sizes = {"x": n}
    mk = lambda p: gens.rand_da(rng, sizes, dims=["x"], nan_p=p, shuffle=False)  # noqa: E731
    f = mk(0.25)
    o = gens.force_ties(rng, f, mk(0.25))
    if fn.three:
        width = gens.rand_da(rng, sizes, dims=["x"], lo=0, hi=4, shuffle=False, nan_p=0.15)
        arrs = [f, f + width, o]
    else:
        arrs = [f, o]
    w = None
    if fn.weights and rng.random() < 0.6:
        w = gens.rand_da(rng, sizes, dims=["x"], lo=1, hi=3, nan_p=0.25, shuffle=False)
    return arrs, w


def recipe_masked_vs_deleted(ctx):
    """for ~35 public functions: blank one index of a data dimension with NaN in every input that has it, reduce over that
    dimension, and compare with the run where that index is deleted from all inputs"""
    import recipes
    rng = ctx.rng
    R = [rc for rc in recipes.recipes() if rc.dims_kw and rc.name not in ("fss_2d",)]
    for it in range(ctx.n(6, 40)):
        for rc in R:
            if not ctx.time_left():
                return
            xs = [recipes.mat(x) for x in rc.gen(rng)]
            cand = [d for d in xs[0].dims if d not in rc.nondata and xs[0].sizes[d] >= 2]
            if not cand:
                continue
            d = rng.choice(cand)
            lab = rng.choice(list(xs[0][d].values))
            masked, deleted = [], []
            # weights (where accepted) are one more input whose NaN invalidates the case: a weight array along d (and
            # possibly other data dims), appended to the inputs for the blanking choice and passed as weights=
            nw = None
            if rc.weights and rng.random() < 0.5:
                dd_ = [e for e in xs[0].dims if e not in rc.nondata]
                wdims = [e for e in dd_ if e == d or rng.random() < 0.4]
                w = gens.rand_da(rng, {e: xs[0].sizes[e] for e in dd_}, dims=wdims, lo=1, hi=3, shuffle=False)
                xs = xs + [recipes.mat(w.assign_coords({e: xs[0][e] for e in wdims}))]
                nw = len(xs) - 1
                ctx.count("recipe_weights_as_input")
            having = [i for i, x in enumerate(xs) if d in x.dims]
            # the case is invalid as soon as ONE input is missing: every non-empty subset of the inputs that carry the
            # dimension is blanked in turn (not a random one: a NaN in exactly one particular input is what slips).
            # CDF scores: a deleted observation would also leave the common threshold grid, and a kept one stays in it,
            # so there all inputs are blanked together; single-input functions must lose their own input
            if "threshold" in rc.nondata:
                subsets = [set(having)]
            else:
                subsets = [set(c) for k in range(1, len(having) + 1) for c in itertools.combinations(having, k)]
                if rc.name.startswith(("binary_discretise_proportion", "proportion_exceeding")):      # single-input functions
                    subsets = [b | {0} for b in subsets]
                if len(subsets) > 7:
                    subsets = rng.sample(subsets, 7)
            others = [e for e in xs[0].dims if e not in rc.nondata and e != d]
            kw = {"reduce_dims": [d]} if rng.random() < 0.5 else {"preserve_dims": others}
            deleted = [recipes.mat(x.sel({d: [v for v in x[d].values if v != lab]})) if d in x.dims else x for x in xs]
            b = core.call_impl(rc.call, deleted[:nw], weights=deleted[nw], **kw) if nw is not None else core.call_impl(rc.call, deleted, **kw)
            ctx.count("recipe:" + rc.name)
            for blank in subsets:
                if blank == {nw}:
                    ctx.count("recipe_only_weight_blanked")
                masked = [recipes.mat(x.where(x[d] != lab)) if (d in x.dims and i in blank) else x for i, x in enumerate(xs)]
                a = core.call_impl(rc.call, masked[:nw], weights=masked[nw], **kw) if nw is not None else core.call_impl(rc.call, masked, **kw)
                desc = {"fn": rc.name, "inputs": [gens.da_repr(x) for x in xs], "blanked": {d: int(lab)}, "kw": kw,
                        "blanked_inputs": sorted(blank), "weights_is_input": nw}
                ctx.case(desc, a[0] == "ok")
                ok, why = scorelib.same_result(a, b, tol=1e-8)
                if not ok:
                    ctx.violation(f"{rc.name}: blanking {d}={lab} with NaN in input(s) {sorted(blank)} differs from deleting that case from all inputs: {why}", desc, "equal", why)


def dataset_variables_independent(ctx):
    """'never more': a NaN in one variable of a Dataset invalidates the case for that variable only. Two variables with
    different NaN slots (the second is the first read backwards) must each score as they do alone as DataArrays"""
    import recipes
    from props import c04 as _c04
    rng = ctx.rng
    R = [rc for rc in recipes.recipes() if rc.dataset is not None and _c04.xarraylike_params(rc.dataset)]
    for it in range(ctx.n(3, 15)):
        for rc in R:
            if not ctx.time_left():
                return
            xs = [recipes.mat(x) for x in rc.gen(rng, nan=0.3)] if rc.gen is recipes.g_point else [recipes.mat(x) for x in rc.gen(rng)]
            xs2 = [x.copy(data=np.array(x.values.ravel()[::-1].reshape(x.shape), order="C", copy=True)) if x.dims != () else x for x in xs]
            kw = {}
            if rc.dims_kw and rng.random() < 0.6:
                sub = [d for d in xs[0].dims if d not in rc.nondata and rng.random() < 0.5]
                kw = {"preserve_dims": sub}
            b1, b2 = core.call_impl(rc.call, xs, **kw), core.call_impl(rc.call, xs2, **kw)
            r = core.call_impl(rc.call, [xr.Dataset({"v1": x, "v2": x2}) for x, x2 in zip(xs, xs2)], **kw)
            desc = {"fn": rc.name, "inputs_v1": [gens.da_repr(x) for x in xs], "v2": "each input of v1 in reverse flat order", "kw": kw}
            ctx.case(("dataset-independent", desc), b1[0] == "ok")
            ctx.count("dataset_independent:" + rc.name)
            if b1[0] != "ok" or b2[0] != "ok":
                continue
            if r[0] != "ok" or not isinstance(r[1], xr.Dataset):
                ctx.violation(f"{rc.name}: Dataset inputs with differently placed NaNs raise / do not give a Dataset ({str(r[1])[:80]})", desc, "a Dataset", str(r[1])[:80])
                continue
            for v, b in (("v1", b1), ("v2", b2)):
                bv = b[1]
                if isinstance(bv, xr.Dataset):          # functions returning a Dataset per input variable are out of scope here
                    break
                ok, why = scorelib.same_value(bv, r[1][v], tol=1e-9)
                if not ok:
                    ctx.violation(f"{rc.name}: variable {v} of a Dataset scores differently from the same field alone (NaNs of the other variable reach it): {why}",
                                  desc, "same as the DataArray call", why)


def cdf_partial_nan(ctx):
    """a forecast CDF with a NaN ordinate (but enough valid ones to be filled) is missing as a whole: its own case is NaN in
    every output, every other case is unchanged"""
    import recipes
    import scores
    P = scores.probability
    rng = ctx.rng
    fns = {"crps_cdf_exact": lambda f, o: P.crps_cdf(f, o, include_components=True, preserve_dims=["a", "b"]),
           "crps_cdf_trapz": lambda f, o: P.crps_cdf(f, o, integration_method="trapz", include_components=True, preserve_dims=["a", "b"]),
           "crps_cdf_brier_decomposition": lambda f, o: P.crps_cdf_brier_decomposition(f, o, preserve_dims=["a", "b"])}
    for it in range(ctx.n(6, 60)):
        f, o = [recipes.mat(x) for x in recipes.g_cdf(rng)]
        f = f.sortby("a").sortby("b")
        o = o.sortby("a").sortby("b")
        ia, ib, it_ = rng.randrange(f.sizes["a"]), rng.randrange(f.sizes["b"]), rng.randrange(f.sizes["threshold"])
        vals = f.values.copy()
        vals[ia, ib, it_] = np.nan
        fn_ = f.copy(data=vals)
        for name, call in fns.items():
            a = core.call_impl(call, f, o)
            b = core.call_impl(call, fn_, o)
            ctx.case(("cdfnan", name, gens.da_repr(f), gens.da_repr(o), ia, ib, it_))
            ctx.count("cdf_partial_nan:" + name)
            if a[0] != "ok" or b[0] != "ok":
                ctx.violation(f"{name}: raises on a CDF with one NaN ordinate ({b[1]})", {"fcst": gens.da_repr(fn_), "obs": gens.da_repr(o)}, "values", str(b[1])[:100])
                continue
            for v in a[1].data_vars:
                x, y = a[1][v].transpose("a", "b", ...).values, b[1][v].transpose("a", "b", ...).values
                own = y[ia, ib]
                if not np.all(np.isnan(own)):
                    ctx.violation(f"{name}: a forecast CDF with a NaN ordinate is scored ({v} = {np.ravel(own)[:4]}) instead of being missing as a whole",
                                  {"fcst": gens.da_repr(fn_), "obs": gens.da_repr(o), "case": [ia, ib]}, "NaN", np.ravel(own).tolist())
                mask = np.ones(x.shape, dtype=bool)
                mask[ia, ib] = False
                if not np.allclose(x[mask], y[mask], rtol=1e-9, atol=1e-12, equal_nan=True):
                    ctx.violation(f"{name}: a NaN ordinate in one forecast CDF changes the score of other cases ({v})",
                                  {"fcst": gens.da_repr(fn_), "obs": gens.da_repr(o), "case": [ia, ib]}, "unchanged", "changed")


def run(ctx):
    registry_nan(ctx)
    recipe_masked_vs_deleted(ctx)
    dataset_variables_independent(ctx)
    cdf_partial_nan(ctx)


def registry_nan(ctx):
    rng = ctx.rng
    for it in range(ctx.n(25, 300)):
        for name, fn in REGISTRY.items():
            if not ctx.time_left():
                return
            arrs, w = nan_case_1d(rng, fn)
            extra = fn.gen_extra(rng)
            alls = arrs + ([w] if w is not None else [])
            invalid = np.zeros(arrs[0].shape, dtype=bool)
            for a in alls:
                invalid |= np.isnan(a.values)
            desc = fn.describe(arrs, extra, None, None, w)
            ctx.case(desc, bool(invalid.any() and (~invalid).any()))
            ctx.count(f"{name}:nan_slots", int(invalid.sum()))
            # (1) tie: NaN-heavy case through the model
            impl, m, ok, why = fn.run(ctx, arrs, extra, None, None, w)
            if not ok:
                ctx.tie_fail(name + " vs model (NaN-heavy): " + why, desc, str(impl[1])[:200], str(m)[:200])
            # (2) masked vs deleted
            keep = np.where(~invalid)[0]
            if len(keep) == 0:
                continue
            d_arrs = [a.isel(x=keep) for a in arrs]
            d_w = w.isel(x=keep) if w is not None else None
            deleted = core.call_impl(fn.impl, d_arrs, extra, None, None, d_w)
            ok, why = scorelib.same_result(impl, deleted, tol=1e-7 if fn.kind == "moments" else 1e-9)
            if not ok:
                ctx.violation(f"{name}: NaN-masked result differs from the result after deleting the invalid cases: {why}", desc,
                              "equal to the deleted-cases run", why)
            # (3) pointwise NaN mask = some input NaN (single-case scores only)
            if fn.kind in ("mean",) and name != "rmse":
                pw = core.call_impl(fn.impl, arrs, extra, None, "all", w)
                if pw[0] == "ok":
                    comps = [pw[1][v] for v in fn.datasets] if fn.datasets else [pw[1]]
                    for ci, c in enumerate(comps):
                        mask = np.isnan(c.transpose("x").values)
                        if not (mask == invalid).all():
                            ctx.violation(f"{name}: pointwise output component {ci} is NaN at {mask.tolist()} but inputs are invalid at {invalid.tolist()}",
                                          desc, invalid.tolist(), mask.tolist())
            if it == 0:
                ctx.sample(desc, limit=4)
    # 2-D: reduce one dim, the other preserved; every row deleted consistently (same NaN column pattern)
    for it in range(ctx.n(40, 400)):
        name = rng.choice([n for n, f in REGISTRY.items() if f.kind == "mean" and not f.three])
        fn = REGISTRY[name]
        sizes = {"x": rng.randint(2, 5), "y": rng.randint(1, 3)}
        f = gens.rand_da(rng, sizes, dims=["y", "x"], shuffle=False)
        o = gens.rand_da(rng, sizes, dims=["x"], nan_p=0.3, shuffle=False)     # NaN pattern shared by all rows
        extra = fn.gen_extra(rng)
        keep = np.where(~np.isnan(o.values))[0]
        if len(keep) == 0:
            continue
        a = core.call_impl(fn.impl, [f, o], extra, ["x"], None, None)
        b = core.call_impl(fn.impl, [f.isel(x=keep), o.isel(x=keep)], extra, ["x"], None, None)
        ctx.case(("2d", name, gens.da_repr(f), gens.da_repr(o)))
        ok, why = scorelib.same_result(a, b)
        if not ok:
            ctx.violation(f"{name}: reduce over x with NaN observations differs from deleting those columns: {why}",
                          {"fn": name, "fcst": gens.da_repr(f), "obs": gens.da_repr(o), "extra": extra}, "equal", why)


def run_without_model(ctx):
    """used when the extracted model does not build against the current source: relations between public calls only"""
    recipe_masked_vs_deleted(ctx)
    dataset_variables_independent(ctx)
    cdf_partial_nan(ctx)
