"""C07 -- CRPS for CDF forecasts equals the exact threshold-weighted integral."""
import itertools
from fractions import Fraction

import numpy as np
import xarray as xr

import core
import gens
from core import enc_bool, enc_list, enc_num, enc_nums, enc_opt, enc_str

ID = "C07"
LEVEL = "proof"
LEVEL_TEXT = ("Coq theorems, for every threshold grid, ordinates, observation and non-negative piecewise-constant weight, that the exact method's "
              "value is the Riemann integral (Coquelicot is_RInt) of w(x)(F(x)-1{x>=y})^2 over the grid span with F the piecewise-linear interpolant; "
              "that under+over=total with both non-negative (exact and trapz); that complementary weights add up to the unweighted score on the same "
              "grid; that trapz is the trapezoid rule applied to the per-threshold Brier decomposition; and that a NaN ordinate blanks its own case only. "
              "The executable model (union grid, observed CDF, four fill methods, NaN propagation, piece integration, reductions) is tied to the code by "
              "a correspondence check on every run; the closed-form piece integral and the Brier kernel are regenerated from the source text.")
LEVEL_NOTE = ("trusted: translator + Xval semantics for the two regenerated kernels, the hand model of the xarray pipeline (validated by correspondence), "
              "extraction, harness; binary64 rounding not modelled (dyadic inputs, tolerance 1e-9); Coquelicot/Reals axioms as reported per theorem")
TECHNIQUE = "Coq proof (Coquelicot integral) over an extracted executable model + correspondence check"
SITES = ["C07.piece", "C07.bscore"]
RULE = ("structured random cases: 2-6 forecast thresholds on the half-integer grid, 0-2 extra dimensions of size 1-3 stored in shuffled order with the "
        "threshold dimension at a random position, ordinates k/8 (mostly non-decreasing, sometimes shuffled, NaN injected), observations on / between / "
        "outside the forecast thresholds (or NaN), weight absent / 0-1 step / general k/4 on its own thresholds and dims, additional thresholds, "
        "4 fcst fills x 4 weight fills x 2 integration methods x propagate_nans x include_components, plus a malformed stream (non-increasing "
        "coordinates, ordinates or weights outside [0,1], negative weights, unknown method names, a single threshold); 30 % of the calls are moved to "
        "base + scale * x (thresholds far from zero relative to their spacing: 1e6 at 1, 101325 at 1/16, 273 at 1/64, -2e6 at 2; a 2^-10 grid), "
        "observations up to 2^20 outside the thresholds, 12 % of the calls have a NaN in EVERY forecast CDF (single-case calls included), 10 % use "
        "integer threshold coordinates; 12 % repeat the call with optional arguments of crps_cdf / crps_cdf_brier_decomposition / "
        "crps_step_threshold_weight OMITTED (one, a subset, all) against the call with the documented defaults written out; deterministic probes for each of these classes; a case is distinct by the hash "
        "of all inputs and options and non-trivial when at least one forecast case has a finite score")
ASSUMPTIONS = ["thresholds (forecast, weight, additional) are finite; observations are finite or NaN -- an infinite observation is outside the model and is "
               "only checked through the relation 'scored as a missing observation' (finding crps-cdf-infinite-observation, repaired in /repo by dfedbb7)",
               "threshold weights lie in [0,1]: fill_cdf rejects anything else with ValueError (modelled and checked)"]
TRUSTED = ["hand model of xarray's interpolate_na(linear, extrapolate) / ffill / bfill / integrate / sum(min_count) in coq/model/Cdf.v (validated by correspondence)"]

# counters every complete run must have incremented (core.run_check reports the ones that did not): one per predicate family / input class
EXPECT_COUNTS = ["corpus", "probe_nondyadic_obs", "probe_far_thresholds", "probe_every_case_has_nan", "sweep_calls",
                 "weight:none", "weight:step01", "weight:zero_one", "weight:general",
                 "integration:exact", "integration:trapz", "fill:linear", "fill:step", "fill:forward", "fill:backward",
                 "malformed:", "error_path", "pred:value_is_spec:exact", "pred:value_is_spec:trapz", "pred:under_over_total",
                 "reduce:ok", "reduce:err", "partition", "brier", "brier:error_path", "trapz_is_trapezoid_of_brier",
                 "nan_own_case:fcst", "nan_own_case:weight", "dims_error:",
                 "class:obs_far_outside", "class:thresholds_far_from_zero", "class:every_case_has_nan", "class:single_case",
                 "class:single_case_with_nan", "class:weight_nan_without_case_dim", "class:int_thresholds",
                 "shift_scale_equivariance", "alone_vs_batch", "inf_obs_as_missing:crps", "inf_obs_as_missing:brier"]

TD = "thr"
FILLS = ["linear", "step", "forward", "backward"]
NAN = float("nan")
INF = float("inf")
# (base, scale): thresholds, observations and additional thresholds x (half units near zero) become base + scale * x: thresholds far from
# zero relative to their spacing (1e6 ... 1e6+4 at unit spacing, pressure-like 101325 at 1/16, Kelvin-like 273 at 1/64, -2e6 at spacing 2)
# and a very fine grid near zero.  CRPS is equivariant: score(base + scale * case) = scale * score(case).
AFFINE = [(1e6, 2.0), (1e6, 1.0), (float(2 ** 20), 1.0), (-2e6, 4.0), (101325.0, 0.125), (273.0, 0.03125), (-5000.0, 1.0), (0.0, 2.0 ** -10)]


def S():
    import scores.probability as P
    return P


# ------------------------------------------------------------------------------------------
# generation
# ------------------------------------------------------------------------------------------
def gen_thresholds(rng, lo=2, hi=6, span=20, even=False):
    n = rng.randint(lo, hi)
    if even:                                               # whole numbers only (stored as an integer coordinate)
        return sorted(2 * k for k in rng.sample(range(0, span // 2 + 1), n))
    return sorted(rng.sample(range(0, span + 1), n))       # in half units


def gen_line(rng, n, monotone_p=0.7, nan_p=0.0):
    ks = [rng.randint(0, 8) for _ in range(n)]
    if rng.random() < monotone_p:
        ks.sort()
    return [NAN if (nan_p and rng.random() < nan_p) else k / 8.0 for k in ks]


# offsets that are not dyadic and carry more than 7 decimals: an observation strictly between two thresholds whose decimal rounding
# moves it (down or up); the model receives the exact rational value of the float
OFFSETS = [1 / 3, 0.1, float(np.float32(0.7)), 3.3e-8, 0.2000000049, 0.49999999]


def gen_obs_value(rng, ths, nan_p=0.1):
    r = rng.random()
    if r < nan_p:
        return NAN
    if r < nan_p + 0.1:
        return rng.randint(ths[0] - 1, ths[-1]) / 2.0 + rng.choice(OFFSETS)
    if r < nan_p + 0.16:      # far outside the threshold grid (the integral runs over the span of all thresholds AND the observation)
        k = 2 ** rng.randint(6, 21)
        return rng.choice([ths[0] - k, ths[-1] + k]) / 2.0
    if r < 0.45:
        return rng.choice(ths) / 2.0                      # on a forecast threshold
    if r < 0.8:
        return rng.randint(2 * ths[0], 2 * ths[-1]) / 4.0  # inside the span, often between two
    return rng.choice([ths[0] - rng.randint(1, 4), ths[-1] + rng.randint(1, 4)]) / 2.0


def contiguous(da):
    """same labelled values, freshly allocated C-contiguous storage.  (The environment's bottleneck 1.6.0 returns garbage for
    whole-array nanmax/nanmin/nansum on some transposed views with size-1 dimensions, which makes xarray's .max()/.min() -- used by
    scores' bound check -- wrong; that is a platform defect outside nci/scores, so generated arrays avoid such views.)"""
    return xr.DataArray(np.array(da.values, order="C", copy=True), dims=da.dims, coords=da.coords)


def make_da(rng, dims_sizes, line_dim, line_coords, fill):
    """DataArray over the extra dims (labels 0..n-1, stored shuffled) and optionally a threshold dim at a random position"""
    dims = list(dims_sizes)
    rng.shuffle(dims)
    coords = {}
    for d in dims:
        lab = list(range(dims_sizes[d]))
        rng.shuffle(lab)
        coords[d] = lab
    shape = [dims_sizes[d] for d in dims]
    n = int(np.prod(shape)) if shape else 1
    if line_dim is None:
        vals = np.array([fill() for _ in range(n)], dtype=float).reshape(shape)
        return xr.DataArray(vals, dims=dims, coords=coords)
    vals = np.array([fill() for _ in range(n)], dtype=float).reshape(shape + [len(line_coords)])   # fill() -> one line
    da = xr.DataArray(vals, dims=dims + [line_dim], coords={**coords, line_dim: list(line_coords)})
    order = dims + [line_dim]
    rng.shuffle(order)
    return contiguous(da.transpose(*order))


def gen_weight(rng, sizes, ths, bad=False):
    r = rng.random()
    wdims = {d: sizes[d] for d in sizes if rng.random() < 0.4}
    if r < 0.35:       # 0/1 step weight through the public helper
        P = S()
        sp = make_da(rng, wdims, None, None, lambda: gen_obs_value(rng, ths, nan_p=0.05))
        tv = sorted(set(rng.sample(range(ths[0] - 2, ths[-1] + 3), rng.randint(1, 3))))
        w = P.crps_step_threshold_weight(sp, TD, threshold_values=[t / 2.0 for t in tv], steppoints_in_thresholds=rng.random() < 0.7,
                                         weight_upper=rng.random() < 0.5)
        return w, "step01"
    wt = sorted(set(rng.sample(range(ths[0] - 3, ths[-1] + 4), rng.randint(1, 4))))
    if r < 0.5:
        vals = [0.0, 1.0]
        kind = "zero_one"
    else:
        vals = [0.0, 0.25, 0.5, 0.75, 1.0]
        kind = "general"
    nanp = 0.1 if rng.random() < 0.2 else 0.0

    def fill():
        return [NAN if (nanp and rng.random() < nanp) else rng.choice(vals) for _ in wt]
    w = make_da(rng, wdims, TD, [t / 2.0 for t in wt], fill)
    if bad:
        k = rng.random()
        w = w.copy()
        idx = tuple(rng.randrange(s) for s in w.shape)
        w.values[idx] = -0.25 if k < 0.5 else 1.5
        kind = "bad_weight"
    return w, kind


def gen_case(ctx, malformed=False):
    rng = ctx.rng
    int_mode = rng.random() < 0.1                 # whole-number thresholds stored as an integer coordinate (and integer observations)
    ths = gen_thresholds(rng, even=int_mode)
    names = ["a", "b", "c"]
    rng.shuffle(names)
    sizes = {d: rng.randint(1, 3) for d in names[:rng.choice([0, 1, 1, 2])]}
    nanp = rng.choice([0.0, 0.0, 0.1, 0.25])
    mono = rng.choice([1.0, 0.7, 0.0])
    nthr = len(ths)
    each_nan = rng.random() < 0.12                # EVERY forecast CDF of the call has a NaN ordinate (the whole array is NaN after propagation)

    def fline():
        ln = gen_line(rng, nthr, mono, nanp)
        if each_nan and not any(np.isnan(v) for v in ln):
            ln[rng.randrange(nthr)] = NAN
        return ln
    fc = make_da(rng, sizes, TD, [t // 2 for t in ths] if int_mode else [t / 2.0 for t in ths], fline)
    odims = {d: sizes[d] for d in sizes if rng.random() < 0.7}
    obs = make_da(rng, odims, None, None, lambda: gen_obs_value(rng, ths))
    if int_mode:
        ctx.count("class:int_thresholds")
        ov = np.asarray(obs.values, dtype=float)
        if not np.isnan(ov).any() and (ov == np.round(ov)).all():      # whole-number observations in integer storage (unsigned when none is negative)
            obs = obs.astype(rng.choice([np.int64, np.int32] + ([np.uint8, np.uint16] if (ov >= 0).all() and (ov < 256).all() else [])))
            ctx.count("class:int_observations")
    ncases = int(np.prod([sizes[d] for d in sizes])) if sizes else 1
    if not sizes:
        ctx.count("class:single_case")
    if each_nan:
        ctx.count("class:every_case_has_nan")
        if ncases == 1:
            ctx.count("class:single_case_with_nan")
    lo, hi = ths[0] / 2.0, ths[-1] / 2.0
    if any(np.isfinite(v) and (v < lo - 16 or v > hi + 16) for v in np.asarray(obs.values, dtype=float).ravel()):
        ctx.count("class:obs_far_outside")
    w, wkind = (None, "none")
    bad = None
    if malformed:
        bad = rng.choice(["weight", "fcst_bounds", "nonincreasing", "w_nonincreasing", "method", "wmethod", "integration", "one_threshold"])
    if rng.random() < 0.5 or bad in ("weight", "w_nonincreasing", "wmethod"):
        w, wkind = gen_weight(rng, sizes, ths, bad=(bad == "weight"))
    add = None
    if rng.random() < 0.4:
        add = [rng.randint(2 * ths[0] - 4, 2 * ths[-1] + 4) / 4.0 for _ in range(rng.randint(0, 3))]
        if rng.random() < 0.15:
            add.append(NAN)
    opt = dict(fcst_fill_method=rng.choice(FILLS), threshold_weight_fill_method=rng.choice(FILLS),
               integration_method=rng.choice(["exact", "trapz"]), propagate_nans=rng.random() < 0.6)
    if bad == "fcst_bounds":
        fc = fc.copy()
        idx = tuple(rng.randrange(s) for s in fc.shape)
        fc.values[idx] = rng.choice([-0.125, 1.125])
    elif bad == "nonincreasing":
        c = list(fc[TD].values)
        i = rng.randrange(len(c) - 1)
        c[i + 1] = c[i] if rng.random() < 0.5 else c[i] - 1.0
        fc = fc.assign_coords({TD: c})
    elif bad == "w_nonincreasing" and w is not None and w.sizes[TD] >= 2:
        c = list(w[TD].values)
        c[1] = c[0]
        w = w.assign_coords({TD: c})
    elif bad == "method":
        opt["fcst_fill_method"] = "nearest"
    elif bad == "wmethod":
        opt["threshold_weight_fill_method"] = "cubic"
    elif bad == "integration":
        opt["integration_method"] = "simpson"
    elif bad == "one_threshold":
        fc = fc.isel({TD: slice(0, 1)})
    if w is not None and bad is None and set(w.dims) == {TD} and bool(np.isnan(w.values).any()):
        ctx.count("class:weight_nan_without_case_dim")
    c = dict(fcst=fc, obs=obs, weight=w, add=add, opt=opt, sizes=sizes, wkind=wkind, bad=bad)
    if not int_mode and rng.random() < 0.3:
        ctx.count("class:thresholds_far_from_zero")
        return affine(c, *rng.choice(AFFINE))
    return c


def affine(c, base, scale):
    """the same call with every threshold-like quantity x (forecast / weight threshold coordinates, observations, additional thresholds)
    replaced by base + scale * x; the untransformed call is kept under 'plain' for the equivariance predicate"""
    def T(x):
        return base + scale * np.asarray(x, dtype=float)
    fc = c["fcst"].assign_coords({TD: T(c["fcst"][TD].values)})
    w = c["weight"]
    if w is not None:
        w = w.assign_coords({TD: T(w[TD].values)})
    obs = c["obs"].copy(data=T(c["obs"].values))
    add = None if c["add"] is None else [float(T(a)) for a in c["add"]]
    return dict(c, fcst=fc, obs=obs, weight=w, add=add, affine=(base, scale), plain=c)


# ------------------------------------------------------------------------------------------
# flattening to forecast cases and model calls
# ------------------------------------------------------------------------------------------
def case_labels(sizes):
    dims = sorted(sizes)
    return dims, list(itertools.product(*[range(sizes[d]) for d in dims]))


def line_of(da, dims, labels, td=TD):
    sel = {d: l for d, l in zip(dims, labels) if d in da.dims}
    x = da.sel(sel) if sel else da
    return [float(v) for v in np.asarray(x.values, dtype=float).ravel()]


def enc_cases(c):
    dims, labs = case_labels(c["sizes"])
    out = []
    for lb in labs:
        f = line_of(c["fcst"], dims, lb)
        o = line_of(c["obs"], dims, lb)[0]
        w = enc_nums(line_of(c["weight"], dims, lb)) if c["weight"] is not None else "none"
        out.append(enc_list([enc_nums(f), enc_num(o), w]))
    return dims, labs, enc_list(out)


def mcall(ctx, entry, arg):
    """model entry call; None when the check runs without the extracted model (run_without_model)"""
    return None if getattr(ctx, "no_model", False) else ctx.model(entry, arg)


def model_crps(ctx, c):
    dims, labs, cases = enc_cases(c)
    o = c["opt"]
    arg = enc_list([enc_nums(c["fcst"][TD].values),
                    enc_opt(c["weight"], lambda w: enc_nums(w[TD].values)),
                    cases, enc_nums(c["add"] or []),
                    enc_str(o["fcst_fill_method"]), enc_str(o["threshold_weight_fill_method"]), enc_str(o["integration_method"]),
                    enc_bool(o["propagate_nans"])])
    return dims, labs, mcall(ctx, "c07_crps_cases", arg)


def call_crps(c, include_components=True, **over):
    P = S()
    kw = dict(threshold_dim=TD, threshold_weight=c["weight"], additional_thresholds=c["add"], include_components=include_components, **c["opt"])
    dims = sorted(c["sizes"])
    if dims:
        kw["preserve_dims"] = dims
    kw.update(over)
    return core.call_impl(P.crps_cdf, c["fcst"], c["obs"], **kw)


NAMES = ["total", "underforecast_penalty", "overforecast_penalty"]


def impl_triples(ds, dims, labs, names=NAMES):
    out = []
    for lb in labs:
        sel = dict(zip(dims, lb))
        out.append([float(ds[n].sel(sel).values) if n in ds else None for n in names])
    return out


def describe(c):
    return {"fcst": gens.da_repr(c["fcst"]), "obs": gens.da_repr(c["obs"]), "threshold_weight": gens.da_repr(c["weight"]) if c["weight"] is not None else None,
            "additional_thresholds": c["add"], **c["opt"]}


def triples_close(impl, model):
    return all(x is None or core.close(x, q) for x, q in zip(impl, model))


# ------------------------------------------------------------------------------------------
# checks
# ------------------------------------------------------------------------------------------
def tie_crps(ctx, c, components=True):
    """one generated call: (1) property predicates on the implementation -- value = proved specification, component relations --
    and (2) implementation vs code-faithful model.  The two are independent: a tie failure never hides a predicate."""
    dims, labs, m = model_crps(ctx, c)
    impl = call_crps(c, include_components=components)
    desc = describe(c)
    if m is None:      # no model available: only the relations between the outputs of the implementation
        if impl[0] == "ok" and components:
            ctx.case(("crps", desc))
            for lb, g in zip(labs, impl_triples(impl[1], dims, labs)):
                t, u, o = g
                if not (np.isnan(t) and np.isnan(u) and np.isnan(o)) and not (abs(u + o - t) <= 1e-9 * max(1.0, abs(t)) and u >= -1e-12 and o >= -1e-12):
                    ctx.violation("under + over != total or a negative component", {**desc, "case": dict(zip(dims, lb))}, "u+o=t, u>=0, o>=0", g)
                    break
        return None
    res, spec, grid = m
    if core.is_err(res) or impl[0] == "err":
        ok = core.is_err(res) and impl[0] == "err" and impl[1] == res
        ctx.case(("crps", desc), nontrivial=ok)
        ctx.count("error_path" if ok else "error_mismatch")
        if not ok:
            if core.is_err(res):
                ctx.tie_fail("crps_cdf returns a value where the model raises", desc, "value", str(res)[:200])
            else:
                ctx.violation("crps_cdf raises on an input inside its documented domain", desc, "a value", str(impl[1])[:200])
        return None
    ds = impl[1]
    got = impl_triples(ds, dims, labs)
    mod = [core.dec_nums(t) for t in res]
    finite = any(isinstance(t[0], Fraction) for t in mod)
    ctx.case(("crps", desc), nontrivial=finite)
    # (1a) value = proved specification value (integral / trapezoid sum on the documented grid and fills)
    if spec != "none":
        ctx.count("pred:value_is_spec:" + c["opt"]["integration_method"])
        for lb, g, t in zip(labs, got, spec):
            q = core.dec_nums(t)
            if not triples_close(g, q):
                what = ("crps_cdf(exact) differs from the integral of w(x)(F(x)-1{x>=obs})^2" if c["opt"]["integration_method"] == "exact"
                        else "crps_cdf(trapz) differs from the trapezoid rule applied to w (F - obs_cdf)^2")
                ctx.violation(what + " (proved specification value; total, under, over)", {**desc, "case": dict(zip(dims, lb))}, [str(x) for x in q], g)
                break
    # (1b) under + over = total, both >= 0
    if components:
        ctx.count("pred:under_over_total")
        for lb, g in zip(labs, got):
            t, u, o = g
            if not (np.isnan(t) and np.isnan(u) and np.isnan(o)):
                if not (abs(u + o - t) <= 1e-9 * max(1.0, abs(t)) and u >= -1e-12 and o >= -1e-12):
                    ctx.violation("under + over != total or a negative component", {**desc, "case": dict(zip(dims, lb))}, "u+o=t, u>=0, o>=0", g)
                    break
    # (2) tie
    for lb, g, q in zip(labs, got, mod):
        if not triples_close(g, q):
            ctx.tie_fail("crps_cdf value differs from the model", {**desc, "case": dict(zip(dims, lb))}, g, [str(x) for x in q])
            break
    return ds, dims, labs, mod


def tie_reduce(ctx, c, mod, dims, labs):
    """reduce_dims / preserve_dims spellings and weights: implementation vs gather + weighted NaN-skipping mean over the model's per-case values"""
    if getattr(ctx, "no_model", False):
        return
    rng = ctx.rng
    sizes = c["sizes"]
    rd, pd = gens.rand_dimspec(rng, list(sizes) + ([TD] if rng.random() < 0.3 else []), allow_bad=True)
    w = None
    if rng.random() < 0.5 and sizes:
        wd = {d: sizes[d] for d in sizes if rng.random() < 0.6}
        if rng.random() < 0.15:
            wd["z"] = 2
        w = make_da(rng, wd, None, None, lambda: NAN if rng.random() < 0.1 else rng.randint(0, 6) / 2.0)
    comps = rng.random() < 0.5
    kw = dict(threshold_dim=TD, threshold_weight=c["weight"], additional_thresholds=c["add"], include_components=comps, **c["opt"])
    if rd is not None:
        kw["reduce_dims"] = rd
    if pd is not None:
        kw["preserve_dims"] = pd
    if w is not None:
        kw["weights"] = w
    impl = core.call_impl(S().crps_cdf, c["fcst"], c["obs"], **kw)
    shape = enc_list([enc_list([enc_str(d), str(sizes[d])]) for d in dims])
    names = NAMES if comps else NAMES[:1]
    arrays = [enc_list([shape, enc_list([enc_num(t[k]) for t in mod])]) for k in range(len(names))]
    m = ctx.model("c07_reduce", enc_list([
        enc_list([enc_str(d) for d in c["fcst"].dims]), enc_list([enc_str(d) for d in c["obs"].dims]),
        enc_opt(c["weight"], lambda x: enc_list([enc_str(d) for d in x.dims])), enc_str(TD),
        enc_list(arrays), enc_opt(w, core.enc_arr), core.enc_dimspec(rd), core.enc_dimspec(pd)]))
    desc = {**describe(c), "reduce_dims": rd, "preserve_dims": pd, "weights": gens.da_repr(w) if w is not None else None, "include_components": comps}
    ok, why = core.compare_dataset(impl, m, names)
    ctx.case(("reduce", desc), nontrivial=impl[0] == "ok")
    ctx.count("reduce:" + ("ok" if impl[0] == "ok" else impl[1]))
    if not ok:
        ctx.tie_fail("crps_cdf reduction differs from gather + weighted mean of the per-case values: " + why, desc,
                     str(impl[1])[:300] if impl[0] == "err" else {n: np.asarray(impl[1][n].values).tolist() for n in names}, str(m)[:300])


def dims_errors(ctx, c):
    """dimension part of check_crps_cdf_inputs: every violation is a ValueError"""
    if getattr(ctx, "no_model", False):
        return
    rng = ctx.rng
    P = S()
    kind = rng.choice(["td_missing", "td_in_obs", "obs_extra_dim", "weight_no_td", "weight_extra_dim"])
    fc, ob, w = c["fcst"], c["obs"], c["weight"]
    td = TD
    if kind == "td_missing":
        td = "nope"
    elif kind == "td_in_obs":
        ob = ob.expand_dims({TD: [1.0]})
    elif kind == "obs_extra_dim":
        ob = ob.expand_dims({"q": [0, 1]})
    elif kind == "weight_no_td":
        w = xr.DataArray([1.0, 1.0], dims=["q"], coords={"q": [0, 1]}) if not c["sizes"] else \
            xr.DataArray(np.ones(c["sizes"][sorted(c["sizes"])[0]]), dims=[sorted(c["sizes"])[0]])
    elif kind == "weight_extra_dim":
        w = xr.DataArray(np.ones((2, 2)), dims=["q", TD], coords={"q": [0, 1], TD: [0.0, 1.0]})
    kw = dict(threshold_dim=td, threshold_weight=w, **c["opt"])
    impl = core.call_impl(P.crps_cdf, fc, ob, **kw)
    m = ctx.model("c07_reduce", enc_list([
        enc_list([enc_str(d) for d in fc.dims]), enc_list([enc_str(d) for d in ob.dims]),
        enc_opt(w, lambda x: enc_list([enc_str(d) for d in x.dims])), enc_str(td), enc_list([]), "none", "none", "none"]))
    ctx.case(("dims_error", kind, describe(c)), nontrivial=True)
    ctx.count("dims_error:" + kind)
    if not (impl[0] == "err" and core.is_err(m) and impl[1] == m):
        ctx.tie_fail("dimension check of crps_cdf differs from the model (" + kind + ")", {"kind": kind, **describe(c)}, str(impl[1])[:200], str(m)[:200])


CORPUS = [
    # the two manifestations of the repaired defect crps-cdf-exact-general-weight (fixed in /repo by 9901e09)
    dict(ths=[0., 1., 2., 3.], f=[0., .25, .5, 1.], obs=1.5, w=[.5, .5, .5, .5], expect=Fraction(5, 32)),
    dict(ths=[0., 1., 2., 3.], f=[.5, .5, .5, .5], obs=0.0, w=[1., 0., 1., 1.], expect=Fraction(1, 2)),
]


def corpus(ctx):
    P = S()
    for k in CORPUS:
        fc = xr.DataArray([k["f"]], dims=["s", TD], coords={"s": [0], TD: k["ths"]})
        ob = xr.DataArray([k["obs"]], dims=["s"], coords={"s": [0]})
        w = xr.DataArray(k["w"], dims=[TD], coords={TD: k["ths"]})
        r = core.call_impl(P.crps_cdf, fc, ob, threshold_dim=TD, threshold_weight=w, preserve_dims=["s"], integration_method="exact")
        got = float(r[1]["total"][0]) if r[0] == "ok" else r[1]
        ctx.case(("corpus", str(k)))
        ctx.count("corpus")
        if r[0] != "ok" or not core.close(got, k["expect"]):
            ctx.violation("corpus case (regression input of the repaired defect crps-cdf-exact-general-weight): crps_cdf(exact) is not the weighted integral",
                          {"thresholds": k["ths"], "fcst": k["f"], "obs": k["obs"], "threshold_weight": k["w"], "integration_method": "exact"},
                          str(k["expect"]), got)


def probe_nondyadic_obs(ctx):
    """observations that are not on any threshold and are not decimal-round numbers (4/3, float32(2.7), ...): the grid must contain the
    observation itself, and the observation CDF must jump exactly there"""
    obs_vals = [4 / 3, float(np.float32(2.7)), 1 / 3, 2.1, 1.00000004, 2.99999996, -0.3333333333]
    fc = xr.DataArray(np.array([[0.0, 0.25, 0.5, 1.0], [0.125, 0.125, 0.75, 0.875]]), dims=["a", TD], coords={"a": [0, 1], TD: [0.0, 1.0, 2.0, 3.0]})
    for ov in obs_vals:
        ob = xr.DataArray([ov, ov], dims=["a"], coords={"a": [0, 1]})
        for f in FILLS:
            for im in ("exact", "trapz"):
                c = dict(fcst=fc, obs=ob, weight=None, add=None, sizes={"a": 2}, wkind="probe", bad=None,
                         opt=dict(fcst_fill_method=f, threshold_weight_fill_method="forward", integration_method=im, propagate_nans=True))
                tie_crps(ctx, c)
                ctx.count("probe_nondyadic_obs")
    # several different non-dyadic observations in one call (they all enter the common grid)
    ob = xr.DataArray(obs_vals[:2], dims=["a"], coords={"a": [0, 1]})
    for im in ("exact", "trapz"):
        c = dict(fcst=fc, obs=ob, weight=None, add=[2.5000000049], sizes={"a": 2}, wkind="probe", bad=None,
                 opt=dict(fcst_fill_method="linear", threshold_weight_fill_method="forward", integration_method=im, propagate_nans=True))
        tie_crps(ctx, c)
        brier_tie_and_trapz(ctx, c)


def partition(ctx, c):
    """complementary weights w and 1-w: results add up to the unweighted score over the same threshold grid"""
    P = S()
    if c["weight"] is None or c["bad"]:
        return
    o = dict(c["opt"])
    if o["threshold_weight_fill_method"] == "step":
        o["threshold_weight_fill_method"] = "forward"
    w = c["weight"]
    if bool(np.isnan(w.values).any()) or w.sizes[TD] < 2:
        return
    kw = dict(threshold_dim=TD, include_components=True, **o)
    dims = sorted(c["sizes"])
    if dims:
        kw["preserve_dims"] = dims
    a = core.call_impl(P.crps_cdf, c["fcst"], c["obs"], threshold_weight=w, additional_thresholds=c["add"], **kw)
    b = core.call_impl(P.crps_cdf, c["fcst"], c["obs"], threshold_weight=1 - w, additional_thresholds=c["add"], **kw)
    u = core.call_impl(P.crps_cdf, c["fcst"], c["obs"], additional_thresholds=list(c["add"] or []) + [float(x) for x in w[TD].values], **kw)
    if "err" in (a[0], b[0], u[0]):
        if not (a[0] == b[0] == u[0]):
            ctx.violation("weights partition: one of the three calls raises", describe(c), "all succeed", [a[0], b[0], u[0]])
        return
    ctx.case(("partition", describe(c)))
    ctx.count("partition")
    for n in NAMES:
        s = (a[1][n] + b[1][n])
        s, t = xr.broadcast(s, u[1][n])
        if not np.allclose(s.values, t.values, rtol=0, atol=1e-9, equal_nan=True):
            ctx.violation(f"weights w and 1-w do not add up to the unweighted CRPS on the same grid ({n})", {**describe(c), "opts_used": o},
                          t.values.tolist(), s.values.tolist())
            return


def py_trapz(xs, ys):
    """trapezoid rule over exact rationals (NaN if any ordinate is NaN)"""
    if any(np.isnan(v) for v in ys):
        return NAN
    return sum(((Fraction(x1) - Fraction(x0)) * (Fraction(y0) + Fraction(y1)) / 2 for x0, x1, y0, y1 in zip(xs, xs[1:], ys, ys[1:])), Fraction(0))


def brier_tie_and_trapz(ctx, c):
    """crps_cdf_brier_decomposition: per-threshold definition (predicate) and model (tie); trapz (total and components) = trapezoid rule
    over the decomposition (predicate between public calls)"""
    P = S()
    if c["bad"] not in (None, "fcst_bounds", "nonincreasing"):
        return
    dims, labs, cases = enc_cases({**c, "weight": None})
    ffm = c["opt"]["fcst_fill_method"]
    m = mcall(ctx, "c07_brier_cases", enc_list([enc_nums(c["fcst"][TD].values), cases, enc_nums(c["add"] or []), enc_str(ffm)]))
    kw = dict(threshold_dim=TD, additional_thresholds=c["add"], fcst_fill_method=ffm)
    if dims:
        kw["preserve_dims"] = dims
    impl = core.call_impl(P.crps_cdf_brier_decomposition, c["fcst"], c["obs"], **kw)
    desc = {k: v for k, v in describe(c).items() if k in ("fcst", "obs", "additional_thresholds", "fcst_fill_method")}
    desc["fn"] = "crps_cdf_brier_decomposition"
    if m is None:
        if impl[0] == "err":
            return
    elif core.is_err(m) or impl[0] == "err":
        ok = core.is_err(m) and impl[0] == "err" and impl[1] == m
        ctx.case(("brier", desc), nontrivial=ok)
        ctx.count("brier:error_path" if ok else "brier:error_mismatch")
        if not ok:
            ctx.tie_fail("crps_cdf_brier_decomposition raises/returns differently from the model", desc, str(impl[1])[:200], str(m)[:200])
        return
    ctx.case(("brier", desc))
    ctx.count("brier")
    ds = impl[1]
    bn = ["total_penalty", "underforecast_penalty", "overforecast_penalty"]
    # predicate: at every threshold total = (F - 1{thr >= obs})^2 = under + over, under is the part with obs > thr, over the part with obs <= thr
    for lb in labs:
        sel = dict(zip(dims, lb))
        ov = line_of(c["obs"], dims, lb)[0]
        tot = [float(v) for v in ds[bn[0]].sel(sel).values]
        und = [float(v) for v in ds[bn[1]].sel(sel).values]
        ovr = [float(v) for v in ds[bn[2]].sel(sel).values]
        for j, t in enumerate(ds[TD].values):
            if np.isnan(tot[j]):
                continue
            h = 1.0 if t >= ov else 0.0
            good = abs(und[j] + ovr[j] - tot[j]) <= 1e-12 and (und[j] == 0.0 if h == 1.0 else ovr[j] == 0.0) and -1e-12 <= tot[j] <= 1 + 1e-12
            if not good:
                ctx.violation("Brier decomposition: total != under + over, or the wrong component is non-zero for the side of the observation",
                              {**desc, "case": sel, "threshold": float(t)}, "under (obs > thr) / over (obs <= thr)", [tot[j], und[j], ovr[j]])
                break
    # tie
    grid = core.dec_nums(m[0]) if m is not None else None
    if m is None:
        pass
    elif [float(x) for x in ds[TD].values] != [float(g) for g in grid]:
        ctx.tie_fail("brier decomposition threshold grid differs", desc, ds[TD].values.tolist(), [str(g) for g in grid])
    else:
        done = False
        for lb, per_thr in zip(labs, m[1]):
            sel = dict(zip(dims, lb))
            for j, t in enumerate(per_thr):
                q = core.dec_nums(t)
                g = [float(ds[n].sel(sel).isel({TD: j}).values) for n in bn]
                if not triples_close(g, q):
                    ctx.tie_fail("brier decomposition value differs from the model", {**desc, "case": sel, "threshold": str(grid[j])}, g, [str(x) for x in q])
                    done = True
                    break
            if done:
                break
    # trapz = trapezoid rule over the decomposition (NaNs propagated, no weight), all three components
    tz = core.call_impl(P.crps_cdf, c["fcst"], c["obs"], threshold_dim=TD, additional_thresholds=c["add"], fcst_fill_method=ffm,
                        integration_method="trapz", include_components=True, propagate_nans=True, **({"preserve_dims": dims} if dims else {}))
    if tz[0] != "ok":
        ctx.violation("crps_cdf(trapz) raises where the Brier decomposition succeeds", desc, "ok", tz[1])
        return
    thr = [float(x) for x in ds[TD].values]
    for lb in labs:
        sel = dict(zip(dims, lb))
        for n, b in zip(NAMES, bn):
            vals = [float(v) for v in ds[b].sel(sel).values]
            want = py_trapz(thr, vals)
            got = float(tz[1][n].sel(sel).values)
            if not core.close(got, want, tol=1e-8):
                ctx.violation(f"crps_cdf(trapz) {n} is not the trapezoid integral of the Brier decomposition", {**desc, "case": sel}, str(want), got)
                return
    ctx.count("trapz_is_trapezoid_of_brier")


def nan_own_case(ctx, c, target=None):
    """a NaN ordinate (forecast, or threshold weight) blanks its own forecast case and leaves every other case unchanged (propagate_nans=True)"""
    if c["bad"] or not c["sizes"]:
        return
    dims, labs = case_labels(c["sizes"])
    if len(labs) < 2:
        return
    rng = ctx.rng
    c1 = dict(c, opt=dict(c["opt"], propagate_nans=True))
    base = call_crps(c1)
    lb = rng.choice(labs)
    sel = dict(zip(dims, lb))
    hit = [lb]
    if c["weight"] is not None and (target == "weight" or (target is None and rng.random() < 0.4)):
        target = "weight"
        w2 = c["weight"].copy()
        wsel = {d: v for d, v in sel.items() if d in w2.dims}
        j = rng.randrange(w2.sizes[TD])
        w2.loc[{**wsel, TD: w2[TD].values[j]}] = NAN
        pert = call_crps(dict(c1, weight=w2))
        hit = [l for l in labs if all(dict(zip(dims, l))[d] == v for d, v in wsel.items())]
    else:
        target = "fcst"
        f2 = c["fcst"].copy()
        j = rng.randrange(f2.sizes[TD])
        f2.loc[{**sel, TD: f2[TD].values[j]}] = NAN
        pert = call_crps(dict(c1, fcst=f2))
    if base[0] != "ok" or pert[0] != "ok":
        if base[0] != pert[0]:
            ctx.violation("making one ordinate NaN changes whether crps_cdf raises", describe(c1), base[0], pert[0])
        return
    ctx.case(("nan_own", target, describe(c1), lb, j))
    ctx.count("nan_own_case:" + target)
    for l2 in labs:
        s2 = dict(zip(dims, l2))
        for n in NAMES:
            a = float(base[1][n].sel(s2).values)
            b = float(pert[1][n].sel(s2).values)
            if l2 in hit:
                good = np.isnan(b)
            else:
                good = (np.isnan(a) and np.isnan(b)) or abs(a - b) <= 1e-12
            if not good:
                ctx.violation(f"a NaN {target} ordinate changes another forecast case / does not blank its own case",
                              {**describe(c1), "nan_in": target, "nan_at": {**sel, "threshold_index": j}, "looked_at": s2, "component": n}, "nan" if l2 in hit else a, b)
                return


def same_or_both_nan(a, b, tol=1e-12):
    return (np.isnan(a) and np.isnan(b)) or (not np.isnan(a) and not np.isnan(b) and (a == b or abs(a - b) <= tol * max(1.0, abs(a))))


def shift_scale(ctx, c):
    """CRPS is equivariant under x -> base + scale * x applied to every threshold and observation: the score of the moved call is
    scale * the score of the call near zero (the integrand only sees differences of thresholds).  Needs no model."""
    p = c.get("plain")
    if p is None or c["bad"]:
        return
    base, scale = c["affine"]
    a, b = call_crps(p), call_crps(c)
    desc = {**describe(c), "moved_by": {"base": base, "scale": scale}}
    if a[0] != "ok" or b[0] != "ok":
        if a[0] != b[0]:
            ctx.violation("moving all thresholds and observations by a common offset / scale changes whether crps_cdf raises", desc, a[0], b[0])
        return
    dims, labs = case_labels(c["sizes"])
    ctx.case(("shift_scale", desc))
    ctx.count("shift_scale_equivariance")
    for lb, x, y in zip(labs, impl_triples(a[1], dims, labs), impl_triples(b[1], dims, labs)):
        for n, u, v in zip(NAMES, x, y):
            if not same_or_both_nan(scale * u, v, tol=1e-7):
                ctx.violation("crps_cdf is not equivariant: thresholds and observations moved to base + scale * x must give scale * the score "
                              f"of the call near zero ({n})", {**desc, "case": dict(zip(dims, lb)), "near_zero": describe(p)}, scale * u, v)
                return


def pick_case(da, sel):
    """the sub-array of one forecast case, dimensions kept (size 1)"""
    if da is None:
        return None
    k = {d: [v] for d, v in sel.items() if d in da.dims}
    return contiguous(da.sel(k)) if k else da


def alone_vs_batch(ctx, c):
    """the score of a forecast case does not depend on which other cases share the call, once the threshold grid is the same (the
    observations of the whole batch are passed as additional thresholds to both calls): C07_nan_own_case_only without a model"""
    if c["bad"] or not c["sizes"]:
        return
    dims, labs = case_labels(c["sizes"])
    if len(labs) < 2:
        return
    lb = ctx.rng.choice(labs)
    sel = dict(zip(dims, lb))
    add = list(c["add"] or []) + [float(v) for v in np.asarray(c["obs"].values, dtype=float).ravel() if not np.isnan(v)]
    cb = dict(c, add=add)
    c1 = dict(c, add=add, fcst=pick_case(c["fcst"], sel), obs=pick_case(c["obs"], sel), weight=pick_case(c["weight"], sel))
    a, b = call_crps(cb), call_crps(c1)
    desc = {**describe(cb), "case": sel}
    ctx.case(("alone", desc))
    ctx.count("alone_vs_batch")
    if a[0] != "ok" or b[0] != "ok":
        if a[0] != b[0]:
            ctx.violation("a forecast case scored alone raises / does not raise although the same case scored in a batch does not / does", desc,
                          f"batch: {a[0]}", f"alone: {b[1] if b[0] == 'err' else 'ok'}")
        return
    x, y = impl_triples(a[1], dims, [lb])[0], impl_triples(b[1], dims, [lb])[0]
    if not all(same_or_both_nan(u, v, tol=1e-10) for u, v in zip(x, y)):
        ctx.violation("the score of a forecast case depends on which other cases share the call (same threshold grid in both calls)", desc, x, y)


INF_KEY = "crps-cdf-infinite-observation"


def inf_obs_as_missing(ctx, c):
    """an infinite observation has no finite CRPS (the documented integral diverges): it must be scored like a missing one -- NaN for its
    own case, every other case of the call unchanged.  Relation between two public calls (obs = +-inf vs obs = NaN at the same places)."""
    if c["bad"]:
        return
    rng = ctx.rng
    ov = np.asarray(c["obs"].values, dtype=float)
    n = ov.size
    where = set(rng.sample(range(n), rng.randint(1, max(1, n // 2))))
    vi, vn = ov.copy().ravel(), ov.copy().ravel()
    for k in where:
        vi[k] = rng.choice([INF, -INF])
        vn[k] = NAN
    oi, on = c["obs"].copy(data=vi.reshape(ov.shape)), c["obs"].copy(data=vn.reshape(ov.shape))
    dims, labs = case_labels(c["sizes"])
    for fn in ("crps", "brier"):
        if fn == "crps":
            a, b = call_crps(dict(c, obs=oi)), call_crps(dict(c, obs=on))
            names = NAMES
        else:
            kw = dict(threshold_dim=TD, additional_thresholds=c["add"], fcst_fill_method=c["opt"]["fcst_fill_method"])
            if dims:
                kw["preserve_dims"] = dims
            a = core.call_impl(S().crps_cdf_brier_decomposition, c["fcst"], oi, **kw)
            b = core.call_impl(S().crps_cdf_brier_decomposition, c["fcst"], on, **kw)
            names = ["total_penalty", "underforecast_penalty", "overforecast_penalty"]
        desc = {**describe(dict(c, obs=oi)), "fn": "crps_cdf" if fn == "crps" else "crps_cdf_brier_decomposition"}
        ctx.case(("inf_obs", fn, desc))
        ctx.count("inf_obs_as_missing:" + fn)
        if b[0] != "ok":
            continue
        if a[0] != "ok":
            ctx.violation("an infinite observation makes the call raise (a missing observation at the same place does not)", desc, "ok", a[1], finding_key=INF_KEY)
            continue
        for n_ in names:
            x, y = xr.broadcast(a[1][n_], b[1][n_])
            # (Brier: the infinite observation is an extra threshold of the result; compare on the thresholds of the reference call)
            if fn == "brier":
                x = a[1][n_].reindex({TD: b[1][n_][TD].values})
                y = b[1][n_]
                x, y = xr.broadcast(x, y)
            if not np.allclose(np.asarray(x.values, dtype=float), np.asarray(y.values, dtype=float), rtol=1e-10, atol=1e-12, equal_nan=True):
                ctx.violation("an infinite observation is not scored like a missing one: its own case must be NaN and every other case of the call "
                              f"unchanged ({n_})", desc, np.asarray(y.values).tolist(), np.asarray(x.values).tolist(), finding_key=INF_KEY)
                break


def probe_far_thresholds(ctx):
    """thresholds far from zero relative to their spacing (1e6 ... 1e6+4, 101325 +- k/16, 273 + k/64, -2e6 at spacing 2): the exact rational
    model, the proved specification value, the Brier / trapezoid relation and the equivariance all see the same call moved"""
    fc = xr.DataArray(np.array([[0.125, 0.25, 0.5, 0.75, 1.0], [0.0, 0.625, 0.375, 0.875, 0.875]]), dims=["a", TD],
                      coords={"a": [0, 1], TD: [0.0, 1.0, 2.0, 3.0, 4.0]})
    w = xr.DataArray([0.25, 1.0, 0.5], dims=[TD], coords={TD: [0.5, 2.0, 3.5]})
    for base, scale in AFFINE:
        for ovs in ([1.5, 1.5], [2.0, -3.0], [4.0 + 1 / 3, 6.0]):
            ob = xr.DataArray(ovs, dims=["a"], coords={"a": [0, 1]})
            for f, im, wt in [("linear", "exact", None), ("linear", "trapz", None), ("step", "exact", w), ("backward", "trapz", w), ("forward", "exact", w)]:
                p = dict(fcst=fc, obs=ob, weight=wt, add=[2.25], sizes={"a": 2}, wkind="probe", bad=None,
                         opt=dict(fcst_fill_method=f, threshold_weight_fill_method="forward", integration_method=im, propagate_nans=True))
                c = affine(p, base, scale)
                tie_crps(ctx, c)
                shift_scale(ctx, c)
                ctx.count("probe_far_thresholds")
        brier_tie_and_trapz(ctx, c)
        nan_own_case(ctx, c, "weight")
        nan_own_case(ctx, c, "fcst")


def probe_every_case_has_nan(ctx):
    """calls in which EVERY forecast CDF has a NaN ordinate (single-case calls, small batches) and threshold weights without a case
    dimension that have a NaN: with propagate_nans the whole array is NaN when it reaches the fills; the result is NaN per case, no error"""
    ths = [0.0, 1.0, 2.0, 3.0, 4.0]
    rows = [[0.125, NAN, 0.625, 0.75, 1.0], [NAN, 0.25, 0.5, 0.75, 1.0], [0.0, 0.25, 0.5, 0.75, NAN], [NAN] * 5]
    w_nan = xr.DataArray([0.5, NAN, 1.0], dims=[TD], coords={TD: [0.0, 2.0, 4.0]})
    w_ok = xr.DataArray([0.5, 0.25, 1.0], dims=[TD], coords={TD: [0.0, 2.0, 4.0]})
    good = [0.0, 0.25, 0.5, 0.75, 1.0]
    batches = [([rows[0]], None), ([rows[3]], None), (rows[:3], None), (rows, None), ([good, rows[1]], w_nan), ([good], w_nan), ([rows[2]], w_ok)]
    for lines, w in batches:
        n = len(lines)
        if w is w_nan:
            ctx.count("class:weight_nan_without_case_dim")
        ob = xr.DataArray([1.5 + k for k in range(n)], dims=["a"], coords={"a": list(range(n))})
        fc2 = xr.DataArray(np.array(lines, dtype=float), dims=["a", TD], coords={"a": list(range(n)), TD: ths})
        variants = [(fc2, ob, {"a": n})]
        if n == 1:      # the same single case without any case dimension
            variants.append((fc2.isel(a=0, drop=True), ob.isel(a=0, drop=True), {}))
        for fcv, obv, sizes in variants:
            for f, im, pr in [("linear", "exact", True), ("step", "trapz", True), ("forward", "exact", False), ("linear", "trapz", False)]:
                c = dict(fcst=fcv, obs=obv, weight=w, add=None, sizes=sizes, wkind="probe", bad=None,
                         opt=dict(fcst_fill_method=f, threshold_weight_fill_method="forward", integration_method=im, propagate_nans=pr))
                tie_crps(ctx, c)
                ctx.count("probe_every_case_has_nan")
            brier_tie_and_trapz(ctx, c)
            alone_vs_batch(ctx, c)
    # error paths of the Brier decomposition: an ordinate outside [0, 1]; a threshold coordinate that is not increasing
    fcb = xr.DataArray(np.array([[0.0, 0.5, 1.125], [0.0, 0.5, 1.0]]), dims=["a", TD], coords={"a": [0, 1], TD: [0.0, 1.0, 2.0]})
    obb = xr.DataArray([0.5, 1.5], dims=["a"], coords={"a": [0, 1]})
    for fcv, bad in ((fcb, "fcst_bounds"), (fcb.clip(0, 1).assign_coords({TD: [0.0, 2.0, 1.0]}), "nonincreasing")):
        brier_tie_and_trapz(ctx, dict(fcst=fcv, obs=obb, weight=None, add=None, sizes={"a": 2}, wkind="probe", bad=bad,
                                      opt=dict(fcst_fill_method="linear", threshold_weight_fill_method="forward", integration_method="exact", propagate_nans=True)))


# ------------------------------------------------------------------------------------------
# defaults: every optional argument omitted vs written out at its documented default
# ------------------------------------------------------------------------------------------
# the documented default of every optional argument (signature + docstring of the pinned tree).  A call that omits an argument must be the
# call that writes its documented default out -- and that explicit call is decided by the exact oracles (tie_crps / brier_tie_and_trapz).
DOC_CRPS = dict(threshold_dim="threshold", threshold_weight=None, additional_thresholds=None, propagate_nans=True, fcst_fill_method="linear",
                threshold_weight_fill_method="forward", integration_method="exact", reduce_dims=None, preserve_dims=None, weights=None,
                include_components=False)
DOC_BRIER = dict(threshold_dim="threshold", additional_thresholds=None, fcst_fill_method="linear", reduce_dims=None, preserve_dims=None)
DOC_STEPW = dict(threshold_values=None, steppoints_in_thresholds=True, steppoint_precision=0, weight_upper=True)
EXPECT_COUNTS += ["probe_defaults", "defaults:crps_cdf", "defaults:crps_cdf_brier_decomposition", "defaults:crps_step_threshold_weight"] + \
    ["defaults:omitted:" + k for k in list(DOC_CRPS) + list(DOC_STEPW)]


def pick_omitted(rng, names):
    """which optional arguments the call leaves out: one, a random subset, or all of them"""
    r = rng.random()
    if r < 0.3:
        return {rng.choice(names)}
    if r < 0.45:
        return set(names)
    return {n for n in names if rng.random() < 0.4} or {rng.choice(names)}


def same_result(a, b):
    """two call_impl results: the same error class, or equal labelled values (NaN at the same places)"""
    if a[0] != b[0]:
        return False
    return a[1] == b[1] if a[0] == "err" else bool(a[1].equals(b[1]))


def show(r):
    if r[0] == "err":
        return r[1]
    v = r[1]
    return {n: np.asarray(v[n].values).tolist() for n in v.data_vars} if isinstance(v, xr.Dataset) else np.asarray(v.values).tolist()


def to_default_td(da):
    return None if da is None else da.rename({TD: "threshold"})


def defaults_crps(ctx, c, omit=None):
    """crps_cdf and crps_cdf_brier_decomposition with optional arguments OMITTED: the result must be the one of the call that writes the
    documented default of each omitted argument out (threshold_dim 'threshold', no weight, no additional thresholds, propagate_nans,
    'linear' / 'forward' fills, 'exact', mean over all dimensions, no components); the written-out call itself goes through the exact
    oracles.  A default changed in a signature, or a keyword no longer forwarded, is invisible to calls that always pass it."""
    if c["bad"]:
        return
    rng = ctx.rng
    dims, labs = case_labels(c["sizes"])
    for fn, doc in (("crps_cdf", DOC_CRPS), ("crps_cdf_brier_decomposition", DOC_BRIER)):
        om = set(omit) & set(doc) if omit is not None else pick_omitted(rng, list(doc))
        if not om:
            continue
        full = dict(threshold_dim=TD, additional_thresholds=c["add"], fcst_fill_method=c["opt"]["fcst_fill_method"], reduce_dims=None,
                    preserve_dims=dims or None)
        if fn == "crps_cdf":
            full.update(threshold_weight=c["weight"], weights=None, include_components=True, **c["opt"])
        full = {k: (doc[k] if k in om else v) for k, v in full.items()}      # the call with every documented default written out
        fc, w = c["fcst"], full.get("threshold_weight")
        if "threshold_dim" in om:
            fc, w = to_default_td(fc), to_default_td(w)
            if w is not None:
                full["threshold_weight"] = w
        f = getattr(S(), fn)
        explicit = core.call_impl(f, fc, c["obs"], **full)
        omitted = core.call_impl(f, fc, c["obs"], **{k: v for k, v in full.items() if k not in om})
        desc = {"fn": fn, "fcst": gens.da_repr(fc), "obs": gens.da_repr(c["obs"]), "omitted_arguments": sorted(om),
                "explicit_call": {k: (gens.da_repr(v) if isinstance(v, xr.DataArray) else v) for k, v in full.items()}}
        ctx.case(("defaults", desc), nontrivial=explicit[0] == "ok")
        ctx.count("defaults:" + fn)
        for k in om:
            ctx.count("defaults:omitted:" + k)
        if not same_result(explicit, omitted):
            ctx.violation(f"{fn} called without {sorted(om)} differs from the call that writes the documented defaults "
                          f"({ {k: doc[k] for k in sorted(om)} }) out", desc, show(explicit), show(omitted))
            continue
        # the written-out call against the exact oracles (model + proved specification; per-threshold Brier definition)
        c2 = dict(c, weight=None if "threshold_weight" in om else c["weight"], add=None if "additional_thresholds" in om else c["add"],
                  opt={k: (doc[k] if k in om else v) for k, v in c["opt"].items()} if fn == "crps_cdf" else
                  dict(c["opt"], fcst_fill_method=full["fcst_fill_method"]), wkind="defaults")
        if fn == "crps_cdf_brier_decomposition":
            brier_tie_and_trapz(ctx, c2)
            continue
        r = tie_crps(ctx, c2)
        if r is not None and omitted[0] == "ok" and "preserve_dims" in om:
            # nothing preserved: the NaN-skipping mean of the per-case values of the same call
            for n in (NAMES if "include_components" not in om else NAMES[:1]):
                per = [float(r[0][n].sel(dict(zip(dims, lb))).values) for lb in labs]
                per = [v for v in per if not np.isnan(v)]
                want = float(np.mean(per)) if per else NAN
                got = float(omitted[1][n].values) if isinstance(omitted[1], xr.Dataset) else float(omitted[1].values)
                if not same_or_both_nan(want, got, tol=1e-10):
                    ctx.violation(f"crps_cdf without preserve_dims / reduce_dims is not the mean of the per-case scores ({n})", desc, want, got)
                    break


def rounded_to(x, prec):
    """nearest multiple of prec, ties to even (numpy); 0 = unchanged"""
    if prec == 0 or np.isnan(x) or np.isinf(x):
        return x
    q = Fraction(x) / Fraction(prec)
    fl = q.numerator // q.denominator
    r = q - fl
    k = fl if r < Fraction(1, 2) else (fl + 1 if r > Fraction(1, 2) else (fl if fl % 2 == 0 else fl + 1))
    return float(k * Fraction(prec))


def defaults_step_weight(ctx, omit=None, sv=None, given=None):
    """crps_step_threshold_weight: every optional argument omitted / written out (also at non-default values), against its documented
    statement: thresholds = (rounded) step points (when included) and threshold_values; weight 1 where threshold >= (rounded) step point,
    0 below (reversed when weight_upper is False); NaN for a NaN step point"""
    rng = ctx.rng
    sv = sv or [NAN if rng.random() < 0.1 else rng.randint(-4, 20) / 4.0 for _ in range(rng.randint(1, 4))]
    n = len(sv)
    sp = xr.DataArray(sv, dims=["a"], coords={"a": list(range(n))})
    given = given or dict(threshold_values=None if rng.random() < 0.3 else [rng.randint(-2, 10) / 2.0 for _ in range(rng.randint(1, 4))],
                 steppoints_in_thresholds=rng.random() < 0.6, steppoint_precision=rng.choice([0, 0, 0.5, 1, 0.25]), weight_upper=rng.random() < 0.5)
    om = set(omit) if omit is not None else (pick_omitted(rng, list(DOC_STEPW)) if rng.random() < 0.8 else set())
    full = {k: (DOC_STEPW[k] if k in om else v) for k, v in given.items()}
    f = S().crps_step_threshold_weight
    explicit = core.call_impl(f, sp, TD, **full)
    omitted = core.call_impl(f, sp, TD, **{k: v for k, v in full.items() if k not in om})
    desc = {"fn": "crps_step_threshold_weight", "step_points": sv, "omitted_arguments": sorted(om), "explicit_call": full}
    ctx.case(("step_weight", desc), nontrivial=explicit[0] == "ok")
    ctx.count("defaults:crps_step_threshold_weight")
    for k in om:
        ctx.count("defaults:omitted:" + k)
    if not same_result(explicit, omitted):
        ctx.violation(f"crps_step_threshold_weight called without {sorted(om)} differs from the call that writes the documented defaults out",
                      desc, show(explicit), show(omitted))
        return
    prec, tv, inc = full["steppoint_precision"], full["threshold_values"], full["steppoints_in_thresholds"]
    rs = [rounded_to(v, prec) for v in sv]
    grid = sorted(set([v for v in rs if inc and not np.isnan(v)] + [float(t) for t in (tv or [])]))
    if all(np.isnan(v) for v in sv) and tv is None:
        if omitted[0] != "err":
            ctx.violation("crps_step_threshold_weight must raise when there is neither a non-NaN step point nor a threshold value", desc, "err:ValueError", "a value")
        return
    if not grid:
        return
    if omitted[0] != "ok":
        ctx.violation("crps_step_threshold_weight raises on a valid input", desc, "a value", omitted[1])
        return
    got = omitted[1]
    if [float(t) for t in got[TD].values] != grid:
        ctx.violation("crps_step_threshold_weight: thresholds are not the sorted union of the (rounded) step points and threshold_values", desc, grid,
                      got[TD].values.tolist())
        return
    for k, s in enumerate(rs):
        want = [NAN if np.isnan(s) else float((t >= s) == full["weight_upper"]) for t in grid]
        g = [float(v) for v in got.sel(a=k).values]
        if not all(same_or_both_nan(x, y, tol=0) for x, y in zip(want, g)):
            ctx.violation("crps_step_threshold_weight is not the 0/1 step at the (rounded) step point (1 at and above it when weight_upper, 0 otherwise)",
                          {**desc, "case": {"a": k}}, want, g)
            return


def probe_defaults(ctx):
    """every optional argument of crps_cdf / crps_cdf_brier_decomposition / crps_step_threshold_weight omitted, one at a time and all at once,
    on data where each default matters: observations between forecast thresholds and outside them, a NaN ordinate in one case, a general
    weight on its own thresholds, additional thresholds, a CDF that is not flat anywhere"""
    fc = xr.DataArray(np.array([[0.125, 0.25, 0.625, 0.75, 1.0], [0.0, 0.25, 0.5, 0.875, 1.0], [0.125, NAN, 0.5, 0.75, 0.875]]), dims=["a", TD],
                      coords={"a": [0, 1, 2], TD: [0.0, 1.0, 2.0, 3.0, 4.0]})
    w = xr.DataArray([0.25, NAN, 1.0, 0.5], dims=[TD], coords={TD: [0.5, 1.0, 2.5, 3.0]})
    for (ovs, add), (f, wf, im, pr, wt) in zip((([1.5, 2.25, 0.5], None), ([1.0, 3.0, 2.0], [0.75, 3.5]), ([-1.5, 5.0, 2.0], None), ([0.25, 3.75, 1.0], [2.5])),
                                               (("linear", "forward", "exact", True, None), ("step", "linear", "trapz", False, w),
                                                ("backward", "step", "exact", False, w), ("forward", "backward", "trapz", True, w))):
        ob = xr.DataArray(ovs, dims=["a"], coords={"a": [0, 1, 2]})
        c = dict(fcst=fc, obs=ob, weight=wt, add=add, sizes={"a": 3}, wkind="probe", bad=None,
                 opt=dict(fcst_fill_method=f, threshold_weight_fill_method=wf, integration_method=im, propagate_nans=pr))
        for k in list(DOC_CRPS) + [list(DOC_CRPS)]:
            defaults_crps(ctx, c, omit=[k] if isinstance(k, str) else k)
            ctx.count("probe_defaults")
    for k in list(DOC_STEPW) + [list(DOC_STEPW), []]:
        defaults_step_weight(ctx, omit=[k] if isinstance(k, str) else k)
        # non-default values for the arguments that stay: step points that are not multiples of the precision, not among threshold_values
        for inc, prec, up in ((True, 1, False), (False, 0.5, True), (True, 0.5, False)):
            defaults_step_weight(ctx, omit=[k] if isinstance(k, str) else k, sv=[0.25, 1.75, NAN, 2.5, -0.75],
                                 given=dict(threshold_values=[0.0, 1.0, 2.5, 1.5], steppoints_in_thresholds=inc, steppoint_precision=prec, weight_upper=up))


def sweep(ctx, full):
    """finite sweep: every line over {NaN, 0, 1/2, 1}^3 on thresholds (0, 1, 2) x 7 observation positions, one call per option combination"""
    vals = [NAN, 0.0, 0.5, 1.0]
    lines = list(itertools.product(vals, repeat=3))
    obs_vals = [-1.0, 0.0, 0.5, 1.0, 1.5, 2.0, 3.0]
    fc = xr.DataArray(np.array([[ln] * len(obs_vals) for ln in lines], dtype=float), dims=["a", "b", TD],
                      coords={"a": list(range(len(lines))), "b": list(range(len(obs_vals))), TD: [0.0, 1.0, 2.0]})
    ob = xr.DataArray(obs_vals, dims=["b"], coords={"b": list(range(len(obs_vals)))})
    weights = [None, xr.DataArray([0.5, 0.5], dims=[TD], coords={TD: [0.0, 2.0]}), xr.DataArray([0.0, 1.0, 0.25], dims=[TD], coords={TD: [0.5, 1.0, 1.75]})]
    combos = [(f, im, pr, wi) for f in FILLS for im in ("exact", "trapz") for pr in (True, False) for wi in range(3)]
    if not full:
        combos = ctx.rng.sample(combos, 6)
    for f, im, pr, wi in combos:
        if not ctx.time_left():
            return
        c = dict(fcst=fc, obs=ob, weight=weights[wi], add=None, sizes={"a": len(lines), "b": len(obs_vals)}, wkind="sweep", bad=None,
                 opt=dict(fcst_fill_method=f, threshold_weight_fill_method="forward", integration_method=im, propagate_nans=pr))
        r = tie_crps(ctx, c)
        ctx.count("sweep_calls")
        ctx.count("sweep_cases", len(lines) * len(obs_vals))


def run_without_model(ctx):
    """the extracted model does not build against the current source: still evaluate every relation between public calls"""
    ctx.no_model = True
    run(ctx)


def replay(ctx, obj):
    """re-run the generation that produced the replay file: every case derives from the recorded seed and tier"""
    ctx.rng.seed(obj.get("seed", ctx.seed))
    ctx.tier = obj.get("tier", ctx.tier)
    run(ctx)


def run(ctx):
    corpus(ctx)
    probe_nondyadic_obs(ctx)
    probe_far_thresholds(ctx)
    probe_every_case_has_nan(ctx)
    probe_defaults(ctx)
    sweep(ctx, full=(ctx.tier == "thorough"))
    n = ctx.n(330, 5000)
    for i in range(n):
        if not ctx.time_left():
            ctx.note(f"time budget reached after {i} generated calls")
            break
        malformed = ctx.rng.random() < 0.12
        c = gen_case(ctx, malformed=malformed)
        ctx.count("weight:" + c["wkind"])
        ctx.count("integration:" + c["opt"]["integration_method"])
        ctx.count("fill:" + c["opt"]["fcst_fill_method"])
        if c["bad"]:
            ctx.count("malformed:" + c["bad"])
        comps = ctx.rng.random() < 0.75
        r = tie_crps(ctx, c, components=comps)
        if i < 3:
            ctx.sample(describe(c))
        if r is not None and comps and ctx.rng.random() < 0.5:
            tie_reduce(ctx, c, r[3], r[1], r[2])
        if "affine" in c and ctx.rng.random() < 0.5:
            shift_scale(ctx, c)
        k = ctx.rng.random()
        if k < 0.2:
            partition(ctx, c)
        elif k < 0.42:
            brier_tie_and_trapz(ctx, c)
        elif k < 0.58:
            nan_own_case(ctx, c)
        elif k < 0.65 and not c["bad"]:
            dims_errors(ctx, c)
        elif k < 0.8:
            alone_vs_batch(ctx, c)
        elif k < 0.88:
            inf_obs_as_missing(ctx, c)
        else:
            defaults_crps(ctx, c)
            if k < 0.92:
                defaults_step_weight(ctx)
