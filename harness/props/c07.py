"""C07 -- CRPS for CDF forecasts equals the exact threshold-weighted integral."""
import itertools
from fractions import Fraction

import numpy as np
import xarray as xr

import core
import gens
from core import enc_bool, enc_list, enc_num, enc_nums, enc_opt, enc_str

ID = "C07"
LEVEL = "proof"
LEVEL_TEXT = ("Coq theorems, for every threshold grid, ordinates, observation and non-negative piecewise-constant weight, that the exact method's "
              "value is the Riemann integral (Coquelicot is_RInt) of w(x)(F(x)-1{x>=y})^2 over the grid span with F the piecewise-linear interpolant; "
              "that under+over=total with both non-negative (exact and trapz); that complementary weights add up to the unweighted score on the same "
              "grid; that trapz is the trapezoid rule applied to the per-threshold Brier decomposition; and that a NaN ordinate blanks its own case only. "
              "The executable model (union grid, observed CDF, four fill methods, NaN propagation, piece integration, reductions) is tied to the code by "
              "a correspondence check on every run; the closed-form piece integral and the Brier kernel are regenerated from the source text.")
LEVEL_NOTE = ("trusted: translator + Xval semantics for the two regenerated kernels, the hand model of the xarray pipeline (validated by correspondence), "
              "extraction, harness; binary64 rounding not modelled (dyadic inputs, tolerance 1e-9); Coquelicot/Reals axioms as reported per theorem")
TECHNIQUE = "Coq proof (Coquelicot integral) over an extracted executable model + correspondence check"
SITES = ["C07.piece", "C07.bscore"]
RULE = ("structured random cases: 2-6 forecast thresholds on the half-integer grid, 0-2 extra dimensions of size 1-3 stored in shuffled order with the "
        "threshold dimension at a random position, ordinates k/8 (mostly non-decreasing, sometimes shuffled, NaN injected), observations on / between / "
        "outside the forecast thresholds (or NaN), weight absent / 0-1 step / general k/4 on its own thresholds and dims, additional thresholds, "
        "4 fcst fills x 4 weight fills x 2 integration methods x propagate_nans x include_components, plus a malformed stream (non-increasing "
        "coordinates, ordinates or weights outside [0,1], negative weights, unknown method names, a single threshold); a case is distinct by the hash "
        "of all inputs and options and non-trivial when at least one forecast case has a finite score")
ASSUMPTIONS = ["observations, thresholds and weights are finite or NaN (no infinities)",
               "threshold weights lie in [0,1]: fill_cdf rejects anything else with ValueError (modelled and checked)"]
TRUSTED = ["hand model of xarray's interpolate_na(linear, extrapolate) / ffill / bfill / integrate / sum(min_count) in coq/model/Cdf.v (validated by correspondence)"]

TD = "thr"
FILLS = ["linear", "step", "forward", "backward"]
NAN = float("nan")


def S():
    import scores.probability as P
    return P


# ------------------------------------------------------------------------------------------
# generation
# ------------------------------------------------------------------------------------------
def gen_thresholds(rng, lo=2, hi=6, span=20):
    n = rng.randint(lo, hi)
    return sorted(rng.sample(range(0, span + 1), n))       # in half units


def gen_line(rng, n, monotone_p=0.7, nan_p=0.0):
    ks = [rng.randint(0, 8) for _ in range(n)]
    if rng.random() < monotone_p:
        ks.sort()
    return [NAN if (nan_p and rng.random() < nan_p) else k / 8.0 for k in ks]


def gen_obs_value(rng, ths, nan_p=0.1):
    r = rng.random()
    if r < nan_p:
        return NAN
    if r < 0.45:
        return rng.choice(ths) / 2.0                      # on a forecast threshold
    if r < 0.8:
        return rng.randint(2 * ths[0], 2 * ths[-1]) / 4.0  # inside the span, often between two
    return rng.choice([ths[0] - rng.randint(1, 4), ths[-1] + rng.randint(1, 4)]) / 2.0


def contiguous(da):
    """same labelled values, freshly allocated C-contiguous storage.  (The environment's bottleneck 1.6.0 returns garbage for
    whole-array nanmax/nanmin/nansum on some transposed views with size-1 dimensions, which makes xarray's .max()/.min() -- used by
    scores' bound check -- wrong; that is a platform defect outside nci/scores, so generated arrays avoid such views.)"""
    return xr.DataArray(np.array(da.values, order="C", copy=True), dims=da.dims, coords=da.coords)


def make_da(rng, dims_sizes, line_dim, line_coords, fill):
    """DataArray over the extra dims (labels 0..n-1, stored shuffled) and optionally a threshold dim at a random position"""
    dims = list(dims_sizes)
    rng.shuffle(dims)
    coords = {}
    for d in dims:
        lab = list(range(dims_sizes[d]))
        rng.shuffle(lab)
        coords[d] = lab
    shape = [dims_sizes[d] for d in dims]
    n = int(np.prod(shape)) if shape else 1
    if line_dim is None:
        vals = np.array([fill() for _ in range(n)], dtype=float).reshape(shape)
        return xr.DataArray(vals, dims=dims, coords=coords)
    vals = np.array([fill() for _ in range(n)], dtype=float).reshape(shape + [len(line_coords)])   # fill() -> one line
    da = xr.DataArray(vals, dims=dims + [line_dim], coords={**coords, line_dim: list(line_coords)})
    order = dims + [line_dim]
    rng.shuffle(order)
    return contiguous(da.transpose(*order))


def gen_weight(rng, sizes, ths, bad=False):
    r = rng.random()
    wdims = {d: sizes[d] for d in sizes if rng.random() < 0.4}
    if r < 0.35:       # 0/1 step weight through the public helper
        P = S()
        sp = make_da(rng, wdims, None, None, lambda: gen_obs_value(rng, ths, nan_p=0.05))
        tv = sorted(set(rng.sample(range(ths[0] - 2, ths[-1] + 3), rng.randint(1, 3))))
        w = P.crps_step_threshold_weight(sp, TD, threshold_values=[t / 2.0 for t in tv], steppoints_in_thresholds=rng.random() < 0.7,
                                         weight_upper=rng.random() < 0.5)
        return w, "step01"
    wt = sorted(set(rng.sample(range(ths[0] - 3, ths[-1] + 4), rng.randint(1, 4))))
    if r < 0.5:
        vals = [0.0, 1.0]
        kind = "zero_one"
    else:
        vals = [0.0, 0.25, 0.5, 0.75, 1.0]
        kind = "general"
    nanp = 0.1 if rng.random() < 0.2 else 0.0

    def fill():
        return [NAN if (nanp and rng.random() < nanp) else rng.choice(vals) for _ in wt]
    w = make_da(rng, wdims, TD, [t / 2.0 for t in wt], fill)
    if bad:
        k = rng.random()
        w = w.copy()
        idx = tuple(rng.randrange(s) for s in w.shape)
        w.values[idx] = -0.25 if k < 0.5 else 1.5
        kind = "bad_weight"
    return w, kind


def gen_case(ctx, malformed=False):
    rng = ctx.rng
    ths = gen_thresholds(rng)
    names = ["a", "b", "c"]
    rng.shuffle(names)
    sizes = {d: rng.randint(1, 3) for d in names[:rng.choice([0, 1, 1, 2])]}
    nanp = rng.choice([0.0, 0.0, 0.1, 0.25])
    mono = rng.choice([1.0, 0.7, 0.0])
    nthr = len(ths)
    fc = make_da(rng, sizes, TD, [t / 2.0 for t in ths], lambda: gen_line(rng, nthr, mono, nanp))
    odims = {d: sizes[d] for d in sizes if rng.random() < 0.7}
    obs = make_da(rng, odims, None, None, lambda: gen_obs_value(rng, ths))
    w, wkind = (None, "none")
    bad = None
    if malformed:
        bad = rng.choice(["weight", "fcst_bounds", "nonincreasing", "w_nonincreasing", "method", "wmethod", "integration", "one_threshold"])
    if rng.random() < 0.5 or bad in ("weight", "w_nonincreasing", "wmethod"):
        w, wkind = gen_weight(rng, sizes, ths, bad=(bad == "weight"))
    add = None
    if rng.random() < 0.4:
        add = [rng.randint(2 * ths[0] - 4, 2 * ths[-1] + 4) / 4.0 for _ in range(rng.randint(0, 3))]
        if rng.random() < 0.15:
            add.append(NAN)
    opt = dict(fcst_fill_method=rng.choice(FILLS), threshold_weight_fill_method=rng.choice(FILLS),
               integration_method=rng.choice(["exact", "trapz"]), propagate_nans=rng.random() < 0.6)
    if bad == "fcst_bounds":
        fc = fc.copy()
        idx = tuple(rng.randrange(s) for s in fc.shape)
        fc.values[idx] = rng.choice([-0.125, 1.125])
    elif bad == "nonincreasing":
        c = list(fc[TD].values)
        i = rng.randrange(len(c) - 1)
        c[i + 1] = c[i] if rng.random() < 0.5 else c[i] - 1.0
        fc = fc.assign_coords({TD: c})
    elif bad == "w_nonincreasing" and w is not None and w.sizes[TD] >= 2:
        c = list(w[TD].values)
        c[1] = c[0]
        w = w.assign_coords({TD: c})
    elif bad == "method":
        opt["fcst_fill_method"] = "nearest"
    elif bad == "wmethod":
        opt["threshold_weight_fill_method"] = "cubic"
    elif bad == "integration":
        opt["integration_method"] = "simpson"
    elif bad == "one_threshold":
        fc = fc.isel({TD: slice(0, 1)})
    return dict(fcst=fc, obs=obs, weight=w, add=add, opt=opt, sizes=sizes, wkind=wkind, bad=bad)


# ------------------------------------------------------------------------------------------
# flattening to forecast cases and model calls
# ------------------------------------------------------------------------------------------
def case_labels(sizes):
    dims = sorted(sizes)
    return dims, list(itertools.product(*[range(sizes[d]) for d in dims]))


def line_of(da, dims, labels, td=TD):
    sel = {d: l for d, l in zip(dims, labels) if d in da.dims}
    x = da.sel(sel) if sel else da
    return [float(v) for v in np.asarray(x.values, dtype=float).ravel()]


def enc_cases(c):
    dims, labs = case_labels(c["sizes"])
    out = []
    for lb in labs:
        f = line_of(c["fcst"], dims, lb)
        o = line_of(c["obs"], dims, lb)[0]
        w = enc_nums(line_of(c["weight"], dims, lb)) if c["weight"] is not None else "none"
        out.append(enc_list([enc_nums(f), enc_num(o), w]))
    return dims, labs, enc_list(out)


def model_crps(ctx, c):
    dims, labs, cases = enc_cases(c)
    o = c["opt"]
    arg = enc_list([enc_nums(c["fcst"][TD].values),
                    enc_opt(c["weight"], lambda w: enc_nums(w[TD].values)),
                    cases, enc_nums(c["add"] or []),
                    enc_str(o["fcst_fill_method"]), enc_str(o["threshold_weight_fill_method"]), enc_str(o["integration_method"]),
                    enc_bool(o["propagate_nans"])])
    return dims, labs, ctx.model("c07_crps_cases", arg)


def call_crps(c, include_components=True, **over):
    P = S()
    kw = dict(threshold_dim=TD, threshold_weight=c["weight"], additional_thresholds=c["add"], include_components=include_components, **c["opt"])
    dims = sorted(c["sizes"])
    if dims:
        kw["preserve_dims"] = dims
    kw.update(over)
    return core.call_impl(P.crps_cdf, c["fcst"], c["obs"], **kw)


NAMES = ["total", "underforecast_penalty", "overforecast_penalty"]


def impl_triples(ds, dims, labs, names=NAMES):
    out = []
    for lb in labs:
        sel = dict(zip(dims, lb))
        out.append([float(ds[n].sel(sel).values) if n in ds else None for n in names])
    return out


def describe(c):
    return {"fcst": gens.da_repr(c["fcst"]), "obs": gens.da_repr(c["obs"]), "threshold_weight": gens.da_repr(c["weight"]) if c["weight"] is not None else None,
            "additional_thresholds": c["add"], **c["opt"]}


def triples_close(impl, model):
    return all(x is None or core.close(x, q) for x, q in zip(impl, model))


# ------------------------------------------------------------------------------------------
# checks
# ------------------------------------------------------------------------------------------
def tie_crps(ctx, c, components=True):
    """implementation vs model for one generated call; also value = proved specification (exact) and the component relations"""
    dims, labs, m = model_crps(ctx, c)
    impl = call_crps(c, include_components=components)
    desc = describe(c)
    res, spec, grid = m
    if core.is_err(res) or impl[0] == "err":
        ok = core.is_err(res) and impl[0] == "err" and impl[1] == res
        ctx.case(("crps", desc), nontrivial=ok)
        ctx.count("error_path" if ok else "error_mismatch")
        if not ok:
            ctx.tie_fail("crps_cdf raises/returns differently from the model", desc, str(impl[1])[:200], str(res)[:200])
        return None
    ds = impl[1]
    got = impl_triples(ds, dims, labs)
    mod = [core.dec_nums(t) for t in res]
    finite = any(isinstance(t[0], Fraction) for t in mod)
    ctx.case(("crps", desc), nontrivial=finite)
    for lb, g, q in zip(labs, got, mod):
        if not triples_close(g, q):
            ctx.tie_fail("crps_cdf value differs from the model", {**desc, "case": dict(zip(dims, lb))}, g, [str(x) for x in q])
            return None
    if spec != "none":
        for lb, g, t in zip(labs, got, spec):
            q = core.dec_nums(t)
            if not triples_close(g, q):
                ctx.violation("crps_cdf(exact) differs from the integral of w(x)(F(x)-1{x>=obs})^2 (proved specification value)",
                              {**desc, "case": dict(zip(dims, lb))}, [str(x) for x in q], g)
                return None
    if components:
        for lb, g in zip(labs, got):
            t, u, o = g
            if not (np.isnan(t) and np.isnan(u) and np.isnan(o)):
                if not (abs(u + o - t) <= 1e-9 and u >= -1e-12 and o >= -1e-12):
                    ctx.violation("under + over != total or a negative component", {**desc, "case": dict(zip(dims, lb))}, "u+o=t, u>=0, o>=0", g)
                    return None
    return ds


CORPUS = [
    # the two manifestations of the repaired defect crps-cdf-exact-general-weight (fixed in /repo by 9901e09)
    dict(ths=[0., 1., 2., 3.], f=[0., .25, .5, 1.], obs=1.5, w=[.5, .5, .5, .5], expect=Fraction(5, 32)),
    dict(ths=[0., 1., 2., 3.], f=[.5, .5, .5, .5], obs=0.0, w=[1., 0., 1., 1.], expect=Fraction(1, 2)),
]


def corpus(ctx):
    P = S()
    for k in CORPUS:
        fc = xr.DataArray([k["f"]], dims=["s", TD], coords={"s": [0], TD: k["ths"]})
        ob = xr.DataArray([k["obs"]], dims=["s"], coords={"s": [0]})
        w = xr.DataArray(k["w"], dims=[TD], coords={TD: k["ths"]})
        r = core.call_impl(P.crps_cdf, fc, ob, threshold_dim=TD, threshold_weight=w, preserve_dims=["s"], integration_method="exact")
        got = float(r[1]["total"][0]) if r[0] == "ok" else r[1]
        ctx.case(("corpus", str(k)))
        ctx.count("corpus")
        if r[0] != "ok" or not core.close(got, k["expect"]):
            ctx.violation("crps_cdf(exact) with a weight that is not a 0/1 step (or has an isolated zero) is not the weighted integral",
                          {"thresholds": k["ths"], "fcst": k["f"], "obs": k["obs"], "threshold_weight": k["w"], "integration_method": "exact"},
                          str(k["expect"]), got)


def partition(ctx, c):
    """complementary weights w and 1-w: results add up to the unweighted score over the same threshold grid"""
    P = S()
    if c["weight"] is None or c["bad"]:
        return
    o = dict(c["opt"])
    if o["threshold_weight_fill_method"] == "step":
        o["threshold_weight_fill_method"] = "forward"
    w = c["weight"]
    if bool(np.isnan(w.values).any()) or w.sizes[TD] < 2:
        return
    kw = dict(threshold_dim=TD, include_components=True, **o)
    dims = sorted(c["sizes"])
    if dims:
        kw["preserve_dims"] = dims
    a = core.call_impl(P.crps_cdf, c["fcst"], c["obs"], threshold_weight=w, additional_thresholds=c["add"], **kw)
    b = core.call_impl(P.crps_cdf, c["fcst"], c["obs"], threshold_weight=1 - w, additional_thresholds=c["add"], **kw)
    u = core.call_impl(P.crps_cdf, c["fcst"], c["obs"], additional_thresholds=list(c["add"] or []) + [float(x) for x in w[TD].values], **kw)
    if "err" in (a[0], b[0], u[0]):
        if not (a[0] == b[0] == u[0]):
            ctx.violation("weights partition: one of the three calls raises", describe(c), "all succeed", [a[0], b[0], u[0]])
        return
    ctx.case(("partition", describe(c)))
    ctx.count("partition")
    for n in NAMES:
        s = (a[1][n] + b[1][n])
        s, t = xr.broadcast(s, u[1][n])
        if not np.allclose(s.values, t.values, rtol=0, atol=1e-9, equal_nan=True):
            ctx.violation(f"weights w and 1-w do not add up to the unweighted CRPS on the same grid ({n})", {**describe(c), "opts_used": o},
                          t.values.tolist(), s.values.tolist())
            return


def brier_tie_and_trapz(ctx, c):
    """crps_cdf_brier_decomposition vs model; trapz (total and components) = trapezoid rule over the decomposition"""
    P = S()
    if c["bad"] not in (None, "fcst_bounds", "nonincreasing"):
        return
    dims, labs, cases = enc_cases({**c, "weight": None})
    ffm = c["opt"]["fcst_fill_method"]
    m = ctx.model("c07_brier_cases", enc_list([enc_nums(c["fcst"][TD].values), cases, enc_nums(c["add"] or []), enc_str(ffm)]))
    kw = dict(threshold_dim=TD, additional_thresholds=c["add"], fcst_fill_method=ffm)
    if dims:
        kw["preserve_dims"] = dims
    impl = core.call_impl(P.crps_cdf_brier_decomposition, c["fcst"], c["obs"], **kw)
    desc = {k: v for k, v in describe(c).items() if k in ("fcst", "obs", "additional_thresholds", "fcst_fill_method")}
    desc["fn"] = "crps_cdf_brier_decomposition"
    if core.is_err(m) or impl[0] == "err":
        ok = core.is_err(m) and impl[0] == "err" and impl[1] == m
        ctx.case(("brier", desc), nontrivial=ok)
        if not ok:
            ctx.tie_fail("crps_cdf_brier_decomposition raises/returns differently from the model", desc, str(impl[1])[:200], str(m)[:200])
        return
    ctx.case(("brier", desc))
    ctx.count("brier")
    grid = core.dec_nums(m[0])
    ds = impl[1]
    bn = ["total_penalty", "underforecast_penalty", "overforecast_penalty"]
    if [float(x) for x in ds[TD].values] != [float(g) for g in grid]:
        ctx.tie_fail("brier decomposition threshold grid differs", desc, ds[TD].values.tolist(), [str(g) for g in grid])
        return
    for lb, per_thr in zip(labs, m[1]):
        sel = dict(zip(dims, lb))
        for j, t in enumerate(per_thr):
            q = core.dec_nums(t)
            g = [float(ds[n].sel(sel).isel({TD: j}).values) for n in bn]
            if not triples_close(g, q):
                ctx.tie_fail("brier decomposition value differs from the model", {**desc, "case": sel, "threshold": str(grid[j])}, g, [str(x) for x in q])
                return
    # trapz = trapezoid rule over the decomposition (NaNs propagated, no weight), all three components
    tz = core.call_impl(P.crps_cdf, c["fcst"], c["obs"], threshold_dim=TD, additional_thresholds=c["add"], fcst_fill_method=ffm,
                        integration_method="trapz", include_components=True, propagate_nans=True, **({"preserve_dims": dims} if dims else {}))
    if tz[0] != "ok":
        ctx.violation("crps_cdf(trapz) raises where the Brier decomposition succeeds", desc, "ok", tz[1])
        return
    for lb in labs:
        sel = dict(zip(dims, lb))
        for n, b in zip(NAMES, bn):
            vals = [float(v) for v in ds[b].sel(sel).values]
            want = core.dec_num(ctx.model("c07_trapz", enc_list([enc_nums(grid), enc_nums(vals)])))
            got = float(tz[1][n].sel(sel).values)
            if not core.close(got, want, tol=1e-8):
                ctx.violation(f"crps_cdf(trapz) {n} is not the trapezoid integral of the Brier decomposition", {**desc, "case": sel}, str(want), got)
                return
    ctx.count("trapz_is_trapezoid_of_brier")


def nan_own_case(ctx, c):
    """a NaN ordinate blanks its own forecast case and leaves every other case unchanged (propagate_nans=True)"""
    if c["bad"] or not c["sizes"]:
        return
    dims, labs = case_labels(c["sizes"])
    if len(labs) < 2:
        return
    rng = ctx.rng
    c1 = dict(c, opt=dict(c["opt"], propagate_nans=True))
    base = call_crps(c1)
    lb = rng.choice(labs)
    f2 = c["fcst"].copy()
    sel = dict(zip(dims, lb))
    j = rng.randrange(f2.sizes[TD])
    f2.loc[{**sel, TD: f2[TD].values[j]}] = NAN
    pert = call_crps(dict(c1, fcst=f2))
    if base[0] != "ok" or pert[0] != "ok":
        if base[0] != pert[0]:
            ctx.violation("making one ordinate NaN changes whether crps_cdf raises", describe(c1), base[0], pert[0])
        return
    ctx.case(("nan_own", describe(c1), lb, j))
    ctx.count("nan_own_case")
    for l2 in labs:
        s2 = dict(zip(dims, l2))
        for n in NAMES:
            a = float(base[1][n].sel(s2).values)
            b = float(pert[1][n].sel(s2).values)
            if l2 == lb:
                good = np.isnan(b)
            else:
                good = (np.isnan(a) and np.isnan(b)) or abs(a - b) <= 1e-12
            if not good:
                ctx.violation("a NaN ordinate in one forecast case changes another case / does not blank its own case",
                              {**describe(c1), "nan_at": {**sel, "threshold_index": j}, "looked_at": s2, "component": n}, "nan" if l2 == lb else a, b)
                return


def run(ctx):
    corpus(ctx)
    n = ctx.n(260, 4000)
    for i in range(n):
        if not ctx.time_left():
            ctx.note(f"time budget reached after {i} generated calls")
            break
        malformed = ctx.rng.random() < 0.12
        c = gen_case(ctx, malformed=malformed)
        ctx.count("weight:" + c["wkind"])
        ctx.count("integration:" + c["opt"]["integration_method"])
        ctx.count("fill:" + c["opt"]["fcst_fill_method"])
        if c["bad"]:
            ctx.count("malformed:" + c["bad"])
        comps = ctx.rng.random() < 0.75
        ds = tie_crps(ctx, c, components=comps)
        if i < 3:
            ctx.sample(describe(c))
        r = ctx.rng.random()
        if r < 0.3:
            partition(ctx, c)
        elif r < 0.6:
            brier_tie_and_trapz(ctx, c)
        elif r < 0.8:
            nan_own_case(ctx, c)
