"""C09 -- each contingency-table metric equals its documented formula; aliases and symmetries hold."""
import itertools
import math
from fractions import Fraction

import numpy as np
import xarray as xr

import core
import gens
from core import enc_arr, enc_bool, enc_dimspec, enc_list, enc_num, enc_opt

ID = "C09"
LEVEL = "proof"
LEVEL_TEXT = ("Coq theorems, for ALL natural counts tp, fp, fn, tn, that every metric method of BasicContingencyManager -- regenerated "
              "from the current source text on every run -- equals its documented formula in IEEE-style extended arithmetic (0/0 = NaN, "
              "x/0 = +-inf: zero cells included), that every alias equals its target and that exchanging fp and fn maps POD to the "
              "success ratio and fixes accuracy, threat score, F1, Heidke, ETS, ORSS and the odds ratio (which is proved equal to the "
              "IEEE value of tp*tn/(fp*fn) on every table). Proof is the right level: the claim is universal over tables and the "
              "decisive inputs are zero cells no example test uses; enumeration of small tables only validates translator and value model.")
LEVEL_NOTE = ("trusted: translator (tools/py2gallina.py translate_metric) + Xval division semantics, both validated on every run against the real "
              "BasicContingencyManager on all tables up to the tier bound; natural log is a parameter of the model and is evaluated by the host "
              "(math.log) on the model's exact arguments; binary64 rounding is not modelled (tolerance 1e-9), see known finding hss-reciprocal-rounding")
TECHNIQUE = "Coq proof over translator-regenerated metric formulas + exhaustive small-table correspondence"
METHODS = [
    "accuracy", "base_rate", "forecast_rate", "fraction_correct", "frequency_bias", "bias_score", "hit_rate",
    "probability_of_detection", "true_positive_rate", "false_alarm_ratio", "false_alarm_rate", "probability_of_false_detection",
    "success_ratio", "threat_score", "critical_success_index", "peirce_skill_score", "true_skill_statistic",
    "hanssen_and_kuipers_discriminant", "sensitivity", "specificity", "true_negative_rate", "recall", "precision",
    "positive_predictive_value", "negative_predictive_value", "f1_score", "equitable_threat_score", "gilberts_skill_score",
    "heidke_skill_score", "cohens_kappa", "odds_ratio", "odds_ratio_skill_score", "yules_q", "symmetric_extremal_dependence_index"]
SITES = ["C09.m." + m for m in METHODS] + ["C09.pod", "C09.pofd", "C09.pod_ratio", "C09.pofd_ratio", "C08.maps"]
RULE = ("every table (tp,fp,fn,tn) of naturals with total <= 6 (quick) / <= 12 (thorough) exhaustively, through the real "
        "BasicContingencyManager built from a counts dict of DataArrays, all 34 public metric methods; plus random large tables "
        "(cells up to 2000, zero cells forced with p=0.3) and 1-3 dimensional count arrays whose four members are stored with "
        "different dimension and coordinate order; a case is one (table, method) pair, distinct by its content, non-trivial always "
        "(zero-cell tables are the point); standalone POD/POFD on random binary arrays with NaN, weights and every dims spelling; single tables "
        "held as 0-d count arrays with float64 and with int64 counts (all tables with total <= 2 / <= 3, every single-cell table, the empty "
        "table, random ones); tables produced by the public event route (BinaryContingencyManager / ThresholdEventOperator, then transform) on "
        "constant, equal, all-missing and random 0/1 series, fully reduced (0-d) or with one dimension kept; round 4: those series stored as "
        "bool / uint8-64 / int8-64 / float16-32 (both alike, or independently) in 60% of the event-route cases, the exchanged series, the "
        "stand-alone functions on the same series and the manager object's own scores before / after transform; stand-alone POD / POFD with "
        "weights multiplied by a positive constant from 2^-40 ... 2^40, 1e-12 ... 1e8 (45% of the weighted cases), compactly stored series "
        "(25%), and two-variable Datasets whose NaN positions differ (every third case)")
ASSUMPTIONS = ["natural logarithm (SEDI) is evaluated by the host's math.log on the model's exact rational arguments",
               "binary64 rounding is not modelled: implementation floats are compared with the exact rational value at 1e-9 relative"]
TRUSTED = ["host math.log for SEDI"]

# counters every complete run must have incremented (one per predicate family / input class): core.run_check reports the missing ones
EXPECT_COUNTS = ["exhaustive:zero_cells=", "single-cell:", "random:", "multidim:ndim=", "scalar:float64", "scalar:int64", "counts_dict_key_order=",
                 "event-route:", "event-route:own-table", "event_route:dtype=uint", "event_route:dtype=bool", "event_route:dtype=int", "event_route:both_unsigned",
                 "event_route:object_state_checked", "event_route:swap_checked", "event_route:standalone_checked", "standalone:ok", "standalone_oracle_checked",
                 "standalone_vs_manager", "standalone:scaled_weights", "standalone:weight_scale_invariance_checked", "standalone:compact_storage",
                 "standalone:dataset_checked"]

ALIASES = [("fraction_correct", "accuracy"), ("bias_score", "frequency_bias"), ("hit_rate", "probability_of_detection"),
           ("true_positive_rate", "probability_of_detection"), ("probability_of_false_detection", "false_alarm_rate"),
           ("critical_success_index", "threat_score"), ("true_skill_statistic", "peirce_skill_score"),
           ("hanssen_and_kuipers_discriminant", "peirce_skill_score"), ("sensitivity", "probability_of_detection"),
           ("true_negative_rate", "specificity"), ("recall", "probability_of_detection"), ("precision", "success_ratio"),
           ("positive_predictive_value", "success_ratio"), ("gilberts_skill_score", "equitable_threat_score"),
           ("cohens_kappa", "heidke_skill_score"), ("yules_q", "odds_ratio_skill_score")]
# fcst <-> obs exchanged (fp <-> fn): method on the swapped table == method on the original table
SWAPS = [("probability_of_detection", "success_ratio"), ("success_ratio", "probability_of_detection"), ("accuracy", "accuracy"),
         ("threat_score", "threat_score"), ("f1_score", "f1_score"), ("heidke_skill_score", "heidke_skill_score"),
         ("equitable_threat_score", "equitable_threat_score"), ("odds_ratio", "odds_ratio"),
         ("odds_ratio_skill_score", "odds_ratio_skill_score"), ("base_rate", "forecast_rate")]
HSS_NAMES = ("heidke_skill_score", "cohens_kappa")
NANF = float("nan")


def model_ok(ctx):
    b = getattr(ctx, "build", None) or {}
    return bool(b.get("driver_ok")) and not ({"C08", "C09"} & set(b.get("excluded_models") or []))


KEY_ORDERS = [("tp_count", "tn_count", "fp_count", "fn_count", "total_count"),      # the order _get_counts uses
              ("tp_count", "fp_count", "fn_count", "tn_count", "total_count"),
              ("total_count", "fn_count", "tn_count", "fp_count", "tp_count"),
              ("fn_count", "total_count", "tp_count", "tn_count", "fp_count")]


def manager(tp, fp, fn, tn, dims=("t",), order=0, dtype=float):
    """the real BasicContingencyManager from a counts dict of DataArrays (1-D over the tables, or 0-d: ONE table, with dims=());
    the dict may list its keys in any order; counts are stored as float (what transform() produces) or as integers"""
    from scores.categorical import BasicContingencyManager
    c = {"tp_count": xr.DataArray(np.asarray(tp, dtype=dtype), dims=dims), "tn_count": xr.DataArray(np.asarray(tn, dtype=dtype), dims=dims),
         "fp_count": xr.DataArray(np.asarray(fp, dtype=dtype), dims=dims), "fn_count": xr.DataArray(np.asarray(fn, dtype=dtype), dims=dims)}
    c["total_count"] = c["tp_count"] + c["tn_count"] + c["fp_count"] + c["fn_count"]
    return BasicContingencyManager({k: c[k] for k in KEY_ORDERS[order % len(KEY_ORDERS)]})


# ---- independent oracle: the documented formulas on exact fractions, zero cells giving the IEEE value ----
def ratio(a, b):
    if isinstance(a, float) or isinstance(b, float):          # NaN operand
        return float("nan")
    if b == 0:
        return float("nan") if a == 0 else (float("inf") if a > 0 else float("-inf"))
    return Fraction(a) / Fraction(b)


def fl(v):
    return v if isinstance(v, float) else float(v)


def oracle(name, tp, fp, fn, tn):
    tp, fp, fn, tn = Fraction(tp), Fraction(fp), Fraction(fn), Fraction(tn)
    tot = tp + fp + fn + tn
    pod, pofd = ratio(tp, tp + fn), ratio(fp, tn + fp)
    if name in ("accuracy", "fraction_correct"):
        return ratio(tp + tn, tot)
    if name == "base_rate":
        return ratio(tp + fn, tot)
    if name == "forecast_rate":
        return ratio(tp + fp, tot)
    if name in ("frequency_bias", "bias_score"):
        return ratio(tp + fp, tp + fn)
    if name in ("probability_of_detection", "hit_rate", "true_positive_rate", "sensitivity", "recall"):
        return pod
    if name == "false_alarm_ratio":
        return ratio(fp, tp + fp)
    if name in ("false_alarm_rate", "probability_of_false_detection"):
        return pofd
    if name in ("success_ratio", "precision", "positive_predictive_value"):
        return ratio(tp, tp + fp)
    if name in ("threat_score", "critical_success_index"):
        return ratio(tp, tp + fp + fn)
    if name in ("peirce_skill_score", "true_skill_statistic", "hanssen_and_kuipers_discriminant"):
        return float("nan") if isinstance(pod, float) or isinstance(pofd, float) else pod - pofd
    if name in ("specificity", "true_negative_rate"):
        return ratio(tn, tn + fp)
    if name == "negative_predictive_value":
        return ratio(tn, tn + fn)
    if name == "f1_score":
        return ratio(2 * tp, 2 * tp + fp + fn)
    if name in ("equitable_threat_score", "gilberts_skill_score"):
        if tot == 0:
            return float("nan")
        hr = (tp + fn) * (tp + fp) / tot
        return ratio(tp - hr, tp + fn + fp - hr)
    if name in ("heidke_skill_score", "cohens_kappa"):
        if tot == 0:
            return float("nan")
        e = ((tp + fn) * (tp + fp) + (tn + fn) * (tn + fp)) / tot
        return ratio(tp + tn - e, tot - e)
    if name == "odds_ratio":
        return ratio(tp * tn, fp * fn)
    if name in ("odds_ratio_skill_score", "yules_q"):
        return ratio(tp * tn - fn * fp, tp * tn + fn * fp)
    if name == "symmetric_extremal_dependence_index":
        with np.errstate(all="ignore"):
            a, b = np.float64(fl(pofd)), np.float64(fl(pod))
            la, lb, lc, ld = np.log(a), np.log(b), np.log(1 - b), np.log(1 - a)
            return float((la - lb + lc - ld) / (la + lb + lc + ld))
    raise KeyError(name)


def call_all(mgr):
    """every metric method -> flat float list (or 'err:..')"""
    out = {}
    for m in METHODS:
        with np.errstate(all="ignore"):
            st, v = core.call_impl(getattr(mgr, m))
        out[m] = v if st == "err" else v
    return out


def same_float(a, b):
    a, b = float(a), float(b)
    return (math.isnan(a) and math.isnan(b)) or a == b


def host_log(q):
    """numpy's log on the model's exact argument"""
    if isinstance(q, float):
        if math.isnan(q):
            return q
        return q if q > 0 else float("nan")      # log(+inf) = inf, log(-inf) = nan
    if q == 0:
        return -math.inf
    if q < 0:
        return float("nan")
    return math.log(q)


def sedi_model(ctx, t):
    """(regenerated SEDI, specification SEDI) with the host's logarithm"""
    tab = enc_list([enc_num(x) for x in t])
    args = core.dec_nums(ctx.model("c09_sedi_args", tab))
    tbl = enc_list([enc_list([enc_num(a), enc_num(host_log(a))]) for a in args])
    return core.dec_nums(ctx.model("c09_sedi", enc_list([tab, tbl])))


def is_single_diagonal_cell(t):
    tp, fp, fn, tn = t
    return fp == 0 and fn == 0 and (tp == 0) != (tn == 0)


def check_tables(ctx, tables, impl, label, sedi_budget=None, use_model=True, extra=None):
    """tables: list of (tp,fp,fn,tn) ints; impl: {method: flat list of floats aligned with tables}"""
    res = ctx.model("c09_metrics", enc_list([enc_list([enc_num(x) for x in t]) for t in tables])) if use_model else [None] * len(tables)
    for i, (t, r) in enumerate(zip(tables, res)):
        gen = spec = None
        if use_model:
            gen = {core.dec_str(p[0]): core.dec_num(p[1]) for p in r[0]}
            spec = {core.dec_str(p[0]): core.dec_num(p[1]) for p in r[1]}
            if set(gen) != set(METHODS):
                ctx.tie_fail("method table of the model differs from the harness", {"missing": sorted(set(METHODS) ^ set(gen))}, None, None)
                return
            if sedi_budget is None or i < sedi_budget:
                gen["symmetric_extremal_dependence_index"], spec["symmetric_extremal_dependence_index"] = sedi_model(ctx, t)
            else:
                gen.pop("symmetric_extremal_dependence_index")
        for m in METHODS:
            x = impl[m][i]
            exp = oracle(m, *t)
            case = {"table": {"tp": t[0], "fp": t[1], "fn": t[2], "tn": t[3]}, "method": m, "via": label}
            if extra:
                case.update(extra)     # the inputs the table was produced from, so that the case is replayable from them
            ctx.case((t, m))
            if isinstance(x, str):
                ctx.violation("metric method raises on a table (zero cells must give the IEEE value, never an exception)", case, exp, x)
                continue
            if not core.close(x, exp):
                ctx.violation(f"{m} differs from its documented formula", case, exp, x)
            if use_model and m in gen:
                if not core.close(x, gen[m]):
                    ctx.tie_fail(f"gen_metric_{m} vs BasicContingencyManager.{m}", case, x, gen[m])
                if not core.close(fl(exp), spec[m]):
                    ctx.tie_fail(f"proved specification of {m} vs the harness oracle", case, exp, spec[m])
        zero = sum(1 for v in t if v == 0)
        ctx.count(f"{label}:zero_cells={zero}")


def flat(v, dims=None):
    if isinstance(v, str):
        return None
    if dims:
        v = v.transpose(*dims)
    return [float(z) for z in np.asarray(v.values, dtype=float).ravel()]


def run_tables(ctx, tables, label, sedi_budget=None, use_model=True):
    order = ctx.rng.randrange(len(KEY_ORDERS))
    ctx.count(f"counts_dict_key_order={order}")
    mgr = manager(*[[t[k] for t in tables] for k in range(4)], order=order)
    # a second manager is alive and queried in between: the methods must not share state across instances
    sw = manager(*[[t[k] for t in tables] for k in (0, 2, 1, 3)], order=ctx.rng.randrange(len(KEY_ORDERS)))
    impl, simpl = {}, {}
    for m in METHODS:
        with np.errstate(all="ignore"):
            for mg, out in ((mgr, impl), (sw, simpl)):
                st, v = core.call_impl(getattr(mg, m))
                f = None if st == "err" else flat(v)
                out[m] = f if f is not None else [v] * len(tables)
    check_tables(ctx, tables, impl, label, sedi_budget, use_model)
    # aliases return identical values (bitwise, NaN == NaN)
    for a, b in ALIASES:
        for i, t in enumerate(tables):
            if not (isinstance(impl[a][i], str) or same_float(impl[a][i], impl[b][i])):
                ctx.violation(f"alias {a} differs from {b}", {"table": t}, impl[b][i], impl[a][i])
    # swap symmetries on the implementation
    for a, b in SWAPS:
        for i, t in enumerate(tables):
            x, y = simpl[a][i], impl[b][i]
            if isinstance(x, str) or isinstance(y, str):
                continue
            ok = (math.isnan(x) and math.isnan(y)) or (math.isinf(x) and x == y) or \
                (math.isfinite(x) and math.isfinite(y) and abs(x - y) <= 1e-9 * max(1.0, abs(y)))
            if not ok and a in HSS_NAMES and is_single_diagonal_cell(t):
                continue
            ctx.case(("swap", t, a))
            if not ok:
                ctx.violation(f"exchanging forecast and observation: {a} of the swapped table differs from {b}",
                              {"table": {"tp": t[0], "fp": t[1], "fn": t[2], "tn": t[3]}}, y, x)


def all_tables(bound):
    out = []
    for tot in range(bound + 1):
        for tp in range(tot + 1):
            for fp in range(tot + 1 - tp):
                for fn in range(tot + 1 - tp - fp):
                    out.append((tp, fp, fn, tot - tp - fp - fn))
    return out


def rand_table(rng, hi):
    t = [rng.randint(1, hi) if rng.random() < 0.7 else 0 for _ in range(4)]
    if rng.random() < 0.2:
        k = rng.choice([2, 5, 10, 50])
        t = [min(v, k) for v in t]
    return tuple(t)


def multi_dim(ctx, use_model=True):
    """count arrays of 1-3 dims whose four members are stored in different dim / coordinate order"""
    from scores.categorical import BasicContingencyManager
    rng = ctx.rng
    sizes = gens.rand_sizes(rng, maxsize=3)
    dims = sorted(sizes)
    arrs = {}
    for k in ("tp", "fp", "fn", "tn"):
        arrs[k] = gens.rand_da(rng, sizes, values=[0, 0, 0, 1, 2, 3, 5, 8, 13, 40])
    c = {k + "_count": v for k, v in arrs.items()}
    c["total_count"] = c["tp_count"] + c["tn_count"] + c["fp_count"] + c["fn_count"]
    mgr = BasicContingencyManager({k: c[k] for k in KEY_ORDERS[rng.randrange(len(KEY_ORDERS))]})
    canon = {k: v.transpose(*dims).sortby(dims) for k, v in arrs.items()}
    tables = [tuple(int(canon[k].values.ravel()[i]) for k in ("tp", "fp", "fn", "tn")) for i in range(int(np.prod([sizes[d] for d in dims])))]
    impl = {}
    for m, v in call_all(mgr).items():
        if isinstance(v, str):
            impl[m] = [v] * len(tables)
        else:
            impl[m] = flat(v.sortby(dims), dims)
    check_tables(ctx, tables, impl, "multidim", sedi_budget=4, use_model=use_model)
    ctx.count(f"multidim:ndim={len(dims)}")


SINGLE_CELL = [(0, 0, 0, 49), (49, 0, 0, 0), (0, 0, 0, 48), (7, 0, 0, 0), (0, 0, 0, 0), (0, 6, 0, 0), (0, 0, 6, 0), (3, 0, 0, 4), (0, 3, 0, 5),
               (5, 3, 0, 10), (5, 0, 2, 10), (28, 72, 23, 2680)]


def scalar_tables(ctx, use_model=True):
    """ONE table held as 0-d count arrays -- the fully reduced table, i.e. what transform() returns by default -- with float and
    with integer counts: every method = documented formula (zero cells: the IEEE value, never an exception), and the single-table
    manager agrees bitwise with a multi-table manager holding the same table"""
    rng = ctx.rng
    tables = all_tables(3 if ctx.tier == "thorough" or ctx.scale > 1 else 2) + SINGLE_CELL + [rand_table(rng, 60) for _ in range(ctx.n(6, 40))]
    for dtype in ("float64", "int64"):
        nd = manager(*[[t[k] for t in tables] for k in range(4)], dtype=dtype)
        with np.errstate(all="ignore"):
            nd_vals = {m: (None if isinstance(v, str) else flat(v)) for m, v in call_all(nd).items()}
        for i, t in enumerate(tables):
            if not ctx.time_left():
                return
            mgr = manager(*t, dims=(), order=rng.randrange(len(KEY_ORDERS)), dtype=dtype)
            impl = {}
            for m, v in call_all(mgr).items():
                impl[m] = [v if isinstance(v, str) else float(v)]
                case = {"table": {"tp": t[0], "fp": t[1], "fn": t[2], "tn": t[3]}, "method": m, "via": "0-d counts, " + dtype}
                if not isinstance(v, str) and v.ndim != 0:
                    ctx.violation("metric of a single (0-d) table is not 0-d", case, (), v.dims)
                if not isinstance(v, str) and nd_vals[m] is not None and not same_float(impl[m][0], nd_vals[m][i]):
                    ctx.violation(f"{m}: the single-table (0-d) manager and a multi-table manager disagree on the same table", case, nd_vals[m][i], impl[m][0])
            check_tables(ctx, [t], impl, "scalar:" + dtype, sedi_budget=1 if i % 4 == 0 else 0, use_model=use_model)


def event_route(ctx, use_model=True):
    """tables produced by the public event route -- BinaryContingencyManager(fcst, obs).transform(...), directly or through
    ThresholdEventOperator -- fully reduced (0-d counts) or with one dimension kept, on series that include the degenerate ones:
    event never observed and never forecast, always both, nothing valid.  All 34 methods against the oracle on directly counted tables."""
    from scores.categorical import BinaryContingencyManager, ThresholdEventOperator
    rng = ctx.rng
    sizes = gens.rand_sizes(rng, maxsize=4, maxdims=2)
    pat = rng.choice(["zeros", "ones", "equal", "random", "random", "allnan", "fcst0", "obs0", "fcst1", "obs1"])
    nan_p = 0.2 if rng.random() < 0.4 else 0.0
    fcst = gens.rand_da(rng, sizes, values=[0.0, 1.0], nan_p=nan_p)
    obs = gens.rand_da(rng, sizes, values=[0.0, 1.0], nan_p=nan_p)
    if pat in ("zeros", "fcst0"):
        fcst = fcst * 0
    if pat in ("zeros", "obs0"):
        obs = obs * 0
    if pat in ("ones", "fcst1"):
        fcst = fcst * 0 + 1
    if pat in ("ones", "obs1"):
        obs = obs * 0 + 1
    if pat == "equal":
        obs = fcst.copy()
    if pat == "allnan":
        fcst = fcst * NANF
    # binary event tables are often stored compactly: bool / unsigned 8-bit masks / narrow integers (fcst and obs independently, so
    # mixed storage too); the classification only compares the values with 0 and 1, so the storage type must not matter
    storage = rng.choice(["float64", "float64", "same", "same", "independent"])
    common = rng.choice(EVENT_DTYPES)
    for which in ("fcst", "obs"):
        arr = fcst if which == "fcst" else obs
        if storage != "float64" and not bool(np.isnan(arr.values).any()):
            arr = arr.astype(common if storage == "same" else rng.choice(EVENT_DTYPES))
            fcst, obs = (arr, obs) if which == "fcst" else (fcst, arr)
        ctx.count("event_route:dtype=" + str(arr.dtype))
    if fcst.dtype.kind == "u" and obs.dtype.kind == "u":
        ctx.count("event_route:both_unsigned")
    keep = rng.choice(sorted(sizes)) if rng.random() < 0.35 else None
    via = "ThresholdEventOperator" if rng.random() < 0.3 else "BinaryContingencyManager"
    desc = {"fn": via + "(...).transform", "fcst": gens.da_repr(fcst), "obs": gens.da_repr(obs), "preserve_dims": keep, "pattern": pat,
            "fcst_dtype": str(fcst.dtype), "obs_dtype": str(obs.dtype)}

    def build(a, b):
        if via == "ThresholdEventOperator":
            return core.call_impl(lambda: ThresholdEventOperator().make_contingency_manager(a, b, event_threshold=0.5))
        return core.call_impl(lambda: BinaryContingencyManager(a, b))
    st, mgr = build(fcst, obs)
    own = own_before = None
    if st == "ok":
        own = mgr
        with np.errstate(all="ignore"):
            own_before = call_all(own)        # the scores of the manager object itself, before anything else is called on it
        st, mgr = core.call_impl(lambda: mgr.transform(preserve_dims=keep) if keep else mgr.transform())
    ctx.count("event_route:" + pat + (":kept" if keep else ":0-d"))
    if st != "ok":
        ctx.violation("the event route raises on binary series", desc, "a table", mgr)
        return
    f, o = xr.broadcast(fcst, obs)
    o = o.transpose(*f.dims)
    tables = []
    for lab in (sorted(int(x) for x in f[keep].values) if keep else [None]):
        fv = np.asarray((f.sel({keep: lab}) if keep else f).values, float).ravel()
        ov = np.asarray((o.sel({keep: lab}) if keep else o).values, float).ravel()
        ok = ~np.isnan(fv) & ~np.isnan(ov)
        tables.append((int((ok & (fv == 1) & (ov == 1)).sum()), int((ok & (fv == 1) & (ov == 0)).sum()),
                       int((ok & (fv == 0) & (ov == 1)).sum()), int((ok & (fv == 0) & (ov == 0)).sum())))
    impl = {}
    with np.errstate(all="ignore"):
        for m, v in call_all(mgr).items():
            if isinstance(v, str):
                impl[m] = [v] * len(tables)
            elif set(v.dims) != ({keep} if keep else set()):
                ctx.violation(f"{m} through the event route keeps the wrong dimensions", desc, [keep] if keep else [], list(v.dims))
                return
            else:
                impl[m] = flat(v.sortby(keep) if keep else v)
    check_tables(ctx, tables, impl, "event-route", sedi_budget=1, use_model=use_model, extra={"produced_from": desc})
    for m in METHODS:      # make the failing input replayable from the series, not only from the table
        if any(isinstance(x, str) for x in impl[m]):
            ctx.violation(f"{m} raises on a table produced by the event route", desc, "IEEE value", impl[m][0])
            break
    # a failing input of the event route must be replayable from the series: restate the three cheapest relations on the series themselves
    for m in ("probability_of_detection", "accuracy", "threat_score", "negative_predictive_value"):
        for i, t in enumerate(tables):
            exp = oracle(m, *t)
            if not isinstance(impl[m][i], str) and not core.close(impl[m][i], exp):
                ctx.violation(f"{m} of the table produced from these event series differs from its documented formula on the directly counted table",
                              dict(desc, table={"tp": t[0], "fp": t[1], "fn": t[2], "tn": t[3]}), exp, impl[m][i])
                return
    # object state: the manager the view was derived from still scores its own, fully reduced table -- before and after transform()
    pooled = tuple(int(sum(t[k] for t in tables)) for k in range(4))
    with np.errstate(all="ignore"):
        own_after = call_all(own)
    for m in METHODS:
        b, a = own_before[m], own_after[m]
        if isinstance(b, str) or isinstance(a, str):
            ctx.violation(f"{m} raises on the manager object itself", desc, "IEEE value", b if isinstance(b, str) else a)
            return
        if b.ndim != 0 or a.ndim != 0 or not same_float(b, a):
            ctx.violation(f"{m} of the manager object itself changes when transform() is called on it (before / after)", desc,
                          {"dims": list(b.dims), "values": np.asarray(b.values, float).tolist()}, {"dims": list(a.dims), "values": np.asarray(a.values, float).tolist()})
            return
    check_tables(ctx, [pooled], {m: [float(own_before[m])] for m in METHODS}, "event-route:own-table", sedi_budget=0, use_model=use_model,
                 extra={"produced_from": desc})
    ctx.count("event_route:object_state_checked")
    # exchanging forecast and observation series: POD <-> success ratio, accuracy / threat score / F1 / Heidke / ETS / odds ratio unchanged
    st, sw = build(obs, fcst)
    if st == "ok":
        st, sw = core.call_impl(lambda: sw.transform(preserve_dims=keep) if keep else sw.transform())
    if st != "ok":
        ctx.violation("the event route raises when forecast and observation are exchanged", desc, "a table", sw)
        return
    with np.errstate(all="ignore"):
        for a, b in SWAPS:
            sa, x = core.call_impl(getattr(sw, a))
            if sa != "ok":
                continue
            x = flat(x.sortby(keep) if keep else x)
            for i, t in enumerate(tables):
                y = impl[b][i]
                if isinstance(y, str) or (a in HSS_NAMES and is_single_diagonal_cell(t)):
                    continue
                ok = (math.isnan(x[i]) and math.isnan(y)) or (math.isinf(x[i]) and x[i] == y) or \
                    (math.isfinite(x[i]) and math.isfinite(y) and abs(x[i] - y) <= 1e-9 * max(1.0, abs(y)))
                if not ok:
                    ctx.violation(f"exchanging the forecast and observation series: {a} of the swapped manager differs from {b}",
                                  dict(desc, table={"tp": t[0], "fp": t[1], "fn": t[2], "tn": t[3]}), y, x[i])
                    return
    ctx.count("event_route:swap_checked")
    # the stand-alone POD / POFD on the same series agree with the table
    import scores.categorical as C
    kw = {"preserve_dims": keep} if keep else {}
    with np.errstate(all="ignore"):
        for name, fn in (("probability_of_detection", C.probability_of_detection), ("probability_of_false_detection", C.probability_of_false_detection)):
            sa, v = core.call_impl(fn, fcst, obs, **kw)
            if sa != "ok":
                ctx.violation(f"stand-alone {name} raises on binary series", desc, "a value", v)
                return
            v = flat(v.sortby(keep) if keep else v)
            if not all(isinstance(y, str) or same_float(x, y) or abs(x - y) <= 1e-12 for x, y in zip(v, impl[name])):
                ctx.violation(f"stand-alone {name} disagrees with the contingency manager on the same binary series", desc, impl[name], v)
                return
    ctx.count("event_route:standalone_checked")


EVENT_DTYPES = ["bool", "uint8", "uint8", "uint16", "uint32", "uint64", "int8", "int16", "int32", "int64", "float32", "float16"]
# positive constant factors of the weights: powers of two (exact in binary64) from 2^-40 to 2^40, and decimal ones
WEIGHT_SCALES = [2.0 ** k for k in (-40, -34, -30, -27, -20, -10, -1, 1, 10, 20, 30, 40)] + [1e-10, 1e-12, 1e-9, 3e-9, 1e-6, 1e8, 7.0]


def expected_keep(all_dims, rd, pd):
    """dimensions a valid reduce_dims / preserve_dims request keeps (the documented rule, restated independently)"""
    if pd is not None:
        return set(all_dims) if pd == "all" else ({pd} if isinstance(pd, str) else set(pd))
    if rd is None or rd == "all":
        return set()
    return set(all_dims) - ({rd} if isinstance(rd, str) else set(rd))


def rand_binary_case(ctx):
    rng = ctx.rng
    sizes = gens.rand_sizes(rng)
    vals = [0.0, 1.0]
    bad = rng.random() < 0.08
    fdims = gens.sub_dims(rng, sizes, p_drop=0.2, keep_at_least=1)      # obs may carry a dimension the forecast lacks, and vice versa
    fcst = gens.rand_da(rng, sizes, dims=fdims, values=vals + ([2.0, 0.5] if bad and rng.random() < 0.5 else []), nan_p=0.15 if rng.random() < 0.5 else 0.0)
    odims = gens.sub_dims(rng, sizes, p_drop=0.2)
    obs = gens.rand_da(rng, sizes, dims=odims, values=vals + ([-1.0, 0.25] if bad else []), nan_p=0.15 if rng.random() < 0.5 else 0.0)
    w = None
    if rng.random() < 0.5:
        wd = gens.sub_dims(rng, sizes, p_drop=0.4)
        w = gens.rand_da(rng, sizes, dims=wd, lo=0, hi=3, nan_p=0.1 if rng.random() < 0.3 else 0.0)
        # ratio scores do not depend on the magnitude of the weights: any positive constant factor (2^-40 ... 2^40, 1e-10, ...) is legitimate
        if rng.random() < 0.45:
            w = w * rng.choice(WEIGHT_SCALES)
            ctx.count("standalone:scaled_weights")
    # compact storage of the binary series (no NaN to hold): the functions only compare with 0 and 1
    if not bad:
        for which in ("fcst", "obs"):
            arr = fcst if which == "fcst" else obs
            if rng.random() < 0.25 and not bool(np.isnan(arr.values).any()):
                arr = arr.astype(rng.choice(EVENT_DTYPES))
                fcst, obs = (arr, obs) if which == "fcst" else (fcst, arr)
                ctx.count("standalone:compact_storage")
    rd, pd = gens.rand_dimspec(rng, sorted(set(fcst.dims) | set(obs.dims)), allow_bad=True)
    return fcst, obs, w, rd, pd, (rng.random() < 0.85)


def standalone_oracle(fcst, obs, w, keep):
    """independent oracle of the standalone POD / POFD: weighted counts of the valid pairs by their 0/1 pattern, IEEE quotient"""
    arrs = xr.broadcast(*([fcst, obs] + ([w] if w is not None else [])))
    f = arrs[0]
    fv = np.asarray(f.values, float)
    ov = np.asarray(arrs[1].transpose(*f.dims).values, float)
    wv = np.asarray(arrs[2].transpose(*f.dims).values, float) if w is not None else np.ones_like(fv)
    valid = ~np.isnan(fv) & ~np.isnan(ov) & ~np.isnan(wv)
    axes = tuple(k for k, d in enumerate(f.dims) if d not in keep)
    kept = [d for d in f.dims if d in keep]

    def wsum(mask):
        return np.where(valid & mask, wv, 0.0).sum(axis=axes)
    with np.errstate(all="ignore"):
        h, m = wsum((ov == 1) & (fv == 1)), wsum((ov == 1) & (fv == 0))
        fa, cn = wsum((ov == 0) & (fv == 1)), wsum((ov == 0) & (fv == 0))
        pod, pofd = h / (h + m), fa / (fa + cn)
    mk = lambda v: xr.DataArray(v, dims=kept, coords={d: f[d] for d in kept})     # noqa: E731
    return mk(pod), mk(pofd)


def same_da(a, b):
    """same dims (as sets), same labels, same values up to 1e-12"""
    if set(a.dims) != set(b.dims):
        return False
    if a.dims:
        b = b.sel({d: a[d] for d in a.dims}).transpose(*a.dims)
    return bool(np.allclose(np.asarray(a.values, float), np.asarray(b.values, float), rtol=1e-12, atol=0, equal_nan=True))


def standalone(ctx, i, use_model=True):
    import scores.categorical as C
    fcst, obs, w, rd, pd, ca = rand_binary_case(ctx)
    kw = {"check_args": ca}
    if rd is not None:
        kw["reduce_dims"] = rd
    if pd is not None:
        kw["preserve_dims"] = pd
    if w is not None:
        kw["weights"] = w
    with np.errstate(all="ignore"):
        ipod = core.call_impl(C.probability_of_detection, fcst, obs, **kw)
        ipofd = core.call_impl(C.probability_of_false_detection, fcst, obs, **kw)
    m = ctx.model("c09_binary_pod_pofd", enc_list([enc_arr(fcst), enc_arr(obs), enc_dimspec(rd), enc_dimspec(pd), enc_opt(w, enc_arr), enc_bool(ca)])) \
        if use_model else None
    desc = {"fn": "probability_of_detection/false_detection", "fcst": gens.da_repr(fcst), "obs": gens.da_repr(obs), "reduce_dims": rd,
            "preserve_dims": pd, "weights": gens.da_repr(w), "check_args": ca, "fcst_dtype": str(fcst.dtype), "obs_dtype": str(obs.dtype)}
    ctx.case(desc, ipod[0] == "ok")
    ctx.count("standalone:" + ("ok" if ipod[0] == "ok" else ipod[1]))
    if i < 1:
        ctx.sample(desc)
    for k, (name, impl) in enumerate((("probability_of_detection", ipod), ("probability_of_false_detection", ipofd))):
        if not use_model:
            break
        ok, why = core.compare_result(impl, m[k])
        if not ok:
            ctx.tie_fail(f"standalone {name} vs model: {why}", desc, str(impl[1])[:300], str(m[k])[:300])
    # POD and POFD resolve the same request to the same dimensions, and both equal the weighted-count oracle
    if (ipod[0] == "ok") != (ipofd[0] == "ok"):
        ctx.violation("probability_of_detection and probability_of_false_detection disagree on whether the request is valid", desc,
                      str(ipofd[1])[:100], str(ipod[1])[:100])
    if ipod[0] == "ok" and ipofd[0] == "ok":
        if set(ipod[1].dims) != set(ipofd[1].dims):
            ctx.violation("probability_of_detection and probability_of_false_detection keep different dimensions for the same request", desc,
                          list(ipofd[1].dims), list(ipod[1].dims))
        binary_in = bool(np.isin(fcst.values[~np.isnan(fcst.values)], [0, 1]).all() and np.isin(obs.values[~np.isnan(obs.values)], [0, 1]).all())
        wd_ok = w is None or set(w.dims) <= (set(fcst.dims) | set(obs.dims))
        if binary_in and wd_ok:
            all_dims = set(fcst.dims) | set(obs.dims)
            exp_keep = expected_keep(all_dims, rd, pd)
            epod, epofd = standalone_oracle(fcst, obs, w, exp_keep)
            for name, got, exp in (("probability_of_detection", ipod[1], epod), ("probability_of_false_detection", ipofd[1], epofd)):
                if not same_da(exp, got):
                    ctx.violation(f"standalone {name} differs from the weighted fraction over the requested reduction", desc,
                                  {"dims": list(exp.dims), "values": np.asarray(exp.values).tolist()},
                                  {"dims": list(got.dims), "values": np.asarray(got.values).tolist()})
            ctx.count("standalone_oracle_checked")
    # a positive constant factor of the weights cancels: powers of two leave the result bitwise unchanged, other factors up to rounding
    if w is not None and ipod[0] == "ok" and ipofd[0] == "ok":
        c = ctx.rng.choice(WEIGHT_SCALES)
        with np.errstate(all="ignore"):
            spod = core.call_impl(C.probability_of_detection, fcst, obs, **dict(kw, weights=w * c))
            spofd = core.call_impl(C.probability_of_false_detection, fcst, obs, **dict(kw, weights=w * c))
        exact = math.frexp(c)[0] == 0.5
        for name, a, b in (("probability_of_detection", ipod, spod), ("probability_of_false_detection", ipofd, spofd)):
            good = b[0] == "ok" and set(a[1].dims) == set(b[1].dims)
            if good:
                x, y = np.asarray(a[1].values, float), np.asarray(b[1].transpose(*a[1].dims).values, float)
                good = bool(np.array_equal(x, y, equal_nan=True)) if exact else bool(np.allclose(x, y, rtol=1e-12, atol=0, equal_nan=True))
            if not good:
                ctx.violation(f"standalone {name} changes when all weights are multiplied by the positive constant {c!r}", desc,
                              np.asarray(a[1].values, float).tolist(), np.asarray(b[1].values, float).tolist() if b[0] == "ok" else b[1])
        ctx.count("standalone:weight_scale_invariance_checked")
    # Dataset inputs with several variables whose NaN positions differ: every variable scores as it does alone
    if i % 3 == 0 and ipod[0] == "ok" and ipofd[0] == "ok" and fcst.dtype.kind == "f" and obs.dtype.kind == "f":
        rng = ctx.rng
        f2 = fcst.where(xr.DataArray(np.array([rng.random() < 0.75 for _ in range(fcst.size)]).reshape(fcst.shape), dims=fcst.dims, coords=fcst.coords))
        o2 = (1 - obs).where(xr.DataArray(np.array([rng.random() < 0.75 for _ in range(obs.size)]).reshape(obs.shape), dims=obs.dims, coords=obs.coords))
        fds, ods = xr.Dataset({"u": fcst, "v": f2}), xr.Dataset({"u": obs, "v": o2})
        with np.errstate(all="ignore"):
            for name, fn, first in (("probability_of_detection", C.probability_of_detection, ipod), ("probability_of_false_detection", C.probability_of_false_detection, ipofd)):
                sd, dres = core.call_impl(fn, fds, ods, **kw)
                s2, second = core.call_impl(fn, f2, o2, **kw)
                if sd != "ok" or s2 != "ok":
                    ctx.violation(f"standalone {name} raises on a two-variable Dataset / on its second variable although the first variable alone is accepted",
                                  dict(desc, second_variable={"fcst": gens.da_repr(f2), "obs": gens.da_repr(o2)}), "values", dres if sd != "ok" else second)
                    continue
                for var, alone in (("u", first[1]), ("v", second)):
                    if var not in dres or not same_da(alone, dres[var]):
                        ctx.violation(f"standalone {name}: variable '{var}' of a two-variable Dataset does not score as it does alone (as a DataArray)",
                                      dict(desc, second_variable={"fcst": gens.da_repr(f2), "obs": gens.da_repr(o2)}),
                                      np.asarray(alone.values, float).tolist(), np.asarray(dres[var].values, float).tolist() if var in dres else None)
        ctx.count("standalone:dataset_checked")
    # agreement with the contingency manager on binary inputs (unweighted, valid dims request)
    if w is None and ipod[0] == "ok" and ca:
        from scores.categorical import BinaryContingencyManager
        bkw = {k: v for k, v in kw.items() if k in ("reduce_dims", "preserve_dims")}
        fb, ob = xr.broadcast(fcst, obs)
        st, basic = core.call_impl(lambda: BinaryContingencyManager(fcst, obs).transform(**bkw))
        if st == "ok":
            with np.errstate(all="ignore"):
                for name, impl in (("probability_of_detection", ipod), ("probability_of_false_detection", ipofd)):
                    mv = getattr(basic, name)()
                    a, b = impl[1], mv
                    if not same_da(a, b):
                        ctx.violation(f"standalone {name} disagrees with the contingency manager on binary inputs", desc,
                                      np.asarray(b.values).tolist(), np.asarray(a.values).tolist())
            ctx.count("standalone_vs_manager")


def body(ctx, use_model):
    rng = ctx.rng
    bound = 12 if ctx.tier == "thorough" else 6
    if ctx.scale > 1:
        bound += 2
    tables = all_tables(bound)
    ctx.note(f"exhaustive: all {len(tables)} tables with total <= {bound}")
    for k in range(0, len(tables), 400):
        run_tables(ctx, tables[k:k + 400], "exhaustive", use_model=use_model)
    ctx.exhaustive = True
    ctx.sample({"table": {"tp": 0, "fp": 0, "fn": 0, "tn": 3}, "note": "zero-cell table, all 34 methods compared"})
    run_tables(ctx, [(0, 0, 0, 49), (49, 0, 0, 0), (0, 0, 0, 48), (7, 0, 0, 0), (5, 3, 0, 10), (5, 0, 2, 10), (4, 0, 0, 7)], "single-cell", use_model=use_model)
    big = [rand_table(rng, 2000) for _ in range(ctx.n(300, 4000))]
    for k in range(0, len(big), 400):
        run_tables(ctx, big[k:k + 400], "random", sedi_budget=ctx.n(60, 400), use_model=use_model)
    ctx.sample({"table": dict(zip(("tp", "fp", "fn", "tn"), big[0]))})
    for _ in range(ctx.n(25, 300)):
        if not ctx.time_left():
            break
        multi_dim(ctx, use_model)
    scalar_tables(ctx, use_model)
    for _ in range(ctx.n(70, 700)):
        if not ctx.time_left():
            break
        event_route(ctx, use_model)
    for i in range(ctx.n(150, 1500)):
        if not ctx.time_left():
            break
        standalone(ctx, i, use_model)


def run(ctx):
    body(ctx, model_ok(ctx))


def run_without_model(ctx):
    """implementation against the exact-fraction oracle of the documented formulas and against itself (aliases, swaps, standalone vs manager)"""
    body(ctx, False)
