"""scorelib.py -- registry binding public score functions to model entries (adapters), used by the
generic properties C01-C04 and by C05.  Each entry knows how to generate its extra parameters, how to call
the implementation, how to encode the call for the model and how to compare the two results."""
import math
from fractions import Fraction

import numpy as np
import xarray as xr

import core
import gens
from core import enc_arr, enc_bool, enc_dimspec, enc_list, enc_num, enc_opt


def S():
    import scores
    return scores


def kw_dims(rd, pd, w=None):
    kw = {}
    if rd is not None:
        kw["reduce_dims"] = rd
    if pd is not None:
        kw["preserve_dims"] = pd
    if w is not None:
        kw["weights"] = w
    return kw


class Fn:
    """a public function with fcst/obs style inputs"""
    weights = True          # accepts weights=
    datasets = None         # names of Dataset variables returned (None: DataArray)
    three = False           # (lower, upper, obs) inputs
    kind = "mean"           # mean | ratio | moments
    angular = False

    def __init__(self, name, entry=None, **kw):
        self.name = name
        self.entry = entry or name
        self.__dict__.update(kw)

    # ---- to be specialised ----
    def gen_extra(self, rng, bad=False):
        return {}

    def impl(self, arrs, extra, rd, pd, w):
        raise NotImplementedError

    def model_arg(self, arrs, extra, rd, pd, w):
        raise NotImplementedError

    def post(self, model_tree):
        """turn the model output into what is compared with the implementation (default: as is)"""
        return model_tree

    # ---- generic ----
    def compare(self, impl, model_tree):
        if self.datasets:
            return core.compare_dataset(impl, model_tree, self.datasets)
        return core.compare_result(impl, model_tree)

    def run(self, ctx, arrs, extra, rd, pd, w):
        impl = core.call_impl(self.impl, arrs, extra, rd, pd, w)
        m = self.post(ctx.model(self.entry, self.model_arg(arrs, extra, rd, pd, w)))
        ok, why = self.compare(impl, m)
        return impl, m, ok, why

    def describe(self, arrs, extra, rd, pd, w):
        return {"fn": self.name, "arrays": [gens.da_repr(a) for a in arrs], "extra": extra, "reduce_dims": rd, "preserve_dims": pd,
                "weights": gens.da_repr(w)}


ALPHAS = [Fraction(1, 4), Fraction(1, 2), Fraction(3, 4), Fraction(1, 10)]
BAD_ALPHAS = [Fraction(0), Fraction(1), Fraction(-1, 2), Fraction(3, 2)]


class QuantileScore(Fn):
    def gen_extra(self, rng, bad=False):
        return {"alpha": rng.choice(BAD_ALPHAS if bad else ALPHAS)}

    def impl(self, arrs, extra, rd, pd, w):
        return S().continuous.quantile_score(arrs[0], arrs[1], float(extra["alpha"]), **kw_dims(rd, pd, w))

    def model_arg(self, arrs, extra, rd, pd, w):
        return enc_list([enc_arr(arrs[0]), enc_arr(arrs[1]), enc_num(extra["alpha"]), enc_dimspec(rd), enc_dimspec(pd), enc_opt(w, enc_arr)])


QIS_VARS = ["interval_width_penalty", "overprediction_penalty", "underprediction_penalty", "total"]


class QIS(Fn):
    three = True
    datasets = QIS_VARS

    def gen_extra(self, rng, bad=False):
        if bad:
            return {"ll": rng.choice([Fraction(0), Fraction(1, 2), Fraction(-1, 4)]), "ul": rng.choice([Fraction(1), Fraction(1, 2), Fraction(1, 4)])}
        ll, ul = sorted(rng.sample([Fraction(1, 10), Fraction(1, 4), Fraction(1, 2), Fraction(3, 4), Fraction(9, 10)], 2))
        return {"ll": ll, "ul": ul}

    def impl(self, arrs, extra, rd, pd, w):
        return S().continuous.quantile_interval_score(arrs[0], arrs[1], arrs[2], float(extra["ll"]), float(extra["ul"]), **kw_dims(rd, pd, w))

    def model_arg(self, arrs, extra, rd, pd, w):
        return enc_list([enc_arr(arrs[0]), enc_arr(arrs[1]), enc_arr(arrs[2]), enc_num(extra["ll"]), enc_num(extra["ul"]),
                         enc_dimspec(rd), enc_dimspec(pd), enc_opt(w, enc_arr)])


class IntervalScore(QIS):
    def gen_extra(self, rng, bad=False):
        return {"ir": rng.choice([Fraction(0), Fraction(1), Fraction(-1, 2), Fraction(2)] if bad else [Fraction(1, 2), Fraction(1, 4), Fraction(3, 4), Fraction(1, 8)])}

    def impl(self, arrs, extra, rd, pd, w):
        return S().continuous.interval_score(arrs[0], arrs[1], arrs[2], float(extra["ir"]), **kw_dims(rd, pd, w))

    def model_arg(self, arrs, extra, rd, pd, w):
        return enc_list([enc_arr(arrs[0]), enc_arr(arrs[1]), enc_arr(arrs[2]), enc_num(extra["ir"]), enc_dimspec(rd), enc_dimspec(pd), enc_opt(w, enc_arr)])


class Standard(Fn):
    """mse / mae with is_angular; additive_bias, mean_error, multiplicative_bias, pbias"""
    has_angular = False
    fn_path = None

    def gen_extra(self, rng, bad=False):
        return {"is_angular": rng.random() < 0.3} if self.has_angular else {}

    def fn(self):
        return getattr(S().continuous, self.fn_path)

    def impl(self, arrs, extra, rd, pd, w):
        kw = kw_dims(rd, pd, w)
        if self.has_angular:
            kw["is_angular"] = extra["is_angular"]
        return self.fn()(arrs[0], arrs[1], **kw)

    def model_arg(self, arrs, extra, rd, pd, w):
        a = [enc_arr(arrs[0]), enc_arr(arrs[1]), enc_dimspec(rd), enc_dimspec(pd), enc_opt(w, enc_arr)]
        if self.has_angular:
            a.append(enc_bool(extra["is_angular"]))
        return enc_list(a)


def _sqrt_tree(t):
    """apply the host sqrt to every value of a model array (rmse = sqrt of the model's exact mse)"""
    if core.is_err(t):
        return t
    dims, data = t
    out = []
    for a in data:
        v = core.dec_num(a)
        if isinstance(v, Fraction):
            out.append(repr(math.sqrt(v)) if v >= 0 else "nan")
        else:
            out.append(a)
    return [dims, out]


class Rmse(Standard):
    def post(self, t):
        return _sqrt_tree(t)

    def compare(self, impl, model_tree):
        # model values are host floats here
        st, val = impl
        if core.is_err(model_tree) or st == "err":
            return core.compare_result(impl, model_tree)
        dims = [core.dec_str(p[0]) for p in model_tree[0]]
        xs = core.da_flat(val, dims)
        qs = [float(a) for a in model_tree[1]]
        if xs is None:
            return False, "dims differ"
        ok = all((math.isnan(x) and math.isnan(q)) or abs(x - q) <= 1e-9 * max(1, abs(q)) for x, q in zip(xs, qs)) and len(xs) == len(qs)
        return ok, "" if ok else f"values differ impl {xs[:6]} model {qs[:6]}"


def moments_to(kind, tree):
    """host evaluation of correlation / KGE from the model's exact moments.
    tree: list of six arrays (count, mean_f, mean_o, var_f, var_o, cov) -> dict name -> (dims, floats)"""
    arrs = [core.dec_arr(t) for t in tree]
    dims, shape = arrs[0][0], arrs[0][1]
    n = len(arrs[0][2])
    out = {"rho": [], "alpha": [], "beta": [], "kge": []}

    def fl(v):
        return float(v)
    for i in range(n):
        cnt, mf, mo, vf, vo, cov = (arrs[k][2][i] for k in range(6))
        vals = [mf, mo, vf, vo, cov]
        if any(isinstance(v, float) and math.isnan(v) for v in vals):
            rho = alpha = beta = float("nan")
        else:
            sf, so = math.sqrt(fl(vf)), math.sqrt(fl(vo))
            with np.errstate(all="ignore"):
                rho = float(np.float64(fl(cov)) / (np.float64(sf) * np.float64(so)))
                alpha = float(np.float64(sf) / np.float64(so))
                beta = float(np.float64(fl(mf)) / np.float64(fl(mo)))
        out["rho"].append(rho)
        out["alpha"].append(alpha)
        out["beta"].append(beta)
    return dims, shape, out


class Pearson(Fn):
    weights = False
    kind = "moments"

    def impl(self, arrs, extra, rd, pd, w):
        return S().continuous.correlation.pearsonr(arrs[0], arrs[1], **kw_dims(rd, pd))

    def model_arg(self, arrs, extra, rd, pd, w):
        return enc_list([enc_arr(arrs[0]), enc_arr(arrs[1]), enc_dimspec(rd), enc_dimspec(pd)])

    def compare(self, impl, tree):
        st, val = impl
        if core.is_err(tree) or st == "err":
            return core.compare_result(impl, tree)
        dims, shape, out = moments_to("rho", tree)
        xs = core.da_flat(val, dims)
        if xs is None:
            return False, f"dims differ: impl {getattr(val, 'dims', None)} model {dims}"
        return _cmp_float(xs, out["rho"], "rho")


def _cmp_float(xs, qs, what, tol=1e-7):
    if len(xs) != len(qs):
        return False, what + ": length differs"
    for x, q in zip(xs, qs):
        if math.isnan(q) or math.isinf(q):
            # degenerate (zero variance / zero mean): 0/0 or x/0 -- rounding decides between nan/inf/huge; accept non-finite or huge
            if not (math.isnan(x) or math.isinf(x) or abs(x) > 1e6):
                return False, f"{what}: impl {x} model {q}"
        elif math.isnan(x) or abs(x - q) > tol * max(1.0, abs(q)):
            return False, f"{what}: impl {x} model {q}"
    return True, ""


class Kge(Fn):
    weights = False
    kind = "moments"
    entry = "moments"

    def gen_extra(self, rng, bad=False):
        if rng.random() < 0.5:
            return {"scaling": None}
        return {"scaling": [rng.choice([0.5, 1.0, 2.0]) for _ in range(3)]}

    def impl(self, arrs, extra, rd, pd, w):
        kw = kw_dims(rd, pd)
        self._scaling = extra.get("scaling")
        if extra.get("scaling") is not None:
            kw["scaling_factors"] = extra["scaling"]
        return S().continuous.kge(arrs[0], arrs[1], include_components=True, **kw)

    def model_arg(self, arrs, extra, rd, pd, w):
        return enc_list([enc_arr(arrs[0]), enc_arr(arrs[1]), enc_dimspec(rd), enc_dimspec(pd)])

    def compare(self, impl, tree):
        st, val = impl
        if core.is_err(tree) or st == "err":
            return core.compare_result(impl, tree)
        dims, shape, out = moments_to("kge", tree)
        for name in ("rho", "alpha", "beta"):
            xs = core.da_flat(val[name], dims)
            if xs is None:
                return False, f"dims differ for {name}"
            ok, why = _cmp_float(xs, out[name], name)
            if not ok:
                return ok, why
        sc = self._scaling or [1.0, 1.0, 1.0]
        kg = []
        for r, a, b in zip(out["rho"], out["alpha"], out["beta"]):
            if any(math.isnan(v) or math.isinf(v) for v in (r, a, b)):
                kg.append(float("nan"))
            else:
                kg.append(1 - math.sqrt((sc[0] * (r - 1)) ** 2 + (sc[1] * (a - 1)) ** 2 + (sc[2] * (b - 1)) ** 2))
        return _cmp_float(core.da_flat(val["kge"], dims), kg, "kge")


REGISTRY = {}


def reg(f):
    REGISTRY[f.name] = f
    return f


reg(QuantileScore("quantile_score"))
reg(QIS("quantile_interval_score"))
reg(IntervalScore("interval_score"))
reg(Standard("mse", has_angular=True, fn_path="mse"))
reg(Standard("mae", has_angular=True, fn_path="mae"))
reg(Rmse("rmse", entry="mse", has_angular=True, fn_path="rmse"))
reg(Standard("additive_bias", fn_path="additive_bias"))
reg(Standard("mean_error", entry="additive_bias", fn_path="mean_error"))
reg(Standard("multiplicative_bias", fn_path="multiplicative_bias", kind="ratio"))
reg(Standard("pbias", fn_path="pbias", kind="ratio"))
reg(Pearson("pearsonr", entry="moments"))
reg(Kge("kge", entry="moments"))


# ------------------------------------------------------------------------------------------
# input generation shared by the generic properties
# ------------------------------------------------------------------------------------------
def gen_arrays(rng, fn, nan_p=None, weights=None, angles=False, same_dims=False, inf_p=0.0):
    """-> (arrs, w, sizes).  obs / weights live on random subsets of the forecast dims (weights possibly with an extra dim)."""
    sizes = gens.rand_sizes(rng)
    if nan_p is None:
        nan_p = 0.15 if rng.random() < 0.5 else 0.0
    den, bound = (1, 1) if False else (4, 8)
    if angles:
        vals = [Fraction(45 * k, 2) for k in range(-40, 41)]
        mk = lambda dims, p: gens.rand_da(rng, sizes, dims=dims, nan_p=p, values=vals)  # noqa: E731
    else:
        mk = lambda dims, p: gens.rand_da(rng, sizes, dims=dims, nan_p=p)  # noqa: E731
    fcst = mk(None, nan_p)
    odims = list(sizes) if (same_dims or fn.kind == "moments") else gens.sub_dims(rng, sizes, p_drop=0.25)
    obs = mk(odims, nan_p if rng.random() < 0.6 else 0.0)
    if rng.random() < 0.5 and not angles:
        obs = gens.force_ties(rng, fcst, obs)
    if inf_p and not angles and rng.random() < inf_p:
        # infinite values are valid data (not missing): one or two of them in the forecast and / or the observation
        def sprinkle(a):
            v = a.values.copy()
            for _ in range(rng.randint(1, 2)):
                if v.size:
                    v.flat[rng.randrange(v.size)] = rng.choice([float("inf"), float("-inf")])
            return a.copy(data=v)
        which = rng.choice(["f", "o", "fo"])
        if "f" in which:
            fcst = sprinkle(fcst)
        if "o" in which:
            obs = sprinkle(obs)
    if fn.three:
        width = gens.rand_da(rng, sizes, dims=list(fcst.dims), lo=0, hi=4, shuffle=False)
        upper = (fcst + width.assign_coords({d: fcst[d] for d in fcst.dims})).transpose(*fcst.dims)
        if rng.random() < 0.3:
            upper = upper.transpose(*reversed(fcst.dims))
        arrs = [fcst, upper, obs]
    else:
        arrs = [fcst, obs]
    w = None
    use_w = fn.weights and (weights if weights is not None else rng.random() < 0.4)
    if use_w:
        wsizes = dict(sizes)
        wd = gens.sub_dims(rng, sizes, p_drop=0.4)
        if rng.random() < 0.15:
            wsizes["wx"] = 2
            wd = wd + ["wx"]
        w = gens.rand_da(rng, wsizes, dims=wd, lo=0, hi=3, nan_p=0.1 if rng.random() < 0.3 else 0.0)
    return arrs, w, sizes


# ------------------------------------------------------------------------------------------
# comparing two implementation results with each other (by label, with tolerance)
# ------------------------------------------------------------------------------------------
def same_result(a, b, tol=1e-9):
    """a, b: results of core.call_impl -> (equal?, description)"""
    if a[0] != b[0]:
        return False, f"{a[0]}:{str(a[1])[:60]} vs {b[0]}:{str(b[1])[:60]}"
    if a[0] == "err":
        return (a[1] == b[1]), f"{a[1]} vs {b[1]}"
    return same_value(a[1], b[1], tol)


def same_value(x, y, tol=1e-9):
    if isinstance(x, xr.Dataset) or isinstance(y, xr.Dataset):
        if not (isinstance(x, xr.Dataset) and isinstance(y, xr.Dataset)) or set(x.data_vars) != set(y.data_vars):
            return False, "dataset variables differ"
        for v in x.data_vars:
            ok, why = same_value(x[v], y[v], tol)
            if not ok:
                return False, f"{v}: {why}"
        return True, ""
    x = x if isinstance(x, xr.DataArray) else xr.DataArray(x)
    y = y if isinstance(y, xr.DataArray) else xr.DataArray(y)
    if set(x.dims) != set(y.dims):
        return False, f"dims {x.dims} vs {y.dims}"
    for d in x.dims:
        if d in x.coords and d in y.coords:
            x = x.sortby(d)
            y = y.sortby(d)
    y = y.transpose(*x.dims)
    if x.shape != y.shape:
        return False, f"shape {x.shape} vs {y.shape}"
    xv, yv = np.asarray(x.values, dtype=float), np.asarray(y.values, dtype=float)
    ok = np.allclose(xv, yv, rtol=tol, atol=tol, equal_nan=True)
    return bool(ok), "" if ok else f"values {xv.ravel()[:6]} vs {yv.ravel()[:6]}"


def data_dims(fn, arrs):
    """the dims the function forwards to the dimension rule (fcst u obs)"""
    out = []
    for a in arrs:
        for d in a.dims:
            if d not in out:
                out.append(d)
    return out
