"""gens.py -- seeded structured generators shared by the property modules.
Values come from a small dyadic grid so that ties (fcst == obs, value == threshold) are common and
every float is an exact rational the model can receive."""
import itertools
from fractions import Fraction

import numpy as np
import xarray as xr

DIM_NAMES = ["a", "b", "c", "d"]


def grid_value(rng, den=4, bound=8):
    return Fraction(rng.randint(-bound * den, bound * den), den)


def rand_sizes(rng, names=None, maxdims=3, maxsize=3, mindims=1):
    names = list(names or DIM_NAMES)
    k = rng.randint(mindims, min(maxdims, len(names)))
    chosen = rng.sample(names, k)
    return {d: rng.randint(1, maxsize) for d in chosen}


def rand_da(rng, sizes, dims=None, den=4, bound=8, nan_p=0.0, shuffle=True, lo=None, hi=None, values=None):
    """DataArray over `dims` (subset of sizes), integer labels 0..n-1 stored in shuffled order"""
    dims = list(dims if dims is not None else sizes.keys())
    if shuffle:
        rng.shuffle(dims)
    shape = [sizes[d] for d in dims]
    n = int(np.prod(shape)) if shape else 1
    vals = []
    for _ in range(n):
        if nan_p and rng.random() < nan_p:
            vals.append(float("nan"))
        elif values is not None:
            vals.append(float(rng.choice(values)))
        elif lo is not None:
            vals.append(float(Fraction(rng.randint(int(lo * den), int(hi * den)), den)))
        else:
            vals.append(float(grid_value(rng, den, bound)))
    arr = np.array(vals, dtype=float).reshape(shape)
    coords = {}
    for d in dims:
        labels = list(range(sizes[d]))
        if shuffle:
            rng.shuffle(labels)
        coords[d] = labels
    return xr.DataArray(arr, dims=dims, coords=coords)


def sub_dims(rng, sizes, p_drop=0.3, keep_at_least=0):
    ds = [d for d in sizes if rng.random() > p_drop]
    while len(ds) < keep_at_least:
        ds.append(rng.choice([d for d in sizes if d not in ds]))
    return ds


def subsets(xs):
    xs = list(xs)
    for r in range(len(xs) + 1):
        for c in itertools.combinations(xs, r):
            yield list(c)


def rand_dimspec(rng, data_dims, allow_bad=False):
    """(reduce_dims, preserve_dims) request in a random spelling; mostly valid"""
    data_dims = sorted(data_dims)
    r = rng.random()
    sub = [d for d in data_dims if rng.random() < 0.5]
    if allow_bad and r < 0.06:
        return (sub or None, sub or ["a"])            # both given (when sub non-empty)
    if allow_bad and r < 0.12:
        return (["zz"], None) if rng.random() < 0.5 else (None, ["zz"])
    if r < 0.25:
        return None, None
    if r < 0.35:
        return ("all", None) if rng.random() < 0.5 else (None, "all")
    if r < 0.5 and data_dims:
        d = rng.choice(data_dims)
        return (d, None) if rng.random() < 0.5 else (None, d)
    return (sub, None) if rng.random() < 0.5 else (None, sub)


def da_repr(da):
    """compact, replayable description of a DataArray (or scalar)"""
    if not isinstance(da, xr.DataArray):
        return da
    return {"dims": list(da.dims), "coords": {d: [int(x) if float(x).is_integer() else float(x) for x in da[d].values] for d in da.dims if d in da.coords},
            "values": np.asarray(da.values, dtype=float).tolist()}


def _unj(v):
    if isinstance(v, list):
        return [_unj(x) for x in v]
    if isinstance(v, str):
        return float(v)
    return v


def da_from_repr(r):
    if not isinstance(r, dict):
        return _unj(r)
    v = np.array(_unj(r["values"]), dtype=float)
    return xr.DataArray(v, dims=r["dims"], coords=r.get("coords", {}))


def force_ties(rng, fcst, obs, p=0.4):
    """copy forecast values onto a random subset of observation cells (by label), so fcst == obs ties occur"""
    sel = fcst.isel({d: rng.randrange(fcst.sizes[d]) for d in fcst.dims if d not in obs.dims})
    if set(sel.dims) != set(obs.dims):
        return obs
    sel = sel.transpose(*obs.dims).sel({d: obs[d] for d in obs.dims})
    mask = np.array([rng.random() < p for _ in range(int(np.prod(obs.shape)) if obs.shape else 1)]).reshape(obs.shape)
    out = obs.copy()
    out.values = np.where(mask & ~np.isnan(obs.values), sel.values, obs.values)
    return out
