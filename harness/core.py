"""core.py -- shared machinery of the checks: build, model driver, encoding, comparison,
evidence, verdict.  See DESIGN.md 4.3 for the run protocol."""
import fcntl
import hashlib
import json
import math
import os
import random
import re
import subprocess
import sys
import time
import traceback
from fractions import Fraction

ROOT = os.path.dirname(os.path.dirname(os.path.abspath(__file__)))
REPO = os.environ.get("VERIF_REPO", "/repo")
COQ = os.path.join(ROOT, "coq")
BUILD = os.path.join(ROOT, "build")
TOL = 1e-9

sys.path.insert(0, os.path.join(REPO, "src"))
os.environ.setdefault("PYTHONHASHSEED", "0")

NAN = float("nan")
INF = float("inf")


# ------------------------------------------------------------------------------------------
# encoding of values and trees
# ------------------------------------------------------------------------------------------
def enc_num(x):
    """number -> atom.  floats must be exactly representable rationals (the generators use dyadics)."""
    if isinstance(x, Fraction):
        return str(x.numerator) if x.denominator == 1 else f"{x.numerator}/{x.denominator}"
    if isinstance(x, bool):
        return "1" if x else "0"
    if isinstance(x, int):
        return str(x)
    x = float(x)
    if math.isnan(x):
        return "nan"
    if math.isinf(x):
        return "inf" if x > 0 else "-inf"
    return enc_num(Fraction(x))


def enc_str(s):
    return "'" + str(s)


def enc_list(items):
    return "( " + " ".join(items) + " )"


def enc_nums(xs):
    return enc_list([enc_num(x) for x in xs])


def enc_bool(b):
    return "true" if b else "false"


def enc_opt(x, f):
    return "none" if x is None else f(x)


def enc_dimspec(d):
    if d is None:
        return "none"
    if isinstance(d, str):
        return enc_str(d)
    return enc_list([enc_str(x) for x in d])


def enc_arr(da):
    """xarray.DataArray (or python scalar) -> model array, aligned on sorted labels, row-major"""
    import numpy as np
    import xarray as xr
    if not isinstance(da, xr.DataArray):
        return enc_list([enc_list([]), enc_list([enc_num(da)])])
    for d in da.dims:
        if d in da.coords:
            da = da.sortby(d)
    dims = enc_list([enc_list([enc_str(d), str(n)]) for d, n in zip(da.dims, da.shape)])
    vals = np.asarray(da.values, dtype=float).ravel()
    return enc_list([dims, enc_nums(vals)])


def parse_tree(s):
    toks = s.replace("(", " ( ").replace(")", " ) ").split()
    pos = 0

    def go():
        nonlocal pos
        t = toks[pos]
        pos += 1
        if t == "(":
            out = []
            while toks[pos] != ")":
                out.append(go())
            pos += 1
            return out
        return t
    if not toks:
        return None
    return go()


def dec_num(a):
    if a == "nan":
        return NAN
    if a == "inf":
        return INF
    if a == "-inf":
        return -INF
    return Fraction(a)


def dec_nums(t):
    return [dec_num(a) for a in t]


def dec_str(a):
    assert a.startswith("'"), a
    return a[1:]


def dec_arr(t):
    """-> (dims, shape, flat values)"""
    dims = [dec_str(p[0]) for p in t[0]]
    shape = [int(p[1]) for p in t[0]]
    return dims, shape, dec_nums(t[1])


def is_err(t):
    return isinstance(t, str) and t.startswith("err:")


def tofloat(q):
    return float(q)


def close(x, q, tol=TOL):
    """implementation float x vs model value q (Fraction, nan, +-inf)"""
    try:
        x = float(x)
    except (TypeError, ValueError):
        return False
    if isinstance(q, float):
        if math.isnan(q):
            return math.isnan(x)
        if math.isinf(q):
            return x == q
        q = Fraction(q)
    if math.isnan(x) or math.isinf(x):
        return False
    qf = float(q)
    return abs(x - qf) <= tol * max(1.0, abs(qf))


def close_list(xs, qs, tol=TOL):
    xs = list(xs)
    return len(xs) == len(qs) and all(close(x, q, tol) for x, q in zip(xs, qs))


def da_flat(da, dims):
    """implementation output DataArray -> flat float list in the model's dims order, sorted labels"""
    import numpy as np
    import xarray as xr
    if not isinstance(da, xr.DataArray):
        return [float(da)]
    if set(da.dims) != set(dims):
        return None
    for d in da.dims:
        if d in da.coords:
            da = da.sortby(d)
    da = da.transpose(*dims)
    return [float(v) for v in np.asarray(da.values, dtype=float).ravel()]


ERRMAP = {"ValueError": "err:ValueError", "TypeError": "err:TypeError", "KeyError": "err:KeyError"}


def err_class(ex):
    for cls in type(ex).__mro__:
        if cls.__name__ in ERRMAP:
            return ERRMAP[cls.__name__]
    return "err:Other"


def call_impl(fn, *args, **kw):
    """-> ('ok', value) | ('err', 'err:<class>')"""
    import warnings
    try:
        with warnings.catch_warnings():
            warnings.simplefilter("ignore")
            return "ok", fn(*args, **kw)
    except Exception as ex:  # noqa: BLE001
        return "err", err_class(ex)


# ------------------------------------------------------------------------------------------
# driver
# ------------------------------------------------------------------------------------------
class Driver:
    def __init__(self):
        exe = os.path.join(BUILD, "model_driver")
        self.p = subprocess.Popen(["/bin/bash", "-c", f"ulimit -s unlimited 2>/dev/null; exec {exe}"],
                                  stdin=subprocess.PIPE, stdout=subprocess.PIPE, text=True, bufsize=1)
        self.calls = 0

    def call(self, entry, arg):
        self.p.stdin.write(entry + " " + arg + "\n")
        self.p.stdin.flush()
        line = self.p.stdout.readline()
        if not line:
            raise RuntimeError("model driver died on entry " + entry)
        self.calls += 1
        return parse_tree(line.strip())

    def close(self):
        try:
            self.p.stdin.close()
            self.p.wait(timeout=5)
        except Exception:  # noqa: BLE001
            self.p.kill()


# ------------------------------------------------------------------------------------------
# build / proofs
# ------------------------------------------------------------------------------------------
def ensure_built():
    os.makedirs(BUILD, exist_ok=True)
    with open(os.path.join(BUILD, ".lock"), "w") as lk:
        fcntl.flock(lk, fcntl.LOCK_EX)
        p = subprocess.run([sys.executable, os.path.join(ROOT, "tools", "build.py"), "--quiet"],
                           env=dict(os.environ, VERIF_REPO=REPO), stdout=subprocess.PIPE, stderr=subprocess.STDOUT, text=True)
        st = json.load(open(os.path.join(BUILD, "build_status.json")))
        st["build_rc"] = p.returncode
        return st


THEOREM_RE = re.compile(r"^\s*(Theorem|Corollary)\s+(\w+)", re.M)


def compile_props(prop_id, thorough=False):
    """coqc coq/props/<id>.v, capturing Print Assumptions. -> dict"""
    src = os.path.join(COQ, "props", prop_id + ".v")
    out = {"file": os.path.relpath(src, ROOT), "theorems": [], "obligations": 0, "discharged": 0, "axioms": {}, "ok": False,
           "checker_cmd": f"cd coq && coqc -Q . V props/{prop_id}.v   (after tools/build.py: coq_makefile + make, full .vo)"}
    if not os.path.exists(src):
        out["error"] = "no theorem file"
        return out
    text = open(src).read()
    names = [m.group(2) for m in THEOREM_RE.finditer(text)]
    out["theorems"] = names
    out["obligations"] = len(names)
    # statements, for the evidence samples
    stmts = re.findall(r"^\s*(?:Theorem|Corollary)\s+(\w+)\s*:?([^.]*(?:\.[^\s][^.]*)*)\.\s", text, re.M)
    out["statements"] = {n: " ".join(s.split())[:400] for n, s in stmts}
    banned = re.findall(r"\b(Admitted|admit|Axiom|Parameter|Conjecture|Unset Guard Checking|bypass_check)\b", strip_comments(text))
    if banned:
        out["error"] = "banned vernacular: " + ",".join(sorted(set(banned)))
        return out
    t0 = time.time()
    with open(os.path.join(BUILD, ".lock.props." + prop_id), "w") as lk:
        fcntl.flock(lk, fcntl.LOCK_EX)
        p = subprocess.run(f"timeout 900 coqc -Q . V -w -notation-overridden,-deprecated-hint-without-locality,-deprecated-instance-without-locality,-ambiguous-paths props/{prop_id}.v",
                           shell=True, cwd=COQ, stdout=subprocess.PIPE, stderr=subprocess.STDOUT, text=True)
    out["coqc_s"] = round(time.time() - t0, 1)
    log = p.stdout
    os.makedirs(os.path.join(BUILD, "logs"), exist_ok=True)
    open(os.path.join(BUILD, "logs", prop_id + ".props.log"), "w").write(log)
    if p.returncode != 0:
        m = re.search(r'line (\d+), characters[^\n]*\n(Error:.*)', log, re.S)
        line = int(m.group(1)) if m else 0
        out["error"] = (f"line {line}: " + m.group(2)[:400]) if m else log[-400:]
        # theorems wholly before the failing line were accepted by the kernel
        done = 0
        for mm in THEOREM_RE.finditer(text):
            ln = text.count("\n", 0, mm.start()) + 1
            if line and ln < line:
                done += 1
        out["discharged"] = max(0, done - 1) if done else 0
        out["failed_theorem"] = names[out["discharged"]] if out["discharged"] < len(names) else None
        return out
    out["ok"] = True
    out["discharged"] = len(names)
    # Print Assumptions output: "Closed under the global context" or "Axioms:\n name : type ..."
    blocks = re.split(r"(?=Closed under the global context|Axioms:)", log)
    ax = []
    for b in blocks:
        if b.startswith("Closed under"):
            ax.append([])
        elif b.startswith("Axioms:"):
            ax.append(sorted(set(re.findall(r"^([\w.]+)\s*:", b[7:], re.M))))
    for n, a in zip(names, ax):
        out["axioms"][n] = a
    out["assumptions_reported"] = len(ax)
    if thorough:
        t0 = time.time()
        p = subprocess.run(f"timeout 1500 coqchk -silent -o -Q . V V.props.{prop_id}", shell=True, cwd=COQ,
                           stdout=subprocess.PIPE, stderr=subprocess.STDOUT, text=True)
        out["coqchk"] = {"s": round(time.time() - t0, 1), "tail": p.stdout[-1500:], "rc": p.returncode,
                         "ok": p.returncode == 0 and "CONTEXT SUMMARY" in p.stdout}
        out["checker_cmd"] += f" ; coqchk -silent -o -Q . V V.props.{prop_id}"
    return out


def strip_comments(text):
    out, depth, i = [], 0, 0
    while i < len(text):
        if text.startswith("(*", i):
            depth += 1
            i += 2
        elif text.startswith("*)", i) and depth:
            depth -= 1
            i += 2
        else:
            if depth == 0:
                out.append(text[i])
            i += 1
    return "".join(out)


def grep_banned():
    """no Admitted / Axiom / ... anywhere in the development"""
    bad = []
    for d, _, fs in os.walk(COQ):
        for f in fs:
            if f.endswith(".v"):
                t = strip_comments(open(os.path.join(d, f)).read())
                for m in re.finditer(r"\b(Admitted|admit|Axiom|Axioms|Parameter|Parameters|Conjecture|Admit Obligations|Unset Guard Checking|Unset Positivity Checking|Unset Universe Checking|bypass_check)\b", t):
                    bad.append(f"{os.path.relpath(os.path.join(d, f), ROOT)}: {m.group(1)}")
    return bad


# ------------------------------------------------------------------------------------------
# check context
# ------------------------------------------------------------------------------------------
class Ctx:
    def __init__(self, prop_id, tier, seed, scale=1.0):
        self.prop_id = prop_id
        self.tier = tier
        self.seed = seed
        self.scale = scale
        self.rng = random.Random(seed)
        self.driver = None
        self.evaluations = 0
        self.distinct = set()
        self.samples = []
        self.dist = {}
        self.tie_failures = []
        self.violations = []
        self.known_hits = {}
        self.notes = []
        self.exhaustive = None
        self.t0 = time.time()
        self.known = [k for k in load_known() if k["property"] == prop_id and k.get("status") == "known"]
        self.deadline = None

    # budgets
    def n(self, quick, thorough):
        v = thorough if self.tier == "thorough" else quick
        return max(1, int(v * self.scale))

    def time_left(self):
        return True if self.deadline is None else time.time() < self.deadline

    def model(self, entry, arg):
        if self.driver is None:
            self.driver = Driver()
        return self.driver.call(entry, arg)

    def count(self, key, k=1):
        self.dist[key] = self.dist.get(key, 0) + k

    def case(self, key, nontrivial=True):
        """register one explored case; key identifies it for the distinct count"""
        self.evaluations += 1
        if nontrivial:
            self.distinct.add(hashlib.sha1(repr(key).encode()).hexdigest()[:16])

    def sample(self, obj, limit=6):
        if len(self.samples) < limit:
            self.samples.append(obj)

    def tie_fail(self, what, case, impl, model):
        self.tie_failures.append({"kind": "correspondence", "what": what, "case": case, "implementation": impl, "model": model})

    def violation(self, what, case, expected, got, finding_key=None):
        """a property predicate failed on the real implementation at a concrete input"""
        if finding_key is not None:
            for k in self.known:
                if k["key"] == finding_key:
                    self.known_hits.setdefault(finding_key, {"what": k["what"], "count": 0, "example": case})
                    self.known_hits[finding_key]["count"] += 1
                    return
        self.violations.append({"kind": "property", "what": what, "case": case, "expected": expected, "got": got})

    def note(self, s):
        self.notes.append(s)


def load_known():
    """known_findings.json plus known_findings.d/*.json (all committed; never written at run time)"""
    import glob
    out = []
    for p in [os.path.join(ROOT, "known_findings.json")] + sorted(glob.glob(os.path.join(ROOT, "known_findings.d", "*.json"))):
        if os.path.exists(p):
            out += json.load(open(p))["findings"]
    return out


def jsonable(o):
    if isinstance(o, Fraction):
        return str(o)
    if isinstance(o, float):
        if math.isnan(o):
            return "nan"
        if math.isinf(o):
            return "inf" if o > 0 else "-inf"
        return o
    if isinstance(o, dict):
        return {str(k): jsonable(v) for k, v in o.items()}
    if isinstance(o, (list, tuple, set)):
        return [jsonable(v) for v in o]
    if isinstance(o, (str, int, bool)) or o is None:
        return o
    try:
        import numpy as np
        if isinstance(o, np.generic):
            return jsonable(o.item())
        if isinstance(o, np.ndarray):
            return jsonable(o.tolist())
    except ImportError:
        pass
    return repr(o)


TRUSTED_BASE = [
    "Coq 8.16.1 kernel (coqc; coqchk re-check in the thorough tier); no native_compute; vm_compute only in witnesses/examples/finite sweeps",
    "no Axiom/Parameter/Admitted in the development (grep on every run); standard-library axioms per theorem as reported by Print Assumptions (see coverage.axioms)",
    "tools/py2gallina.py + tools/sites/*.py (translator) and coq/lib/Xval.v (meaning given to numpy/xarray elementwise operations): validated by correspondence, not proved",
    "extraction: ExtrOcamlBasic only (its Extract Inductive for bool, option, list, prod, unit, sumbool, sumor); no Extract Constant; Z/positive/Q/nat/string/ascii stay extracted datatypes; ocaml/driver.ml (tokeniser/printer) and OCaml 4.13",
    "correspondence harness (generators, adapters, canonicalisation, tolerance 1e-9) and numpy/xarray/dask/scipy as execution platform of the implementation",
    "modelled, not verified: binary64 rounding/overflow/signed zero (exact rationals in the model); xarray alignment beyond inner join on identical label sets",
]


def run_check(mod, prop_id, tier, seed, replay=None):
    t0 = time.time()
    if replay and not hasattr(mod, "replay"):
        # modules without a case-level replay re-run the whole (deterministic) check with the seed and tier recorded in the
        # replay file: on the tree the replay came from this reproduces the recorded violation, on a tree where the
        # property holds it is silent
        try:
            rec = json.load(open(replay))
            seed = int(rec.get("seed", seed))
            tier = rec.get("tier", tier) if rec.get("tier") in ("quick", "thorough") else tier
        except Exception:  # noqa: BLE001
            pass
        replay = None
    budget = float(os.environ.get("VERIF_BUDGET_S", "0")) or (240 if tier == "quick" else 1500)
    build = ensure_built()
    needed_sites = getattr(mod, "SITES", [])
    site_problems = {s: build["sites"].get(s, {"ok": False, "reason": "site not registered"}) for s in needed_sites
                     if not build["sites"].get(s, {}).get("ok")}
    failed_files = {f: v.get("error", "not built") for f, v in build["files"].items() if not v["ok"]}
    banned = grep_banned()
    props = compile_props(prop_id, thorough=(tier == "thorough" and os.environ.get("VERIF_COQCHK", "1") == "1"))
    proof_ok = props["ok"] and not site_problems and not banned
    if props.get("coqchk") and not props["coqchk"]["ok"]:
        proof_ok = False
    ctx = Ctx(prop_id, tier, seed)
    ctx.deadline = t0 + budget
    ctx.build = build
    harness_error = None
    if build.get("driver_ok"):
        try:
            if replay:
                mod.replay(ctx, json.load(open(replay)))
            else:
                mod.run(ctx)
        except Exception:  # noqa: BLE001
            harness_error = traceback.format_exc()
            own_model_broken = bool(failed_files) or bool(site_problems)
            if own_model_broken and hasattr(mod, "run_without_model") and not replay and not ctx.violations:
                # the driver runs, but this property's own entry points are missing from it (its model no longer builds
                # and was left out): the exception is the missing entry; fall back to the model-free predicates
                ctx.tie_failures.append({"kind": "build", "what": "this property's model entries are missing from the driver (model does not build against the current source)",
                                         "detail": harness_error.strip().splitlines()[-1][:300]})
                harness_error = None
                try:
                    mod.run_without_model(ctx)
                except Exception:  # noqa: BLE001
                    harness_error = traceback.format_exc()
    else:
        ctx.tie_failures.append({"kind": "build", "what": "extracted model does not build against the current source",
                                 "detail": failed_files or build["steps"]})
        # the relations between public calls need no model: still look for a failing input of the property
        if hasattr(mod, "run_without_model") and not replay:
            try:
                mod.run_without_model(ctx)
            except Exception:  # noqa: BLE001
                harness_error = traceback.format_exc()
    # With every theorem of the property holding for the model, an input on which the implementation differs from a
    # model that IS the documented formula is a concrete input on which the property fails (modules opt in: TIE_IS_SPEC).
    if proof_ok and ctx.tie_failures and not ctx.violations and harness_error is None and getattr(mod, "TIE_IS_SPEC", False):
        for t in [t for t in ctx.tie_failures if t.get("kind") == "correspondence"][:10]:
            ctx.violations.append({"kind": "property", "what": "implementation differs from the proved model (= documented formula) at this input: " + t["what"],
                                   "case": t["case"], "expected": t["model"], "got": t["implementation"]})
    broken = (not proof_ok) or bool(ctx.tie_failures) or harness_error is not None
    searched = False
    if broken and not ctx.violations and harness_error is None and not replay and \
            (build.get("driver_ok") or hasattr(mod, "run_without_model")):
        # the property is no longer shown to hold: search harder for a concrete failing input
        searched = True
        for k in range(3):
            c2 = Ctx(prop_id, tier, seed + 1000 * (k + 1), scale=4.0)
            c2.deadline = time.time() + budget
            c2.build = build
            try:
                if build.get("driver_ok"):
                    (getattr(mod, "search", None) or mod.run)(c2)
                else:
                    mod.run_without_model(c2)
            except Exception:  # noqa: BLE001
                if hasattr(mod, "run_without_model") and not c2.violations:
                    try:
                        mod.run_without_model(c2)
                    except Exception:  # noqa: BLE001
                        pass
            ctx.evaluations += c2.evaluations
            ctx.distinct |= c2.distinct
            if c2.driver:
                c2.driver.close()
            if c2.violations:
                ctx.violations += c2.violations
                break
    if ctx.driver:
        ctx.driver.close()
    # self-check of the harness: predicate families the module says it exercises on every run must have run at least
    # once (a branch that silently never executes is a hole in the check, not evidence); reported, never an alarm
    dead = []
    if harness_error is None and not replay and build.get("driver_ok") and not failed_files:
        dead = [k for k in getattr(mod, "EXPECT_COUNTS", []) if not any((kk == k or kk.startswith(k)) and v for kk, v in ctx.dist.items())]
        if dead:
            ctx.notes.append("HARNESS-WARNING: predicate families that did not run: " + ", ".join(dead))
            sys.stderr.write(f"HARNESS-WARNING [{prop_id}] predicate families that did not run: {dead}\n")
    # ---- verdict ----
    os.makedirs(os.path.join(ROOT, "replays"), exist_ok=True)
    # evidence/ describes /repo itself; a rehearsal against a scratch copy (VERIF_REPO=...) writes elsewhere
    ev_dir = os.path.join(ROOT, "evidence") if os.path.realpath(REPO) == "/repo" else os.path.join(BUILD, "evidence_scratch")
    os.makedirs(ev_dir, exist_ok=True)
    lines = []
    rc = 0
    for key, h in ctx.known_hits.items():
        lines.append(f"KNOWN-FINDING: property={prop_id} {h['what']} [{key}; {h['count']} case(s) this run]")
    if ctx.violations:
        v = ctx.violations[0]
        path = write_replay(prop_id, {"property": prop_id, "kind": "failing-input", "violation": v, "seed": seed, "tier": tier,
                                      "all_violations": ctx.violations[:10], "proof_ok": proof_ok})
        lines.append(f"VIOLATION property={prop_id} replay={path}")
        rc = 1
    elif broken:
        reason = {"proof": None if proof_ok else {"props": {k: props.get(k) for k in ("error", "failed_theorem", "file")},
                                                    "untranslatable_sites": site_problems, "failed_files": failed_files, "banned": banned},
                  "correspondence": ctx.tie_failures[:10], "harness_error": harness_error}
        path = write_replay(prop_id, {"property": prop_id, "kind": "no-failing-input-found", "no_longer_checks": reason,
                                      "seed": seed, "tier": tier, "searched": searched})
        lines.append(f"VIOLATION property={prop_id} replay={path} no-failing-input-found")
        rc = 1
    cov = {
        "obligations": props["obligations"], "discharged": props["discharged"],
        "checker_cmd": props["checker_cmd"], "trusted_base": TRUSTED_BASE + list(getattr(mod, "TRUSTED", [])),
        "theorems": props["theorems"], "axioms": props["axioms"],
        "theorem_statements": props.get("statements", {}),
        "translator_sites": {s: build["sites"].get(s) for s in needed_sites},
        "evaluations": ctx.evaluations, "distinct_nontrivial": len(ctx.distinct),
        "rule": getattr(mod, "RULE", ""), "samples": jsonable(ctx.samples) or [{"theorems": props["theorems"][:5]}],
        "generator_distribution": ctx.dist, "notes": ctx.notes, "predicate_families_not_run": dead,
        "correspondence_failures": len(ctx.tie_failures), "known_findings_hit": jsonable(ctx.known_hits),
        "build": {"wall_s": build.get("wall_s"), "failed_files": failed_files},
    }
    if props.get("coqchk"):
        cov["coqchk"] = props["coqchk"]
    if ctx.exhaustive is not None:
        cov["exhaustive"] = bool(ctx.exhaustive)
    level = getattr(mod, "LEVEL", "proof")
    if level == "translation_validation":
        cov["programs"] = ctx.dist.get("programs", len(ctx.distinct))
        cov["disagreements_checked"] = len(ctx.tie_failures) + len(ctx.violations)
    ev = {"property_id": prop_id, "tier": tier, "seed": seed, "level": level, "coverage": cov,
          "assumptions": list(getattr(mod, "ASSUMPTIONS", [])), "wall_s": round(time.time() - t0, 2),
          "violations": len(ctx.violations) + (1 if (broken and not ctx.violations) else 0)}
    json.dump(jsonable(ev), open(os.path.join(ev_dir, prop_id + ".json"), "w"), indent=1)
    for ln in lines:
        print(ln)
    print(f"[{prop_id}] tier={tier} seed={seed} theorems={props['discharged']}/{props['obligations']} proof_ok={proof_ok} "
          f"evaluations={ctx.evaluations} distinct={len(ctx.distinct)} tie_failures={len(ctx.tie_failures)} "
          f"violations={len(ctx.violations)} wall={ev['wall_s']}s rc={rc}")
    if harness_error:
        print(harness_error, file=sys.stderr)
    return rc


def write_replay(prop_id, obj):
    h = hashlib.sha1(json.dumps(jsonable(obj), sort_keys=True).encode()).hexdigest()[:10]
    path = os.path.join(ROOT, "replays", f"{prop_id}-{h}.json")
    json.dump(jsonable(obj), open(path, "w"), indent=1)
    return path


# ------------------------------------------------------------------------------------------
# generic comparison of a public call against a model entry
# ------------------------------------------------------------------------------------------
def compare_result(impl, model_tree):
    """impl = call_impl(...) result; model_tree = parsed driver output for an array-valued entry.
    -> (ok, description)"""
    st, val = impl
    if is_err(model_tree):
        if st == "err":
            return (val == model_tree), f"impl raises {val}, model {model_tree}"
        return False, f"impl returns a value, model {model_tree}"
    if st == "err":
        return False, f"impl raises {val}, model returns a value"
    dims, shape, qs = dec_arr(model_tree)
    xs = da_flat(val, dims)
    if xs is None:
        return False, f"dims differ: impl {getattr(val, 'dims', None)} model {dims}"
    if not close_list(xs, qs):
        return False, f"values differ: impl {xs[:8]} model {[str(q) for q in qs[:8]]}"
    return True, ""


def compare_dataset(impl, model_tree, names):
    """impl returns xr.Dataset with variables `names`; model returns a list of arrays in that order"""
    st, val = impl
    if is_err(model_tree) or st == "err":
        return compare_result(impl, model_tree)
    for n, t in zip(names, model_tree):
        ok, d = compare_result(("ok", val[n]), t)
        if not ok:
            return False, f"{n}: {d}"
    return True, ""
