import argparse, importlib, os, sys
sys.path.insert(0, os.path.dirname(os.path.abspath(__file__)))
import core

def main():
    ap = argparse.ArgumentParser()
    ap.add_argument("prop")
    ap.add_argument("--tier", default=os.environ.get("VERIF_TIER", "quick"))
    ap.add_argument("--replay", default=None)
    a = ap.parse_args()
    tier = a.tier if a.tier in ("quick", "thorough") else "quick"
    seed = int(os.environ.get("VERIF_SEED", "20260930"))
    mod = importlib.import_module("props." + a.prop.lower())
    sys.exit(core.run_check(mod, a.prop.upper(), tier, seed, a.replay))

main()
