import argparse, importlib, os, sys
sys.path.insert(0, os.path.dirname(os.path.abspath(__file__)))
import core

def main():
    ap = argparse.ArgumentParser()
    ap.add_argument("prop")
    ap.add_argument("--tier", default=os.environ.get("VERIF_TIER", "quick"))
    ap.add_argument("--replay", default=None)
    a = ap.parse_args()
    tier = a.tier if a.tier in ("quick", "thorough") else "quick"
    seed = int(os.environ.get("VERIF_SEED", "20260930"))
    pid = a.prop.upper()
    try:
        mod = importlib.import_module("props." + a.prop.lower())
        rc = core.run_check(mod, pid, tier, seed, a.replay)
    except SystemExit:
        raise
    except BaseException:  # noqa: BLE001  -- fail closed: a crash of the machinery means the property is no longer shown to hold
        import json, traceback
        tb = traceback.format_exc()
        root = os.path.dirname(os.path.dirname(os.path.abspath(__file__)))
        os.makedirs(os.path.join(root, "replays"), exist_ok=True)
        path = os.path.join(root, "replays", f"{pid}-harness-crash.json")
        json.dump({"property": pid, "kind": "no-failing-input-found", "no_longer_checks": "the check itself raised before reaching a verdict",
                   "traceback": tb, "seed": seed, "tier": tier}, open(path, "w"), indent=1)
        sys.stderr.write(tb)
        print(f"VIOLATION property={pid} replay={path} no-failing-input-found")
        rc = 1
    sys.exit(rc)

main()
