"""recipes.py -- call recipes for ~40 public functions (inputs generator + call), shared by the generic properties
C01-C04.  A recipe needs no model: it is used for relations between calls of the implementation itself."""
import operator as _operator
import numpy as np
import xarray as xr

import gens


def S():
    import scores
    return scores


def mat(da):
    """materialise as a fresh C-contiguous array (avoids the platform's bottleneck bug on strided views)"""
    return xr.DataArray(np.array(da.values, order="C", copy=True), dims=da.dims, coords={k: v for k, v in da.coords.items()}, attrs=dict(da.attrs))


# ------------------------------------------------------------------------------------------
# recipes: name -> (inputs generator, call(inputs, **dims kw), options)
# ------------------------------------------------------------------------------------------
class Recipe:
    def __init__(self, name, gen, call, fixed=(), lazy=True, dask=True, dataset=None, dims_kw=True, fn=None,
                 specific=(), weights=False, kind="mean", keeps=(), obs_extra=False, fwd_weights=False, dtypes=True):
        self.name, self.gen, self.call = name, gen, call
        self.dtypes = dtypes           # integer-valued inputs may be stored as int64 / int32 / float32 (storage-dtype representation)
        self.specific = (set(specific) | set(fixed)) - set(keeps)   # score-specific dims: never survive in the result
        self.nondata = set(specific) | set(fixed)                     # dims that are not "data dimensions" of the request
        self.weights = weights         # accepts weights=
        self.kind = kind               # mean | ratio | other (how weights act)
        self.obs_extra = obs_extra     # obs may carry a dimension the forecast lacks (broadcast)
        self.fwd_weights = fwd_weights  # passes weights.dims to the dimension rule (a weights-only dim is a data dim)
        self.fixed = set(fixed)        # positional dims: never transposed away / label-shuffled
        self.lazy = lazy               # result expected to stay lazy for dask inputs
        self.dask = dask               # dask representation in scope
        self.dataset = dataset         # public function object to inspect for XarrayLike annotations (None: not applicable)
        self.dims_kw = dims_kw
        self.fn = fn


def g_point(rng, nan=0.15, lo=0, hi=4, extra=None):
    sizes = {"a": rng.randint(1, 2), "b": rng.randint(2, 3), "c": rng.randint(1, 2)}
    f = gens.rand_da(rng, sizes, nan_p=nan, lo=lo, hi=hi, den=2)
    o = gens.rand_da(rng, sizes, dims=gens.sub_dims(rng, sizes, p_drop=0.2, keep_at_least=1), nan_p=nan, lo=lo, hi=hi, den=2)
    return [f, o]


def add_obs_dim(rng, xs, name="e"):
    """give the observation a dimension the forecast lacks"""
    o = xs[1]
    n = rng.randint(1, 2)
    parts = [o if k == 0 else o.copy(data=np.roll(o.values, k)) for k in range(n)]     # same value set (binary stays binary)
    o2 = xr.concat(parts, dim=xr.DataArray(rng.sample(range(n), n), dims=name, name=name))
    return [xs[0], mat(o2)] + list(xs[2:])


def g_same(rng, **kw):
    sizes = {"a": rng.randint(1, 2), "b": rng.randint(2, 3), "c": rng.randint(1, 2)}
    return [gens.rand_da(rng, sizes, nan_p=0.1, lo=0, hi=4, den=2), gens.rand_da(rng, sizes, nan_p=0.1, lo=0, hi=4, den=2)]


def g_binary(rng):
    f, o = g_point(rng)
    return [(f > 2).astype(float).where(f.notnull()), (o > 2).astype(float).where(o.notnull())]


def g_prob(rng):
    f, o = g_point(rng)
    return [f / 4, (o > 2).astype(float).where(o.notnull())]


def g_ens(rng):
    sizes = {"a": rng.randint(1, 2), "b": rng.randint(2, 3), "m": rng.randint(1, 3)}
    f = gens.rand_da(rng, sizes, nan_p=0.1, lo=0, hi=4, den=2)
    o = gens.rand_da(rng, sizes, dims=["a", "b"] if rng.random() < 0.7 else ["b"], nan_p=0.1, lo=0, hi=4, den=2)
    return [f, o]


def g_ens_thr(rng):
    """ensemble + observation + per-case lower / upper thresholds along 'b' (arrays are inputs too: they can be transposed,
    label-shuffled, dask-chunked, stored as integers like the data)"""
    f, o = g_ens(rng)
    nb = f.sizes["b"]
    lo = xr.DataArray([float(rng.randint(0, 4)) / 2 for _ in range(nb)], dims=["b"], coords={"b": list(f["b"].values)})
    hi = lo + xr.DataArray([float(rng.randint(1, 4)) / 2 for _ in range(nb)], dims=["b"], coords={"b": list(f["b"].values)})
    return [f, o, lo, hi]


def g_cdf(rng, on_grid=False):
    sizes = {"a": rng.randint(1, 2), "b": rng.randint(2, 3)}
    n = rng.randint(3, 4)
    thr = [0.0, 1.0, 2.0, 4.0][:n]
    shape = [sizes["a"], sizes["b"], n]
    vals = np.sort(np.array([[rng.randint(0, 8) / 8 for _ in range(n)] for _ in range(sizes["a"] * sizes["b"])]), axis=-1).reshape(shape)
    lab = {d: rng.sample(range(sizes[d]), sizes[d]) for d in sizes}
    f = xr.DataArray(vals, dims=["a", "b", "threshold"], coords={"a": lab["a"], "b": lab["b"], "threshold": thr})
    pts = thr if on_grid else [0.0, 0.5, 1.0, 1.5, 3.0, 4.0]
    o = xr.DataArray(np.array([[rng.choice(pts) for _ in range(sizes["b"])] for _ in range(sizes["a"])]), dims=["a", "b"],
                     coords={"a": rng.sample(range(sizes["a"]), sizes["a"]), "b": rng.sample(range(sizes["b"]), sizes["b"])})
    return [f, o]


def g_fss(rng):
    sizes = {"t": rng.randint(1, 2), "x": 3, "y": 4}
    f = gens.rand_da(rng, sizes, dims=["t", "x", "y"], lo=0, hi=4, den=1, shuffle=False)
    o = gens.rand_da(rng, sizes, dims=["t", "x", "y"], lo=0, hi=4, den=1, shuffle=False)
    return [f, o]


def g_risk(rng):
    sizes = {"s": rng.randint(2, 3), "sev": 2}
    f = gens.rand_da(rng, sizes, dims=["s", "sev"], lo=0, hi=1, den=4)
    o = gens.rand_da(rng, sizes, dims=["s", "sev"], values=[0, 1])
    return [f, o]


def g_ff(rng, angular=False):
    sizes = {"a": rng.randint(1, 2), "t": rng.randint(3, 5)}
    f = gens.rand_da(rng, sizes, dims=["a", "t"], lo=0, hi=7, den=1, shuffle=False)
    if angular:
        f = (f - 2) * 67.5        # directions on a 67.5 degree grid, some outside [0, 360)
    return [f, f]


def g_dm(rng):
    """score differences for diebold_mariano: series along 't' (order matters: positional), one series per label of 'l',
    the lead time h as a coordinate along 'l'"""
    nl, nt = rng.randint(2, 3), rng.randint(5, 8)
    f = gens.rand_da(rng, {"l": nl, "t": nt}, dims=["l", "t"], lo=-3, hi=4, den=2, nan_p=0.1, shuffle=False)
    vals = f.values.copy()
    for i in range(nl):                      # at least four valid values per series, not all equal
        row = vals[i]
        bad = np.isnan(row)
        if (~bad).sum() < 4:
            row[bad] = 0.5
        if len(set(row[~np.isnan(row)])) < 2:
            row[0] = row[0] + 1.0 if not np.isnan(row[0]) else 1.0
    f = f.copy(data=vals).assign_coords(l=rng.sample(range(10), nl))
    f = f.assign_coords(h=("l", [rng.randint(1, 2) for _ in range(nl)]))
    return [f]


def g_iso(rng):
    sizes = {"a": rng.randint(2, 3), "b": rng.randint(2, 3)}
    f = gens.rand_da(rng, sizes, lo=0, hi=3, den=1, nan_p=0.1)
    o = gens.rand_da(rng, sizes, lo=0, hi=4, den=2, nan_p=0.1)
    w = gens.rand_da(rng, sizes, lo=1, hi=3, den=1)
    return [f, o, w]


def iso_result(r):
    """isotonic_fit returns a dict: keep the label-free numeric parts as a Dataset"""
    return xr.Dataset({k: xr.DataArray(np.asarray(r[k], dtype=float), dims=[k + "_i"]) for k in ("fcst_sorted", "fcst_counts", "regression_values")})


def recipes():
    Sc = S()
    C, P, K, PR = Sc.continuous, Sc.probability, Sc.categorical, Sc.processing
    from scores.continuous.correlation import pearsonr
    from scores.spatial import fss_2d
    from scores.emerging import risk_matrix_score
    from scores.processing.cdf import cdf_envelope
    from scores.stats.statistical_tests import diebold_mariano as DM
    dw = xr.DataArray([[1.0, 2.0], [0.5, 1.0]], dims=["pt", "sev"], coords={"pt": [0.25, 0.75], "sev": [0, 1]})
    R = [
        Recipe("mse", g_point, lambda x, **k: C.mse(x[0], x[1], **k), dataset=C.mse, weights=True, obs_extra=True),
        Recipe("rmse", g_point, lambda x, **k: C.rmse(x[0], x[1], **k), dataset=C.rmse, weights=True, obs_extra=True),
        Recipe("mae", g_point, lambda x, **k: C.mae(x[0], x[1], **k), dataset=C.mae, weights=True, obs_extra=True),
        Recipe("mse_angular", g_point, lambda x, **k: C.mse(x[0] * 45, x[1] * 45, is_angular=True, **k)),
        Recipe("additive_bias", g_point, lambda x, **k: C.additive_bias(x[0], x[1], **k), dataset=C.additive_bias, weights=True, obs_extra=True),
        Recipe("multiplicative_bias", g_point, lambda x, **k: C.multiplicative_bias(x[0], x[1], **k), dataset=C.multiplicative_bias, weights=True, kind="ratio", obs_extra=True),
        Recipe("pbias", g_point, lambda x, **k: C.pbias(x[0], x[1], **k), dataset=C.pbias, weights=True, kind="ratio", obs_extra=True),
        Recipe("kge", g_same, lambda x, **k: C.kge(x[0], x[1], include_components=True, **k), kind="other"),
        Recipe("pearsonr", g_same, lambda x, **k: pearsonr(x[0], x[1], **k), kind="other"),
        Recipe("quantile_score", g_point, lambda x, **k: C.quantile_score(x[0], x[1], 0.3, **k), dataset=C.quantile_score, weights=True),
        Recipe("quantile_interval_score", g_point, lambda x, **k: C.quantile_interval_score(x[0], x[0] + 1, x[1], 0.1, 0.8, **k), weights=True),
        Recipe("interval_score", g_point, lambda x, **k: C.interval_score(x[0], x[0] + 1, x[1], 0.5, **k), weights=True),
        Recipe("murphy_score", g_point, lambda x, **k: C.murphy_score(x[0], x[1], [1.0, 2.0], functional="huber", huber_a=1.0, alpha=0.3, decomposition=True, **k), obs_extra=True),
        Recipe("consistent_quantile_score", g_point, lambda x, **k: C.consistent_quantile_score(x[0], x[1], 0.3, lambda v: v, **k), weights=True, obs_extra=True),
        Recipe("consistent_expectile_score", g_point, lambda x, **k: C.consistent_expectile_score(x[0], x[1], 0.3, lambda v: v ** 2, lambda v: 2 * v, **k), weights=True, obs_extra=True),
        Recipe("tw_squared_error", g_point, lambda x, **k: C.tw_squared_error(x[0], x[1], (1, 3), **k), weights=True, obs_extra=True),
        Recipe("tw_absolute_error", g_point, lambda x, **k: C.tw_absolute_error(x[0], x[1], (1, 3), **k), weights=True, obs_extra=True),
        Recipe("tw_quantile_score", g_point, lambda x, **k: C.tw_quantile_score(x[0], x[1], 0.3, (1, 3), **k), weights=True),
        Recipe("tw_huber_loss_trapezoid", g_point, lambda x, **k: C.tw_huber_loss(x[0], x[1], 1.5, (1, 2), interval_where_positive=(0, 3), **k), weights=True),
        Recipe("firm", g_point, lambda x, **k: K.firm(x[0], x[1], 0.3, [1, 2], [1, 2], discount_distance=1.0, **k), weights=True),
        Recipe("probability_of_detection", g_binary, lambda x, **k: K.probability_of_detection(x[0], x[1], **k), dataset=K.probability_of_detection, weights=True, kind="ratio", obs_extra=True),
        Recipe("probability_of_false_detection", g_binary, lambda x, **k: K.probability_of_false_detection(x[0], x[1], **k), weights=True, kind="ratio", obs_extra=True),
        Recipe("brier_score", g_prob, lambda x, **k: P.brier_score(x[0], x[1], **k), dataset=P.brier_score, weights=True, obs_extra=True),
        Recipe("roc_curve_data", g_prob, lambda x, **k: P.roc_curve_data(x[0], x[1], [0, 0.25, 0.5, 0.75, 1], **k), lazy=False, weights=True, kind="ratio", obs_extra=True),
        Recipe("roc_curve_data_unchecked", g_prob, lambda x, **k: P.roc_curve_data(x[0], x[1], [0, 0.25, 0.5, 0.75, 1], check_args=False, **k), lazy=False, weights=True, kind="ratio", obs_extra=True),
        Recipe("binary_discretise_proportion", g_point, lambda x, **k: PR.binary_discretise_proportion(x[0], [1, 2], ">=", **k)),
        Recipe("binary_discretise_proportion_eq_operator", g_point, lambda x, **k: PR.binary_discretise_proportion(x[0], [1, 2], _operator.eq, **k)),
        Recipe("binary_discretise_proportion_ne_operator", g_point, lambda x, **k: PR.binary_discretise_proportion(x[0], [1, 2], _operator.ne, **k)),
        Recipe("binary_discretise_proportion_lt_tolerance", g_point, lambda x, **k: PR.binary_discretise_proportion(x[0], [1, 2], "<", abs_tolerance=0.25, **k)),
        Recipe("binary_discretise_proportion_autosqueeze", g_point, lambda x, **k: PR.binary_discretise_proportion(x[0], [2], ">", autosqueeze=True, **k)),
        Recipe("proportion_exceeding_scalar", g_point, lambda x, **k: PR.proportion_exceeding(x[0], 2.0, **k)),
        Recipe("proportion_exceeding", g_point, lambda x, **k: PR.proportion_exceeding(x[0], [0.5, 2.5], **k), keeps=["threshold"]),
        Recipe("contingency_table", g_point, lambda x, **k: K.ThresholdEventOperator().make_contingency_manager(x[0], x[1], event_threshold=2).transform(**k).get_table(), lazy=False, obs_extra=True, dataset=True),
        Recipe("contingency_table_two_step", g_point,
               lambda x, **k: K.BinaryContingencyManager(*K.ThresholdEventOperator().make_event_tables(x[0], x[1], event_threshold=2)).transform(**k).get_table(),
               lazy=False, obs_extra=True, dataset=True),
        Recipe("crps_for_ensemble", g_ens, lambda x, **k: P.crps_for_ensemble(x[0], x[1], "m", include_components=True, **k), fixed=[], weights=True, specific=["m"], fwd_weights=True),
        Recipe("crps_for_ensemble_fair", g_ens, lambda x, **k: P.crps_for_ensemble(x[0], x[1], "m", method="fair", **k), weights=True, specific=["m"], fwd_weights=True),
        Recipe("tail_tw_crps_for_ensemble", g_ens, lambda x, **k: P.tail_tw_crps_for_ensemble(x[0], x[1], "m", 2.0, **k), weights=True, specific=["m"], fwd_weights=True),
        Recipe("interval_tw_crps_array_thresholds", g_ens_thr, lambda x, **k: P.interval_tw_crps_for_ensemble(x[0], x[1], "m", x[2], x[3], **k), specific=["m"], lazy=False),
        Recipe("tail_tw_crps_array_threshold", lambda rng: g_ens_thr(rng)[:3], lambda x, **k: P.tail_tw_crps_for_ensemble(x[0], x[1], "m", x[2], tail="upper", **k), specific=["m"], lazy=False),
        Recipe("interval_tw_crps_for_ensemble", g_ens, lambda x, **k: P.interval_tw_crps_for_ensemble(x[0], x[1], "m", 1.0, 3.0, **k), weights=True, specific=["m"], fwd_weights=True),
        Recipe("brier_score_for_ensemble", g_ens, lambda x, **k: P.brier_score_for_ensemble(x[0], x[1], "m", [1, 2], **k), weights=True, specific=["m"], fwd_weights=True),
        Recipe("crps_cdf_exact", g_cdf, lambda x, **k: P.crps_cdf(x[0], x[1], include_components=True, **k), fixed=["threshold"], weights=True),
        Recipe("crps_cdf_trapz", g_cdf, lambda x, **k: P.crps_cdf(x[0], x[1], integration_method="trapz", **k), fixed=["threshold"], weights=True),
        Recipe("crps_cdf_brier_decomposition", g_cdf, lambda x, **k: P.crps_cdf_brier_decomposition(x[0], x[1], **k), fixed=["threshold"], keeps=["threshold"]),
        Recipe("cdf_envelope", g_cdf, lambda x, **k: cdf_envelope(x[0], "threshold"), fixed=["threshold"], dims_kw=False, lazy=False),
        Recipe("adjust_fcst_for_crps", g_cdf, lambda x, **k: P.adjust_fcst_for_crps(x[0], "threshold", x[1]), fixed=["threshold"], dims_kw=False, lazy=False),
        Recipe("fss_2d", g_fss, lambda x, **k: fss_2d(x[0], x[1], event_threshold=2, window_size=(2, 3), spatial_dims=("x", "y"), **k), fixed=["x", "y"], dask=False, lazy=False),
        Recipe("risk_matrix_score", g_risk, lambda x, **k: risk_matrix_score(x[0], x[1], dw, "sev", "pt", **k), lazy=False, weights=True, specific=["sev"], fwd_weights=True),
        Recipe("isotonic_fit_weighted", g_iso, lambda x, **k: iso_result(Sc.processing.isoreg_impl.isotonic_fit(x[0], x[1], weight=x[2])),
               dims_kw=False, dask=False, lazy=False),
        Recipe("isotonic_fit_median", g_iso, lambda x, **k: iso_result(Sc.processing.isoreg_impl.isotonic_fit(x[0], x[1], functional="quantile", quantile_level=0.5)),
               dims_kw=False, dask=False, lazy=False),
        Recipe("diebold_mariano_hln", g_dm, lambda x, **k: DM(x[0], "l", "h", method="HLN", statistic_distribution="t"), fixed=["t"], dims_kw=False, dask=False, lazy=False, dtypes=False),
        Recipe("diebold_mariano_hg", g_dm, lambda x, **k: DM(x[0], "l", "h", method="HG"), fixed=["t"], dims_kw=False, dask=False, lazy=False, dtypes=False),
        Recipe("flip_flop_index", g_ff, lambda x, **k: C.flip_flop_index(x[0], "t"), fixed=["t"], dims_kw=False),
        Recipe("flip_flop_index_angular", lambda rng: g_ff(rng, True), lambda x, **k: C.flip_flop_index(x[0], "t", is_angular=True), fixed=["t"], dims_kw=False, lazy=False),
    ]
    return R


