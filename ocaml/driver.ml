(* driver.ml -- line protocol around the extracted model.
   input line :  <entry-name> <tree>      tree ::= atom | ( tree* )
   output line:  <tree>
   Atoms are passed to / received from the Coq side as Coq strings; all number parsing and
   printing happens in the extracted Gallina code (lib/Tree.v). *)

let coq_of_char (c : char) : Model.ascii =
  let n = Char.code c in
  let b i = (n lsr i) land 1 = 1 in
  Model.Ascii (b 0, b 1, b 2, b 3, b 4, b 5, b 6, b 7)
let char_of_coq (a : Model.ascii) : char =
  match a with Model.Ascii (b0, b1, b2, b3, b4, b5, b6, b7) ->
    let v b i = if b then 1 lsl i else 0 in
    Char.chr (v b0 0 + v b1 1 + v b2 2 + v b3 3 + v b4 4 + v b5 5 + v b6 6 + v b7 7)
let coq_of_string (s : string) : Model.string =
  let r = ref Model.EmptyString in
  for i = String.length s - 1 downto 0 do r := Model.String (coq_of_char s.[i], !r) done; !r
let string_of_coq (s : Model.string) : string =
  let b = Buffer.create 16 in
  let rec go = function Model.EmptyString -> () | Model.String (c, t) -> Buffer.add_char b (char_of_coq c); go t in
  go s; Buffer.contents b

let tokens (line : string) : string list =
  let out = ref [] and cur = Buffer.create 16 in
  let flush () = if Buffer.length cur > 0 then (out := Buffer.contents cur :: !out; Buffer.clear cur) in
  String.iter (fun c ->
    if c = '(' || c = ')' then (flush (); out := String.make 1 c :: !out)
    else if c = ' ' || c = '\t' || c = '\r' || c = '\n' then flush ()
    else Buffer.add_char cur c) line;
  flush (); List.rev !out

let rec parse (ts : string list) : Model.raw * string list =
  match ts with
  | "(" :: rest ->
      let rec items acc ts = match ts with
        | ")" :: rest -> (Model.RL (List.rev acc), rest)
        | [] -> failwith "unbalanced"
        | _ -> let (t, rest) = parse ts in items (t :: acc) rest in
      items [] rest
  | ")" :: _ -> failwith "unexpected )"
  | a :: rest -> (Model.RA (coq_of_string a), rest)
  | [] -> failwith "empty"

let rec print (b : Buffer.t) (t : Model.raw) : unit =
  match t with
  | Model.RA s -> Buffer.add_string b (string_of_coq s)
  | Model.RL l -> Buffer.add_string b "("; List.iteri (fun i x -> if i > 0 then Buffer.add_char b ' '; print b x) l; Buffer.add_string b ")"

let () =
  try
    while true do
      let line = input_line stdin in
      (match tokens line with
       | name :: rest ->
           (try
              let (arg, _) = parse rest in
              let res = Model.run_entry (coq_of_string name) arg in
              let b = Buffer.create 256 in print b res; print_string (Buffer.contents b)
            with Failure m -> print_string ("err:Driver:" ^ m)
               | Stack_overflow -> print_string "err:Driver:stack")
       | [] -> print_string "err:Driver:emptyline");
      print_newline ()
    done
  with End_of_file -> ()
